#!/bin/bash
# usage: seedround.sh <suffix> [ids...]   confirms and files the seeds of one round
# (/tmp/seed_out/Cxx<suffix>) and prints which checks caught them
suf=$1; shift
ids=${@:-C01 C02 C03 C04 C05 C06 C07 C08 C09 C10 C11 C12 C13 C14 C15 C16 C17 C18 C19 C20}
cd /verif
for p in $ids; do
  n=${p}${suf}
  [ -f /tmp/seed_out/$n/patch.diff ] || { echo "$n: no patch"; continue; }
  python3 seedkeep.py $p $n > /tmp/keep_$n.log 2>&1
  python3 - "$n" <<'PY'
import json,os,sys
n=sys.argv[1]; p='/verif/seeded/%s/meta.json'%n
if not os.path.exists(p):
    print(n,'NOT KEPT:', open('/tmp/keep_%s.log'%n).read()[-400:].replace('\n',' | ')); sys.exit()
m=json.load(open(p)); c=m['confirmation']['checks']
for k,v in c.items():
    print(n,k,'exit',v['exit'],[l[:200] for l in v['lines'] if 'failure' in l or 'INFRA' in l][:1])
PY
done
