#!/bin/sh
# Offline setup: make sure the harness module resolves and warm the build cache.
set -e
cd "$(dirname "$0")/harness"
export GOFLAGS=-mod=mod GOPROXY=off GOSUMDB=off GOTOOLCHAIN=local
[ -f go.sum ] || cp /repo/go.sum go.sum
go build ./stat ./refcodec
go vet ./stat >/dev/null 2>&1 || true
echo setup ok
