"""Generation pre-steps of the driver (engine E2 pipeline): framework registry, generated
IDL programs -> tars2go (built from the working tree) -> overlay entries, registry, glue.

Nothing is written under /repo or /verif: generated sources live in the per-run scratch
directory and are mapped into the harness module through the -overlay file."""
import json, os, re, subprocess, time, shutil, hashlib

VERIF = os.path.dirname(os.path.abspath(__file__))
HARNESS = os.path.join(VERIF, "harness")
TARS2GO_WATCHDOG = 60


def _add_overlay(overlay, mapping):
    o = json.load(open(overlay))
    o["Replace"].update(mapping)
    json.dump(o, open(overlay, "w"))


def _run(cmd, cwd, env, timeout=600):
    try:
        r = subprocess.run(cmd, cwd=cwd, env=env, stdout=subprocess.PIPE, stderr=subprocess.STDOUT, text=True, timeout=timeout)
        return r.returncode, r.stdout
    except subprocess.TimeoutExpired as e:
        return -999, (e.stdout or b"").decode(errors="replace") if isinstance(e.stdout, bytes) else (e.stdout or "")


def _modflags(tmp):
    mf = os.path.join(tmp, "go.mod")
    return ["-modfile=" + mf] if os.path.exists(mf) else []


def build_idlgen(tmp, env, log):
    out = os.path.join(tmp, "bin", "idlgen")
    if os.path.exists(out):
        return out
    os.makedirs(os.path.dirname(out), exist_ok=True)
    rc, o = _run(["go", "build"] + _modflags(tmp) + ["-o", out, "./cmd/idlgen"], HARNESS, env)
    if rc != 0:
        log("idlgen build failed:\n" + o[-3000:])
        return None
    return out


def build_tars2go(repo, tmp, env, log):
    out = os.path.join(tmp, "bin", "tars2go")
    if os.path.exists(out):
        return out
    os.makedirs(os.path.dirname(out), exist_ok=True)
    rc, o = _run(["go", "build", "-o", out, "."], os.path.join(repo, "tars", "tools", "tars2go"), env)
    if rc != 0:
        log("tars2go build failed:\n" + o[-3000:])
        return None
    return out


def gen_framework(repo, tmp, overlay, env, log):
    tool = build_idlgen(tmp, env, log)
    if not tool:
        return False
    rc, o = _run([tool, "-mode", "framework", "-res", os.path.join(repo, "tars", "protocol", "res"), "-out", os.path.join(tmp, "gen")], tmp, env)
    if rc != 0:
        log("idlgen framework failed:\n" + o[-2000:])
        return False
    _add_overlay(overlay, {os.path.join(HARNESS, "gen", "regfw", "registry_gen.go"): os.path.join(tmp, "gen", "regfw", "registry_gen.go")})
    return True


def tars2go_flags(info):
    fl = ["-outdir=gen/p%d" % info["id"], "-module=verif/harness"]
    fl.append("-without-trace=%s" % ("true" if info["without_trace"] else "false"))
    fl.append("-add-servant=%s" % ("true" if info["add_servant"] else "false"))
    if info.get("json_omitempty"):
        fl.append("-json-omitempty=true")
    if info.get("dispatch_reporter"):
        fl.append("-dispatch-reporter=true")
    if info.get("module_upper"):
        fl.append("-module-upper=true")
    return fl


def run_tars2go(t2g, info, tmp, env):
    """Runs the generator on one program; cwd = scratch dir (relative -outdir / -module
    decide the import paths). Returns (rc, output, seconds)."""
    t0 = time.time()
    rc, out = _run([t2g] + tars2go_flags(info) + [os.path.join("idl", info["root"])], tmp, env, timeout=TARS2GO_WATCHDOG)
    return rc, out, time.time() - t0


def collect_generated(info, tmp):
    mapping = {}
    root = os.path.join(tmp, "gen", "p%d" % info["id"])
    for d, _, fs in os.walk(root):
        for f in fs:
            if f.endswith(".go"):
                src = os.path.join(d, f)
                rel = os.path.relpath(src, tmp)
                mapping[os.path.join(HARNESS, rel)] = src
    return mapping


def gen_programs(repo, tmp, overlay, env, log, seed, count, want_glue=False, pkg="regp", allow_optional_byte=False, first=0):
    """Returns dict(ok=[ids], failed=[(id, stage, output)], infos={id: info})."""
    tool = build_idlgen(tmp, env, log)
    t2g = build_tars2go(repo, tmp, env, log)
    if not tool or not t2g:
        return None
    cmd = [tool, "-mode", "programs", "-seed", str(seed if seed else 20260927), "-first", str(first), "-count", str(count), "-out", tmp]
    if allow_optional_byte:
        cmd.append("-allow-optional-byte")
    rc, o = _run(cmd, tmp, env)
    if rc != 0:
        log("idlgen programs failed:\n" + o[-2000:])
        return None
    res = dict(ok=[], failed=[], infos={}, times={})
    for i in range(first, first + count):
        info = json.load(open(os.path.join(tmp, "prog_%d.json" % i)))
        res["infos"][i] = info
        rc, out, dt = run_tars2go(t2g, info, tmp, env)
        res["times"][i] = dt
        if rc != 0:
            res["failed"].append((i, "tars2go-timeout" if rc == -999 else "tars2go-exit-%s" % rc, out[-2000:]))
            continue
        mapping = collect_generated(info, tmp)
        if not mapping:
            res["failed"].append((i, "tars2go-no-output", out[-2000:]))
            continue
        _add_overlay(overlay, mapping)
        pkgs = sorted(set(info["imports"].values()))
        rc, out = _run(["go", "build", "-overlay", overlay] + _modflags(tmp) + pkgs, HARNESS, env)
        if rc != 0:
            res["failed"].append((i, "generated-code-does-not-compile", out[-3000:]))
            # drop the broken files from the overlay again so later builds are unaffected
            o = json.load(open(overlay))
            for k in mapping:
                o["Replace"].pop(k, None)
            json.dump(o, open(overlay, "w"))
            continue
        res["ok"].append(i)
    for attempt in range(4):
        ids = ",".join(str(i) for i in res["ok"])
        rc, o = _run([tool, "-mode", "registry", "-in", tmp, "-ids", ids, "-pkg", pkg, "-out", os.path.join(tmp, "gen")], tmp, env)
        if rc != 0:
            log("idlgen registry failed:\n" + o[-2000:])
            return None
        _add_overlay(overlay, {os.path.join(HARNESS, "gen", pkg, "registry_gen.go"): os.path.join(tmp, "gen", pkg, "registry_gen.go")})
        if want_glue:
            rc, o = _run([tool, "-mode", "glue", "-in", tmp, "-ids", ids, "-pkg", pkg, "-out", os.path.join(tmp, "gen")], tmp, env)
            if rc != 0:
                log("idlgen glue failed:\n" + o[-2000:])
                return None
            _add_overlay(overlay, {os.path.join(HARNESS, "gen", pkg, "glue_gen.go"): os.path.join(tmp, "gen", pkg, "glue_gen.go")})
        # the registry and the servant/proxy glue are written from the MODEL (IDL signature ->
        # expected Go API); when they do not compile against tars2go's output, the generated
        # API of the named programs disagrees with their IDL
        rc, out = _run(["go", "build", "-gcflags=-e", "-overlay", overlay] + _modflags(tmp) + ["verif/harness/gen/" + pkg], HARNESS, env)
        if rc == 0:
            return res
        bad = sorted({int(m) for m in re.findall(r"\bq(\d+)[a-z]\.", out)} | {int(m) for m in re.findall(r"_q(\d+)[a-z]_", out)})
        bad = [i for i in bad if i in res["ok"]]
        if not bad:
            log("registry/glue package does not compile and no program can be blamed:\n" + out[-3000:])
            return None
        for i in bad:
            lines = [l for l in out.splitlines() if re.search(r"\bq%d[a-z]\.|_q%d[a-z]_" % (i, i), l)]
            res["failed"].append((i, "generated-api-mismatch", "the Go API generated for this program does not match its IDL signatures (model-derived servant/proxy glue does not compile against it):\n" + "\n".join(lines[:12])))
            res["ok"].remove(i)
    log("registry/glue package still does not compile after removing blamed programs")
    return None


def save_program(prop, info, tmp, stage, output):
    """Stores a failing program (IDL files + diagnostic) as a replay artefact."""
    body = dict(property=prop, check="tars2go-pipeline", sig=stage, msg=output[-1500:], case=dict(program=info, idl={}))
    for f in info["files"]:
        try:
            body["case"]["idl"][f] = open(os.path.join(tmp, "idl", f)).read()
        except OSError:
            pass
    return body


def run(unit, prop, tier, seed, tmp, overlay, goenv, log, REPO):
    """Dispatch on unit['gen'] (a dict: kind=fw|programs, count=[quick, thorough], glue)."""
    g = unit["gen"]
    env = goenv()
    if g["kind"] == "fw":
        return True if gen_framework(REPO, tmp, overlay, env, log) else dict(infra="framework registry generation failed", stop=True)
    if g["kind"] == "programs":
        count = g.get("count", [6, 48])[0 if tier == "quick" else 1]
        t0 = time.time()
        if g.get("with_fw"):
            if not gen_framework(REPO, tmp, overlay, env, log):
                return dict(infra="framework registry generation failed", stop=True)
        res = gen_programs(REPO, tmp, overlay, env, log, seed, count, want_glue=g.get("glue", False), pkg=g.get("pkg", "regp"))
        if res is None:
            return dict(infra="program generation pipeline failed", stop=True)
        log("generated %d programs (%d ok, %d failed) in %.1fs" % (count, len(res["ok"]), len(res["failed"]), time.time() - t0))
        json.dump(dict(ok=res["ok"], failed=[(i, s) for i, s, _ in res["failed"]], times=res["times"]), open(os.path.join(tmp, "genresult.json"), "w"))
        if res["failed"]:
            fails = [save_program(prop, res["infos"][i], tmp, stage, out) for i, stage, out in res["failed"]]
            if g.get("failures_are_violations"):
                return dict(fails=fails, stop=not res["ok"])
            for i, stage, out in res["failed"]:
                log("program %d: %s\n%s" % (i, stage, out[-800:]))
            return dict(infra="tars2go pipeline failed for %d generated program(s) (decided by C16)" % len(res["failed"]), stop=not res["ok"])
        return True
    return dict(infra="unknown gen kind", stop=True)
