#!/usr/bin/env python3-vt
import json,jsonschema,glob,sys
jsonschema.validate(json.load(open('/verif/MANIFEST.json')),json.load(open('/root/.vp/MANIFEST.schema.json')))
es=json.load(open('/root/.vp/EVIDENCE.schema.json'))
for f in sorted(glob.glob('/verif/evidence/*.json')):
    jsonschema.validate(json.load(open(f)),es); print('ok',f)
ids=[json.loads(l)['id'] for l in open('/verif/properties.jsonl')]
m=json.load(open('/verif/MANIFEST.json'))
claimed={c['property_id'] for c in m['checks']}; na={c['property_id'] for c in m.get('not_applicable',[])}
print('unaccounted:',[i for i in ids if i not in claimed and i not in na])
