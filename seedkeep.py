#!/usr/bin/env python3
"""Confirms an independently produced breaking change and files it under /verif/seeded/.

  seedkeep.py <prop> [<name>]     reads /tmp/seed_out/<prop>/{patch.diff,demo/,meta.json}

Confirmation (all in a scratch worktree of /repo HEAD, removed afterwards):
  - the patch applies and the repository still builds (root module + tars2go)
  - the repository's own tests of the touched packages still pass with the patch
  - the demonstration passes WITHOUT the patch and fails WITH it
  - then runs ./check <prop> against the patched worktree and records the verdict
"""
import json, os, re, shutil, subprocess, sys, tempfile, time

ENV = dict(os.environ, GOFLAGS="-mod=mod", GOPROXY="off", GOSUMDB="off", GOTOOLCHAIN="local")


def sh(cmd, cwd=None, timeout=1800, env=None):
    r = subprocess.run(cmd, shell=True, cwd=cwd, env=env or ENV, stdout=subprocess.PIPE, stderr=subprocess.STDOUT, text=True, timeout=timeout)
    return r.returncode, r.stdout


def main():
    prop = sys.argv[1]
    name = sys.argv[2] if len(sys.argv) > 2 else prop
    checks = sys.argv[3].split(",") if len(sys.argv) > 3 else [prop]
    src = "/tmp/seed_out/%s" % name
    seedwt = "/tmp/seed_%s" % name
    wt = tempfile.mkdtemp(prefix="wt_keep_")
    os.rmdir(wt)
    rc, out = sh("git -C /repo worktree add -q %s HEAD" % wt)
    assert rc == 0, out
    res = {"confirmed_at_repo_commit": sh("git -C /repo rev-parse --short HEAD")[1].strip()}
    try:
        demo = tempfile.mkdtemp(prefix="demo_keep_")
        shutil.rmtree(demo)
        shutil.copytree(os.path.join(src, "demo"), demo)
        for d, _, fs in os.walk(demo):
            for f in fs:
                p = os.path.join(d, f)
                try:
                    t = open(p).read()
                except Exception:
                    continue
                srcdemo = os.path.join(src, "demo")
                if seedwt in t or srcdemo in t:
                    open(p, "w").write(t.replace(srcdemo, demo).replace(seedwt, wt))
        if os.path.exists(os.path.join(demo, "go.mod")):
            shutil.copy(os.path.join(wt, "go.sum"), os.path.join(demo, "go.sum"))
        inpkg = None
        if not os.path.exists(os.path.join(demo, "go.mod")):
            # in-package demonstration: *_test.go files are copied into the package they
            # declare (removed again afterwards) and run with go test -run on that package
            tests = [f for f in os.listdir(demo) if f.endswith("_test.go")]
            assert tests, "demo has neither go.mod nor *_test.go"
            pkgname = re.search(r"^package (\w+)", open(os.path.join(demo, tests[0])).read(), re.M).group(1)
            cands = {"tars": "tars", "transport": "tars/transport", "codec": "tars/protocol/codec", "rogger": "tars/util/rogger", "gpool": "tars/util/gpool", "conf": "tars/util/conf", "endpoint": "tars/util/endpoint"}
            inpkg = (cands[pkgname.replace("_test", "")], tests)

        def rundemo():
            if os.path.exists(os.path.join(demo, "run.sh")) and inpkg is None:
                return sh("REPO=%s sh ./run.sh" % wt, cwd=demo)
            if inpkg is None:
                has_tests = any(f.endswith("_test.go") for _, _, fs in os.walk(demo) for f in fs)
                if not has_tests and os.path.exists(os.path.join(demo, "main.go")):
                    return sh("go run .", cwd=demo)  # a program whose exit status is the verdict
                # a demo whose test generates further packages at run time (README says "." only)
                readme = os.path.join(demo, "README.txt")
                dot_only = os.path.exists(readme) and re.search(r"go test[^\n]* \.\s", open(readme).read()) and (os.path.isdir(os.path.join(demo, "probe")) or os.path.isdir(os.path.join(demo, "check")))
                if dot_only:
                    return sh("TARSGO_ROOT=%s go test -vet=off -count=1 ." % wt, cwd=demo)
                return sh("go test -vet=off -count=1 ./...", cwd=demo)
            d, tests = inpkg
            for f in tests:
                shutil.copy(os.path.join(demo, f), os.path.join(wt, d, f))
            try:
                names = []
                for f in tests:
                    names += re.findall(r"^func (Test\w+)\(", open(os.path.join(demo, f)).read(), re.M)
                tags = "-tags verif " if any("go:build verif" in open(os.path.join(demo, f)).read() for f in tests) else ""
                return sh("go test -vet=off -count=1 %s-run '^(%s)$' ./%s/" % (tags, "|".join(names), d), cwd=wt)
            finally:
                for f in tests:
                    os.remove(os.path.join(wt, d, f))
        # --- without the patch
        rc0, out0 = rundemo()
        res["demo_without_patch"] = "pass" if rc0 == 0 else "FAIL"
        # --- with the patch
        rc, out = sh("git apply %s/patch.diff" % src, cwd=wt)
        res["patch_applies"] = rc == 0
        assert rc == 0, out
        rc, out = sh("go build ./... && (cd tars/tools/tars2go && go build ./...)", cwd=wt)
        res["builds_with_patch"] = rc == 0
        touched = sh("git diff --name-only", cwd=wt)[1].split()
        pkgs = sorted({"./" + os.path.dirname(f) for f in touched if f.endswith(".go") and not f.startswith("tars/tools/")})
        pk = " ".join(pkgs + ["./tars/protocol/...", "./tars/util/conf/...", "./tars/util/endpoint/...", "./tars/util/gpool/...", "./tars/selector/roundrobin/...", "./tars/"])
        rc, out = sh("go test -vet=off -count=1 %s 2>&1 | grep -v 'no test files' | tail -30" % pk, cwd=wt)
        fails = [l for l in out.splitlines() if l.startswith("FAIL") or l.startswith("--- FAIL")]
        # the baseline's always-failing consistenthash subtest is not ours to count
        fails = [l for l in fails if "consistenthash" not in l and "TestKetamaHashAlg_Hash" not in l and l.strip() != "FAIL"]
        res["existing_tests_with_patch"] = "pass" if not fails else "FAIL: " + "; ".join(fails)
        rc1, out1 = rundemo()
        res["demo_with_patch"] = "fail" if rc1 != 0 else "PASSES(!)"
        res["demo_output_with_patch_tail"] = out1[-1500:]
        # --- our checks against the patched tree
        res["checks"] = {}
        for c in checks:
            t0 = time.time()
            env = dict(os.environ, VERIF_REPO=wt)
            r = subprocess.run(["./check", c], cwd="/verif", env=env, stdout=subprocess.PIPE, stderr=subprocess.STDOUT, text=True)
            lines = [l for l in r.stdout.splitlines() if re.search(r"failure\[|VIOLATION|^OK|INFRA", l)]
            res["checks"][c] = {"exit": r.returncode, "wall_s": round(time.time() - t0, 1), "lines": [l[:400] for l in lines[:6]]}
        shutil.rmtree(demo, ignore_errors=True)
    finally:
        sh("git -C /repo worktree remove --force %s" % wt)
        shutil.rmtree("/tmp/verif_mut_replays", ignore_errors=True)
        shutil.rmtree("/tmp/verif_mut_evidence", ignore_errors=True)
    ok = res.get("patch_applies") and res.get("builds_with_patch") and res.get("existing_tests_with_patch") == "pass" and res.get("demo_without_patch") == "pass" and res.get("demo_with_patch") == "fail"
    res["kept"] = bool(ok)
    print(json.dumps(res, indent=1)[:3000])
    if not ok:
        print("NOT KEPT")
        return 1
    dst = "/verif/seeded/%s" % name
    shutil.rmtree(dst, ignore_errors=True)
    os.makedirs(dst)
    shutil.copy(os.path.join(src, "patch.diff"), dst)
    shutil.copytree(os.path.join(src, "demo"), os.path.join(dst, "demo"))
    for junk in ("go.sum",):
        p = os.path.join(dst, "demo", junk)
        if os.path.exists(p):
            os.remove(p)
    meta = {}
    try:
        meta = json.load(open(os.path.join(src, "meta.json")))
    except Exception:
        pass
    meta_out = {"property": prop, "breaks": meta.get("summary", ""), "needs_to_manifest": meta.get("needs", ""),
                "files_touched": meta.get("files_touched", []), "author": "independent sub-agent given only the property text and a scratch worktree",
                "confirmation": res,
                "how_to_run": "git -C /repo apply /verif/seeded/%s/patch.diff && (cd /verif && ./check %s); git -C /repo checkout -- .   (demo: see demo/README.txt; its go.mod replace path must point at the patched tree)" % (name, prop)}
    json.dump(meta_out, open(os.path.join(dst, "meta.json"), "w"), indent=1)
    print("KEPT", dst)
    return 0


if __name__ == "__main__":
    sys.exit(main())
