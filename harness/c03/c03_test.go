// C03 over the framework's checked-in protocol bindings (tars/protocol/res/*); schema read
// from the .tars files by the independent mini reader (idlgen.ReadTars).
package c03

import (
	"testing"

	"verif/harness/codecprops"
	"verif/harness/gen/regfw"
	"verif/harness/stat"
)

var st = stat.New("C03", codecprops.C03Rule,
	"schema of the framework structs is read from tars/protocol/res/*.tars by harness/idlgen (independent of tars2go); schema of generated programs is the generator's own model",
	"reference encoder/strict decoder in harness/refcodec are the wire-format oracle",
	"optional float members numerically equal to their default (e.g. -0 with default 0) are normalised to the default before comparison: the format omits them by design")

func TestC03(t *testing.T) {
	defer st.Emit()
	r, err := codecprops.Load("framework", regfw.SchemaJSON, regfw.New)
	if err != nil {
		t.Fatalf("VERIF-INFRA registry: %v", err)
	}
	st.Extra("framework_structs", len(r.Keys))
	r.RunC03(t, st, 4000, 250000)
}
