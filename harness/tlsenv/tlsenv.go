// Package tlsenv gives a test process what ssl endpoints need: a throw-away CA/server
// certificate for the loopback addresses and a TarsGo configuration file whose
// /tars/application/client<ca> names it (the documented way of enabling ssl endpoints on
// the client side). Setup must run before the process creates its first communicator.
package tlsenv

import (
	"crypto/ecdsa"
	"crypto/elliptic"
	"crypto/rand"
	"crypto/tls"
	"crypto/x509"
	"crypto/x509/pkix"
	"encoding/pem"
	"fmt"
	"math/big"
	"net"
	"os"
	"path/filepath"
	"time"

	"github.com/TarsCloud/TarsGo/tars"
)

// Setup writes the certificate and the configuration file into a fresh temporary directory,
// points tars.ServerConfigPath at it and returns the server side's TLS configuration and a
// cleanup function.
func Setup(name string) (*tls.Config, func(), error) {
	// inside the driver's per-run scratch directory when there is one (the driver removes it
	// whatever way the test process ends)
	dir, err := os.MkdirTemp(os.Getenv("VERIF_TMP"), "verif-tls-"+name)
	if err != nil {
		return nil, nil, err
	}
	key, err := ecdsa.GenerateKey(elliptic.P256(), rand.Reader)
	if err != nil {
		return nil, nil, err
	}
	tmpl := &x509.Certificate{
		SerialNumber:          big.NewInt(1),
		Subject:               pkix.Name{CommonName: "verif-" + name},
		NotBefore:             time.Now().Add(-time.Hour),
		NotAfter:              time.Now().Add(72 * time.Hour),
		KeyUsage:              x509.KeyUsageDigitalSignature | x509.KeyUsageCertSign,
		ExtKeyUsage:           []x509.ExtKeyUsage{x509.ExtKeyUsageServerAuth},
		BasicConstraintsValid: true,
		IsCA:                  true,
		IPAddresses:           []net.IP{net.ParseIP("127.0.0.1"), net.ParseIP("::1")},
	}
	der, err := x509.CreateCertificate(rand.Reader, tmpl, tmpl, &key.PublicKey, key)
	if err != nil {
		return nil, nil, err
	}
	caPath := filepath.Join(dir, "ca.pem")
	if err = os.WriteFile(caPath, pem.EncodeToMemory(&pem.Block{Type: "CERTIFICATE", Bytes: der}), 0600); err != nil {
		return nil, nil, err
	}
	cfg := fmt.Sprintf("<tars>\n<application>\n<client>\nca=%s\n</client>\n<server>\napp=Verif\nserver=%s\nlogLevel=ERROR\n</server>\n</application>\n</tars>\n", caPath, name)
	cfgPath := filepath.Join(dir, "client.conf")
	if err = os.WriteFile(cfgPath, []byte(cfg), 0600); err != nil {
		return nil, nil, err
	}
	tars.ServerConfigPath = cfgPath
	srv := &tls.Config{Certificates: []tls.Certificate{{Certificate: [][]byte{der}, PrivateKey: key}}}
	return srv, func() { _ = os.RemoveAll(dir) }, nil
}
