// C04 over freshly generated IDL programs.
package c04p

import (
	"testing"

	"verif/harness/codecprops"
	"verif/harness/gen/regp"
	"verif/harness/stat"
)

var st = stat.New("C04", codecprops.C04Rule)

func TestC04P(t *testing.T) {
	defer st.Emit()
	r, err := codecprops.Load("programs", regp.SchemaJSON, regp.New)
	if err != nil {
		t.Fatalf("VERIF-INFRA registry: %v", err)
	}
	r.RunC04(t, st, 16000, 1200000)
}
