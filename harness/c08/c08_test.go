// C08 — responses are delivered to the caller of the matching request id.
//
// A real ServantProxy (1..3 proxies, i.e. connections, to one scripted server) issues
// 1..48 concurrent calls; the scripted server answers according to a generated per-caller
// plan: own reply after a delay, duplicates, replies carrying the id of ANOTHER in-flight
// call, id 0, ids nobody waits for, replies marked one-way, late replies, silence. The
// oracle is id-based (the peer may lie about payloads): every reply carries a unique
// serial and the server logs the id field it was sent with.
package c08

import (
	"context"
	"encoding/binary"
	"encoding/json"
	"fmt"
	"math"
	"os"
	"strings"
	"sync"
	"sync/atomic"
	"testing"
	"time"

	"github.com/TarsCloud/TarsGo/tars"
	"github.com/TarsCloud/TarsGo/tars/protocol/res/requestf"
	"github.com/TarsCloud/TarsGo/tars/util/rogger"
	"pgregory.net/rapid"

	"verif/harness/peer"
	"verif/harness/rpcprops"
	"verif/harness/stat"
)

var st = stat.New("C08",
	"Case = {1..3 proxy objects to one scripted server - either for distinct servant names (separate connections) or all for the same name (as repeated StringToProxy calls: one shared adapter and connection), 1..48 calls issued by 1..48 worker goroutines (64..96 calls by 8..16 workers on one proxy when the client admits only 3 calls in flight) (a worker issues its calls sequentially, workers run concurrently) each call (a sixth of them one-way: ids from the same sequence, nothing awaited, the reply plan still played against the id) with a unique payload token and a context deadline of 250 or 400 ms (a fifth of the calls: a context without deadline that is cancelled after that time), the process-wide request id counter preset (random, near MaxInt32, near 0 from below), in a fifth of the cases the client admits only 3 calls in flight per proxy (objqueuemax) so that further calls are refused after their id was drawn, in a third of the cases the proxies reach the server through a byte-exact relay that ends TCP segments 1..40 bytes after a packet boundary (one read returns complete replies plus the beginning of the next), in a quarter of the cases the calls are started one at a time with the id counter advanced so that the ids in flight are 2^8..2^24 apart (congruent modulo the smaller powers of two), in a third of the cases keep-alive pings (one-way tars_ping, ids from the same sequence) sent on the same connections every 2..25 ms while the calls run, per caller a reply plan: 0..3 acts from {own reply, duplicate, reply with the id of another caller, id 0, unknown id, own id marked one-way} with delays 0..40 ms or late (after the deadline), or silence}. Oracle (history invariant over the server log): a caller returns either an error or a response whose serial was sent with id field == the id of its own request and packet type normal; request ids on the wire are never 0 and pairwise distinct within the batch; a caller for whom a correctly addressed reply was written on its connection after its request had arrived and at least 150 ms before its deadline must succeed (a packet that happens to carry the id of a request not yet sent - possible for the scripted unknown-id replies when ids are a power of two apart - is not a reply to it). Non-trivial = >=4 calls in flight and >=1 duplicate or foreign-id reply and replies not in request order. Distinct = distinct case JSON.",
	"the scripted server's log is the ground truth; replies may legitimately carry foreign payloads, so payloads are never compared",
	"schedules are sampled through generated delays, not enumerated; id uniqueness across a full 2^31 wrap is out of reach")

func init() { rogger.SetLevel(rogger.OFF) }

type Act struct {
	DelayMs int    `json:"delay_ms"`
	Kind    string `json:"kind"` // own | dup | foreign | zero | unknown | oneway-own
	Target  int    `json:"target,omitempty"`
}

// Caller is one call. Calls with the same Worker value are issued sequentially by one
// goroutine (in slice order); different workers run concurrently.
type Caller struct {
	Worker    int   `json:"worker"`
	Proxy     int   `json:"proxy"`
	TimeoutMs int   `json:"timeout_ms"`
	Acts      []Act `json:"acts"`
	// Cancel: the caller's context has no deadline; it is cancelled after TimeoutMs instead
	Cancel bool `json:"cancel,omitempty"`
	// OneWay: the request is issued as a one-way call (no reply awaited); its id comes from
	// the same sequence and the peer's reply plan is still played against that id
	OneWay bool `json:"oneway,omitempty"`
}

type Case struct {
	// SharedName: all proxy objects are created for the SAME servant name (as repeated
	// StringToProxy calls do), so they share one endpoint manager, adapter and connection
	SharedName bool     `json:"shared_name,omitempty"`
	NProxies   int      `json:"n_proxies"`
	IDBase     int32    `json:"id_base"`
	Callers    []Caller `json:"callers"`
	// KeepAliveMs > 0: while the calls run, keep-alive pings (one-way tars_ping requests,
	// which take their ids from the same sequence) are sent on the proxies' connections
	// every that many milliseconds
	KeepAliveMs int `json:"keepalive_ms,omitempty"`
	// Stride > 0: the calls are started one at a time (the next one once the server has seen
	// the previous request) and the id counter is advanced by Stride-1 before each, so that
	// the ids of the calls in flight are Stride apart - congruent modulo every power of two
	// up to Stride
	Stride int32 `json:"stride,omitempty"`
	// RelayCut k > 0: the proxies reach the server through a byte-exact relay that ends TCP
	// segments k bytes after a packet boundary, so that one read of the client returns
	// complete replies followed by the first k bytes of the next one
	RelayCut int `json:"relay_cut,omitempty"`
	// SmallObjQueue: the client admits only 3 calls in flight per proxy (objqueuemax); the
	// calls beyond that are refused with an error, after their request id has been drawn
	SmallObjQueue bool `json:"small_obj_queue,omitempty"`
}

func draw(rt *rapid.T) Case {
	c := Case{NProxies: rapid.IntRange(1, 3).Draw(rt, "nproxies")}
	c.SharedName = c.NProxies > 1 && rapid.Bool().Draw(rt, "sharedName")
	c.IDBase = rapid.OneOf(rapid.Int32(), rapid.Int32Range(math.MaxInt32-60, math.MaxInt32), rapid.Int32Range(-60, 2), rapid.Int32Range(math.MinInt32, math.MinInt32+60)).Draw(rt, "idBase")
	if rapid.IntRange(0, 2).Draw(rt, "keepalive") == 0 {
		c.KeepAliveMs = rapid.SampledFrom([]int{2, 7, 25}).Draw(rt, "keepaliveMs")
	}
	c.SmallObjQueue = rapid.IntRange(0, 4).Draw(rt, "smallObjQueue") == 0
	if rapid.IntRange(0, 2).Draw(rt, "relayed") == 0 {
		c.RelayCut = rapid.SampledFrom([]int{1, 3, 4, 5, 9, 10, 12, 15, 20, 40}).Draw(rt, "relayCut")
	}
	if rapid.IntRange(0, 3).Draw(rt, "strided") == 0 {
		c.Stride = 1 << rapid.SampledFrom([]uint{8, 10, 12, 14, 16, 20, 24}).Draw(rt, "strideLog")
	}
	n := rapid.OneOf(rapid.IntRange(1, 8), rapid.IntRange(4, 48)).Draw(rt, "ncallers")
	// workers: some issue a single call, some a sequence of calls on the same proxy
	nw := rapid.IntRange(1, n).Draw(rt, "nworkers")
	if c.SmallObjQueue {
		// many more concurrent callers than the client admits, each issuing several calls in
		// sequence (the later ones draw their ids while earlier calls are still outstanding)
		n = rapid.IntRange(64, 96).Draw(rt, "ncallersSmallQueue")
		nw = rapid.IntRange(8, 16).Draw(rt, "nworkersSmallQueue")
		c.NProxies, c.SharedName = 1, false
	}
	workerProxy := make([]int, nw)
	for w := range workerProxy {
		workerProxy[w] = rapid.IntRange(0, c.NProxies-1).Draw(rt, "proxy")
	}
	for i := 0; i < n; i++ {
		w := i
		if i >= nw {
			w = rapid.IntRange(0, nw-1).Draw(rt, "worker")
		}
		cl := Caller{Worker: w, Proxy: workerProxy[w], TimeoutMs: rapid.SampledFrom([]int{250, 400}).Draw(rt, "timeout")}
		cl.Cancel = rapid.IntRange(0, 4).Draw(rt, "cancel") == 0
		cl.OneWay = rapid.IntRange(0, 5).Draw(rt, "oneway") == 0
		na := rapid.SampledFrom([]int{0, 1, 1, 1, 1, 2, 2, 2, 3}).Draw(rt, "nacts")
		for a := 0; a < na; a++ {
			act := Act{Kind: rapid.SampledFrom([]string{"own", "own", "own", "dup", "dup", "foreign", "foreign", "zero", "unknown", "oneway-own"}).Draw(rt, "kind")}
			act.DelayMs = rapid.IntRange(0, 40).Draw(rt, "delay")
			if rapid.IntRange(0, 11).Draw(rt, "late") == 0 {
				act.DelayMs = cl.TimeoutMs + rapid.IntRange(20, 120).Draw(rt, "lateBy")
			}
			if a > 0 && rapid.Bool().Draw(rt, "immediately") {
				act.DelayMs = cl.Acts[a-1].DelayMs // back to back with the previous act
			}
			if act.Kind == "foreign" {
				act.Target = rapid.IntRange(0, n-1).Draw(rt, "target")
			}
			cl.Acts = append(cl.Acts, act)
		}
		c.Callers = append(c.Callers, cl)
	}
	return c
}

var (
	srvOnce   sync.Once
	srv       *peer.Server
	comm      *tars.Communicator
	commSmall *tars.Communicator // objqueuemax 3
	relay     *rpcprops.Relay
	objSeq    int64
)

func setup(t *testing.T) {
	srvOnce.Do(func() {
		var err error
		srv, err = peer.Listen("127.0.0.1")
		if err != nil {
			t.Fatalf("VERIF-INFRA listen: %v", err)
		}
		comm = tars.NewCommunicator()
		commSmall = tars.NewCommunicator()
		small := *commSmall.Client
		small.ObjQueueMax = 3
		commSmall.Client = &small
		relay, err = rpcprops.StartRelay(srv.Addr)
		if err != nil {
			t.Fatalf("VERIF-INFRA relay: %v", err)
		}
	})
}

type result struct {
	err    error
	serial int64
	has    bool
	start  time.Time
	end    time.Time
}

func run(c Case) *stat.Failure {
	srv.ResetLog()
	var mu sync.Mutex
	idOf := map[int]int32{}     // caller -> request id
	connOf := map[int]int{}     // caller -> server connection
	atOf := map[int]time.Time{} // caller -> moment its request arrived at the server
	srv.Handler = func(s *peer.Server, r *peer.Req) {
		if len(r.Buffer) < 4 {
			return
		}
		tok := int(binary.BigEndian.Uint32(r.Buffer))
		if tok < 0 || tok >= len(c.Callers) {
			return
		}
		mu.Lock()
		idOf[tok] = r.ID
		connOf[tok] = r.Conn
		atOf[tok] = r.At
		mu.Unlock()
		acts := c.Callers[tok].Acts
		go func() {
			t0 := time.Now()
			for _, a := range acts {
				if d := time.Duration(a.DelayMs)*time.Millisecond - time.Since(t0); d > 0 {
					time.Sleep(d)
				}
				switch a.Kind {
				case "own", "dup":
					s.Reply(r.Conn, r.Version, r.ID, 0, "", a.Kind, 0)
				case "oneway-own":
					s.Reply(r.Conn, r.Version, r.ID, 0, "", a.Kind, 1)
				case "zero":
					s.Reply(r.Conn, r.Version, 0, 0, "not-a-reconnect", a.Kind, 0)
				case "unknown":
					s.Reply(r.Conn, r.Version, r.ID^0x20000000, 0, "", a.Kind, 0)
				case "foreign":
					mu.Lock()
					fid, ok := idOf[a.Target]
					mu.Unlock()
					if ok && a.Target != tok {
						s.Reply(r.Conn, r.Version, fid, 0, "", a.Kind, 0)
					}
				}
			}
		}()
	}
	var issueMu sync.Mutex // strided cases: one call is started at a time
	seenTok := func(tok int) bool {
		mu.Lock()
		defer mu.Unlock()
		_, ok := idOf[tok]
		return ok
	}
	proxies := make([]*tars.ServantProxy, c.NProxies)
	port := srv.Port
	if c.RelayCut > 0 {
		relay.SetPlan(rpcprops.RelayPlan{Cut: c.RelayCut, HoldUs: 2000})
		port = relay.Port()
	}
	shared := fmt.Sprintf("Verif.C08.Obj%d@tcp -h 127.0.0.1 -p %d -t 60000", atomic.AddInt64(&objSeq, 1), port)
	for i := range proxies {
		obj := shared
		if !c.SharedName {
			obj = fmt.Sprintf("Verif.C08.Obj%d@tcp -h 127.0.0.1 -p %d -t 60000", atomic.AddInt64(&objSeq, 1), port)
		}
		proxies[i] = tars.NewServantProxy(comm, obj)
		if c.SmallObjQueue {
			proxies[i] = tars.NewServantProxy(commSmall, obj)
		}
	}
	presetMsgID(c.IDBase)
	results := make([]result, len(c.Callers))
	var wg sync.WaitGroup
	maxLate := 0
	byWorker := map[int][]int{}
	for i, cl := range c.Callers {
		for _, a := range cl.Acts {
			if a.DelayMs > maxLate {
				maxLate = a.DelayMs
			}
		}
		byWorker[cl.Worker] = append(byWorker[cl.Worker], i)
	}
	for _, idxs := range byWorker {
		wg.Add(1)
		go func(idxs []int) {
			defer wg.Done()
			for _, i := range idxs {
				cl := c.Callers[i]
				buf := make([]byte, 4)
				binary.BigEndian.PutUint32(buf, uint32(i))
				var ctx context.Context
				var cancel context.CancelFunc
				if cl.Cancel {
					ctx, cancel = context.WithCancel(context.Background())
					tm := time.AfterFunc(time.Duration(cl.TimeoutMs)*time.Millisecond, cancel)
					defer tm.Stop()
				} else {
					ctx, cancel = context.WithTimeout(context.Background(), time.Duration(cl.TimeoutMs)*time.Millisecond)
				}
				resp := &requestf.ResponsePacket{}
				r := result{start: time.Now()}
				var cType byte
				if cl.OneWay {
					cType = 1 // basef.TARSONEWAY
				}
				if c.Stride > 0 {
					issueMu.Lock()
					bumpMsgID(c.Stride - 1)
					go func(tok int) {
						// the next call starts once the server has seen this one's request
						dl := time.Now().Add(100 * time.Millisecond)
						for !seenTok(tok) && time.Now().Before(dl) {
							time.Sleep(100 * time.Microsecond)
						}
						issueMu.Unlock()
					}(i)
				}
				r.err = proxies[cl.Proxy].TarsInvoke(ctx, cType, "echo", buf, nil, nil, resp)
				r.end = time.Now()
				cancel()
				if r.err == nil {
					r.serial, r.has = peer.SerialOf(resp.SBuffer)
				}
				results[i] = r
			}
		}(idxs)
	}
	done := make(chan struct{})
	go func() { wg.Wait(); close(done) }()
	if c.KeepAliveMs > 0 {
		go func() {
			for {
				select {
				case <-done:
					return
				case <-time.After(time.Duration(c.KeepAliveMs) * time.Millisecond):
				}
				for _, p := range proxies {
					p.VerifKeepAlive()
				}
			}
		}()
	}
	select {
	case <-done:
	case <-time.After(60 * time.Second):
		return stat.Failf("call-never-returned", "calls did not return within 60 s (deadlines are <= 400 ms, at most 48 sequential calls)")
	}
	// let late replies arrive and be discarded
	var latest time.Time
	for _, r := range results {
		if r.start.After(latest) {
			latest = r.start
		}
	}
	if d := time.Duration(maxLate+60)*time.Millisecond - time.Since(latest); d > 0 {
		time.Sleep(d)
	}
	reqs, sent, _ := srv.Snapshot()
	srv.CloseAllConns() // fresh connections for the next case
	refused := 0
	for _, r := range results {
		if r.err != nil && strings.Contains(r.err.Error(), "invoke queue is full") {
			refused++
		}
	}
	if refused > 0 {
		st.Class("calls-refused-invoke-queue-full", int64(refused))
	}
	if os.Getenv("VERIF_C08_DEBUG") != "" {
		fmt.Printf("DEBUG refused=%d reqs=%d\n", refused, len(reqs))
	}

	// ids on the wire: never 0, pairwise distinct
	seen := map[int32]bool{}
	for _, r := range reqs {
		if r.ID == 0 {
			return stat.Failf("request-id-zero", "a request was sent with id 0 (reserved for server push); counter preset %d", c.IDBase)
		}
		if seen[r.ID] {
			return stat.Failf("request-id-reused", "two concurrently outstanding calls share request id %d (counter preset %d)", r.ID, c.IDBase)
		}
		seen[r.ID] = true
	}
	bySerial := map[int64]peer.Sent{}
	for _, s := range sent {
		if s.Serial != 0 {
			bySerial[s.Serial] = s
		}
	}
	for i, r := range results {
		id, arrived := idOf[i]
		if c.Callers[i].OneWay {
			continue // nothing is delivered to a one-way caller; its id is checked above
		}
		if r.err == nil {
			if !r.has {
				return stat.Failf("misdelivered", "caller %d succeeded with a response that carries no serial", i)
			}
			s, ok := bySerial[r.serial]
			if !ok {
				return stat.Failf("misdelivered", "caller %d received a response (serial %d) the server never sent", i, r.serial)
			}
			if !arrived || s.ID != id || s.Kind == "oneway-own" {
				return stat.Failf("misdelivered", "caller %d (request id %d) received the response with serial %d which was addressed to id %d (kind %s)", i, id, r.serial, s.ID, s.Kind)
			}
			continue
		}
		// error / timeout: it must not have been entitled to a timely reply
		if !arrived {
			continue
		}
		deadline := r.start.Add(time.Duration(c.Callers[i].TimeoutMs) * time.Millisecond)
		for _, s := range sent {
			if s.Serial != 0 && s.ID == id && s.Kind != "oneway-own" && s.Err == nil && s.Conn == connOf[i] && !s.At.Before(atOf[i]) && s.At.Before(deadline.Add(-150*time.Millisecond)) {
				return stat.Failf("lost-delivery", "caller %d (request id %d) failed with %q although a correctly addressed reply (serial %d, kind %s) was written on its connection %v before its deadline", i, id, r.err, s.Serial, s.Kind, deadline.Sub(s.At).Round(time.Millisecond))
			}
		}
	}
	return nil
}

func nontrivial(c Case) bool {
	if len(c.Callers) < 4 {
		return false
	}
	dupOrForeign, delays := false, map[int]bool{}
	for _, cl := range c.Callers {
		for _, a := range cl.Acts {
			if a.Kind == "dup" || a.Kind == "foreign" {
				dupOrForeign = true
			}
			delays[a.DelayMs] = true
		}
	}
	return dupOrForeign && len(delays) >= 3
}

func TestC08(t *testing.T) {
	defer st.Emit()
	setup(t)
	defer slowFail(t)
	if o := os.Getenv("VERIF_ONLY"); (o == "" || o == "idgen") && (stat.ReplayPath() == "" || strings.Contains(replayCheckName(), "idgen")) {
		idgenCheck(t)
	}
	stat.Check(t, st, "delivery", stat.N(45, 1400), draw, func(c Case) *stat.Failure {
		cls := []string{fmt.Sprintf("proxies-%d", c.NProxies)}
		if c.SharedName {
			cls = append(cls, "proxies-share-one-servant-name")
		}
		if !msgIDPreset {
			cls = append(cls, "built-without-msgid-accessor")
		}
		kinds := map[string]bool{}
		for _, cl := range c.Callers {
			if len(cl.Acts) == 0 {
				kinds["silent"] = true
			}
			for _, a := range cl.Acts {
				kinds[a.Kind] = true
				if a.DelayMs > cl.TimeoutMs {
					kinds["late"] = true
				}
			}
		}
		for k := range kinds {
			cls = append(cls, "has-"+k)
		}
		if c.IDBase > math.MaxInt32-64 || (c.IDBase <= 2 && c.IDBase >= -64) {
			cls = append(cls, "id-counter-near-wrap")
		}
		if c.KeepAliveMs > 0 {
			cls = append(cls, "keep-alive-pings")
		}
		if c.RelayCut > 0 {
			cls = append(cls, "replies-resegmented-by-relay")
		}
		if c.SmallObjQueue {
			cls = append(cls, "calls-refused-by-objqueuemax")
		}
		if c.Stride > 0 {
			cls = append(cls, "ids-a-power-of-two-apart")
		}
		for _, cl := range c.Callers {
			if cl.OneWay {
				cls = append(cls, "has-oneway-call")
				break
			}
		}
		st.CaseJSON(c, nontrivial(c), cls...)
		st.Class("calls", int64(len(c.Callers)))
		f := run(c)
		if f != nil && f.Sig == "lost-delivery" {
			// the only rule that depends on the client being scheduled in time (150 ms between
			// the server's write and the caller's deadline): it must reproduce twice more
			for i := 0; i < 2; i++ {
				time.Sleep(200 * time.Millisecond)
				g := run(c)
				if g == nil {
					st.Inconclusive()
					return nil
				}
				if g.Sig != "lost-delivery" {
					return g
				}
			}
		}
		return f
	})
}

// replayCheckName is the "check" field of the replay file (empty when not replaying).
func replayCheckName() string {
	b, err := os.ReadFile(stat.ReplayPath())
	if err != nil {
		return ""
	}
	var v struct {
		Check string `json:"check"`
	}
	_ = json.Unmarshal(b, &v)
	return v.Check
}
