package c08

// A send that fails slowly while other calls draw their ids: one proxy calls an endpoint
// whose connection attempt neither succeeds nor is refused (a listening socket with a full
// accept queue: the SYN is dropped) and gives up after the client dial timeout; while that
// call is held up, calls to a healthy scripted server are started and are still waiting for
// their replies (the server delays them) when it fails; further calls to the healthy server
// are started right afterwards. Request ids come from one process-wide sequence: whatever
// the failed call does with its id, the ids of the requests that are in flight on a
// connection at the same time are pairwise distinct, and every caller gets the reply that was
// written for its own request (the reply's serial is mapped back to the request through the
// server log).

import (
	"context"
	"encoding/binary"
	"fmt"
	"net"
	"sync"
	"sync/atomic"
	"syscall"
	"testing"
	"time"

	"github.com/TarsCloud/TarsGo/tars"
	"github.com/TarsCloud/TarsGo/tars/protocol/res/requestf"
	"pgregory.net/rapid"

	"verif/harness/peer"
	"verif/harness/stat"
)

type SlowFailCase struct {
	DialTimeoutMs int `json:"dial_timeout_ms"`
	// Before: calls to the healthy server started while the failing call is held up
	// (ms after its start); After: calls started that long after it has failed
	Before       []int `json:"before_ms"`
	After        []int `json:"after_ms"`
	ReplyDelayMs int   `json:"reply_delay_ms"` // the server's delay for the Before calls
	Failing      int   `json:"failing_calls"`  // calls to the unreachable endpoint, started together
}

func drawSlowFail(rt *rapid.T) SlowFailCase {
	c := SlowFailCase{DialTimeoutMs: rapid.SampledFrom([]int{120, 200}).Draw(rt, "dialTimeout"), Failing: rapid.IntRange(1, 3).Draw(rt, "failing")}
	for i, n := 0, rapid.IntRange(1, 4).Draw(rt, "nbefore"); i < n; i++ {
		c.Before = append(c.Before, rapid.IntRange(10, c.DialTimeoutMs-60).Draw(rt, "before"))
	}
	for i, n := 0, rapid.IntRange(1, 4).Draw(rt, "nafter"); i < n; i++ {
		c.After = append(c.After, rapid.SampledFrom([]int{0, 1, 5, 20}).Draw(rt, "after"))
	}
	c.ReplyDelayMs = c.DialTimeoutMs + rapid.SampledFrom([]int{150, 250}).Draw(rt, "replyDelay")
	return c
}

// blackhole returns the port of a listening socket whose accept queue is full.
func blackhole() (port int, cleanup func(), err error) {
	fd, err := syscall.Socket(syscall.AF_INET, syscall.SOCK_STREAM, 0)
	if err != nil {
		return 0, nil, err
	}
	if err = syscall.Bind(fd, &syscall.SockaddrInet4{Addr: [4]byte{127, 0, 0, 1}}); err == nil {
		err = syscall.Listen(fd, 0)
	}
	if err != nil {
		syscall.Close(fd)
		return 0, nil, err
	}
	sa, _ := syscall.Getsockname(fd)
	port = sa.(*syscall.SockaddrInet4).Port
	var mu sync.Mutex
	var fill []net.Conn
	// fill the accept queue; the attempts that do not fit time out
	var wg sync.WaitGroup
	for i := 0; i < 4; i++ {
		wg.Add(1)
		go func() {
			defer wg.Done()
			if cn, err := net.DialTimeout("tcp", fmt.Sprintf("127.0.0.1:%d", port), 150*time.Millisecond); err == nil {
				mu.Lock()
				fill = append(fill, cn)
				mu.Unlock()
			}
		}()
	}
	wg.Wait()
	cleanup = func() {
		for _, cn := range fill {
			cn.Close()
		}
		syscall.Close(fd)
	}
	// the queue must be full now
	if cn, err := net.DialTimeout("tcp", fmt.Sprintf("127.0.0.1:%d", port), 100*time.Millisecond); err == nil {
		cn.Close()
		cleanup()
		return 0, nil, fmt.Errorf("accept queue of the blackhole socket did not fill")
	}
	return port, cleanup, nil
}

var slowFailSeq int64

func runSlowFail(c SlowFailCase) *stat.Failure {
	port, cleanup, err := blackhole()
	if err != nil {
		st.Class("slow-fail-blackhole-unavailable", 1)
		return nil
	}
	defer cleanup()
	srv, err := peer.Listen("127.0.0.1")
	if err != nil {
		return stat.Failf("harness-failure", "listen: %v", err)
	}
	defer srv.Shutdown()
	var slowTok sync.Map // tokens whose reply the server delays
	delay := time.Duration(c.ReplyDelayMs) * time.Millisecond
	srv.Handler = func(s *peer.Server, r *peer.Req) {
		if len(r.Buffer) >= 4 {
			if _, slow := slowTok.Load(binary.BigEndian.Uint32(r.Buffer)); slow {
				time.AfterFunc(delay, func() { s.Reply(r.Conn, r.Version, r.ID, 0, "", "own", 0) })
				return
			}
		}
		s.Reply(r.Conn, r.Version, r.ID, 0, "", "own", 0)
	}
	cmBad := tars.NewCommunicator()
	cmBad.Client.ClientDialTimeout = time.Duration(c.DialTimeoutMs) * time.Millisecond
	cmGood := tars.NewCommunicator()
	n := atomic.AddInt64(&slowFailSeq, 1)
	bad := tars.NewServantProxy(cmBad, fmt.Sprintf("Verif.C08.Hole%d@tcp -h 127.0.0.1 -p %d -t 60000", n, port))
	good := tars.NewServantProxy(cmGood, fmt.Sprintf("Verif.C08.Slow%d@tcp -h 127.0.0.1 -p %d -t 60000", n, srv.Port))
	defer func() {
		for _, sp := range []*tars.ServantProxy{bad, good} {
			for _, a := range sp.VerifAdapters() {
				a.Close()
			}
		}
	}()
	type res struct {
		tok    uint32
		err    error
		serial int64
		has    bool
	}
	var tokSeq uint32
	call := func(sp *tars.ServantProxy, slow bool, timeout time.Duration) res {
		tok := atomic.AddUint32(&tokSeq, 1)
		if slow {
			slowTok.Store(tok, true)
		}
		buf := make([]byte, 4)
		binary.BigEndian.PutUint32(buf, tok)
		ctx, cancel := context.WithTimeout(context.Background(), timeout)
		defer cancel()
		resp := &requestf.ResponsePacket{}
		err := sp.TarsInvoke(ctx, 0, "echo", buf, nil, nil, resp)
		r := res{tok: tok, err: err}
		if err == nil {
			r.serial, r.has = peer.SerialOf(resp.SBuffer)
		}
		return r
	}
	// connection to the healthy server first
	if r := call(good, false, time.Second); r.err != nil {
		return stat.Failf("harness-failure", "slow-fail warm-up call: %v", r.err)
	}
	var wg sync.WaitGroup
	var mu sync.Mutex
	var results []res
	collect := func(r res) { mu.Lock(); results = append(results, r); mu.Unlock() }
	t0 := time.Now()
	failed := make(chan time.Duration, c.Failing)
	for i := 0; i < c.Failing; i++ {
		wg.Add(1)
		go func() {
			defer wg.Done()
			r := call(bad, false, 1500*time.Millisecond)
			if r.err == nil {
				collect(res{tok: r.tok, err: fmt.Errorf("phantom")})
			}
			failed <- time.Since(t0)
		}()
	}
	for _, ms := range c.Before {
		wg.Add(1)
		go func(ms int) {
			defer wg.Done()
			time.Sleep(time.Duration(ms) * time.Millisecond)
			collect(call(good, true, delay+800*time.Millisecond))
		}(ms)
	}
	var heldFor time.Duration
	for i := 0; i < c.Failing; i++ {
		heldFor = <-failed
	}
	if heldFor < time.Duration(c.DialTimeoutMs-20)*time.Millisecond {
		// the connection attempt was refused at once: the history was not produced
		st.Class("slow-fail-not-held-up", 1)
	} else {
		st.Class("slow-fail-held-up", 1)
	}
	for _, ms := range c.After {
		wg.Add(1)
		go func(ms int) {
			defer wg.Done()
			time.Sleep(time.Duration(ms) * time.Millisecond)
			collect(call(good, false, 800*time.Millisecond))
		}(ms)
	}
	wg.Wait()
	reqs, sent, _ := srv.Snapshot()
	// ids of requests in flight at the same time (arrival .. reply) must differ
	type span struct {
		id       int32
		from, to time.Time
		tok      uint32
	}
	replyAt := map[int64]time.Time{}
	serialID := map[int64]int32{}
	for _, s := range sent {
		replyAt[s.Serial] = s.At
		serialID[s.Serial] = s.ID
	}
	tokID := map[uint32]int32{}
	var spans []span
	for _, r := range reqs {
		if len(r.Buffer) < 4 {
			continue
		}
		tok := binary.BigEndian.Uint32(r.Buffer)
		tokID[tok] = r.ID
		to := r.At
		if _, slow := slowTok.Load(tok); slow {
			to = r.At.Add(delay)
		}
		spans = append(spans, span{r.ID, r.At, to, tok})
	}
	for i := range spans {
		for j := i + 1; j < len(spans); j++ {
			a, b := spans[i], spans[j]
			if a.id == b.id && !a.from.After(b.to) && !b.from.After(a.to) {
				return stat.Failf("duplicate-request-id", "a send to an unreachable endpoint failed after %v while %d calls to a healthy server were waiting for their replies: requests with tokens %d and %d were in flight on the healthy server at the same time with the same request id %d", heldFor.Round(time.Millisecond), len(c.Before), a.tok, b.tok, a.id)
			}
		}
	}
	for _, r := range results {
		if r.err != nil {
			return stat.Failf("lost-delivery", "slow-failing send beside healthy calls: the call with token %d to the healthy server (every request answered with its own id, well before the deadline) returned err=%v", r.tok, r.err)
		}
		if !r.has || serialID[r.serial] != tokID[r.tok] {
			return stat.Failf("misdelivery", "slow-failing send beside healthy calls: the call with token %d (request id %d) received the reply with serial %d, which was written with id %d", r.tok, tokID[r.tok], r.serial, serialID[r.serial])
		}
	}
	return nil
}

func slowFail(t *testing.T) {
	stat.Check(t, st, "slow-failing-send", stat.N(6, 120), drawSlowFail, func(c SlowFailCase) *stat.Failure {
		st.CaseJSON(c, true, "slow-failing-send-beside-calls-in-flight")
		f := runSlowFail(c)
		if f != nil && f.Sig == "lost-delivery" {
			// timeouts on an overloaded machine: must reproduce
			for k := 0; k < 2; k++ {
				time.Sleep(200 * time.Millisecond)
				if g := runSlowFail(c); g == nil {
					st.Inconclusive()
					return nil
				}
			}
		}
		return f
	})
}
