//go:build !verif_nomsgid

package c08

import "github.com/TarsCloud/TarsGo/tars"

const msgIDPreset = true

func presetMsgID(v int32) { tars.VerifSetMsgID(v) }

// bumpMsgID advances the process-wide request id counter by delta.
func bumpMsgID(delta int32) { tars.VerifSetMsgID(tars.VerifMsgID() + delta) }
