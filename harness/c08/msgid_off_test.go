//go:build verif_nomsgid

package c08

import "testing"

// Built without the request-id accessor (the repository no longer has a process-wide
// counter of that name): the id counter cannot be preset, everything else runs.
const msgIDPreset = false

func presetMsgID(v int32) {}

func bumpMsgID(delta int32) {}

func idgenCheck(t *testing.T) {}
