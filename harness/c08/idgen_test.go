//go:build !verif_nomsgid

package c08

// Request ids under concurrency around the wrap-around of the process-wide counter: many
// goroutines draw ids at the same instant from a counter preset just below MaxInt32 (or just
// below 0); every id must be non-zero and no id may be handed out twice - ids drawn in one
// round belong to calls that are outstanding at the same time.

import (
	"fmt"
	"math"
	"sync"
	"testing"

	"github.com/TarsCloud/TarsGo/tars"
	"pgregory.net/rapid"

	"verif/harness/stat"
)

type IDGenCase struct {
	Base       int32 `json:"base"`
	Goroutines int   `json:"goroutines"`
	PerG       int   `json:"per_goroutine"`
	Rounds     int   `json:"rounds"`
}

func drawIDGen(rt *rapid.T) IDGenCase {
	c := IDGenCase{Goroutines: rapid.SampledFrom([]int{2, 4, 8, 16}).Draw(rt, "goroutines"), PerG: rapid.IntRange(1, 6).Draw(rt, "perG")}
	c.Base = rapid.OneOf(rapid.Int32Range(math.MaxInt32-40, math.MaxInt32), rapid.Int32Range(-40, 1), rapid.Int32()).Draw(rt, "base")
	c.Rounds = rapid.SampledFrom([]int{20, 100}).Draw(rt, "rounds")
	return c
}

var idgenProxy *tars.ServantProxy

func runIDGen(c IDGenCase) *stat.Failure {
	if idgenProxy == nil {
		idgenProxy = tars.NewServantProxy(tars.NewCommunicator(), "Verif.C08.IDGen@tcp -h 127.0.0.1 -p 1 -t 1000")
	}
	for round := 0; round < c.Rounds; round++ {
		presetMsgID(c.Base)
		ids := make([][]int32, c.Goroutines)
		var wg sync.WaitGroup
		start := make(chan struct{})
		for g := 0; g < c.Goroutines; g++ {
			wg.Add(1)
			go func(g int) {
				defer wg.Done()
				<-start
				for k := 0; k < c.PerG; k++ {
					ids[g] = append(ids[g], idgenProxy.VerifGenRequestID())
				}
			}(g)
		}
		close(start)
		wg.Wait()
		seen := map[int32]int{}
		for g := range ids {
			for _, id := range ids[g] {
				if id == 0 {
					return stat.Failf("request-id-zero", "counter preset %d, %d goroutines x %d ids: id 0 was handed out (round %d)", c.Base, c.Goroutines, c.PerG, round)
				}
				seen[id]++
				if seen[id] > 1 {
					return stat.Failf("request-id-reused", "counter preset %d, %d goroutines x %d ids drawn at the same time: id %d was handed out %d times (round %d)", c.Base, c.Goroutines, c.PerG, id, seen[id], round)
				}
			}
		}
	}
	return nil
}

func idgenCheck(t *testing.T) {
	stat.Check(t, st, "idgen", stat.N(300, 20000), drawIDGen, func(c IDGenCase) *stat.Failure {
		near := c.Base > math.MaxInt32-64 || (c.Base <= 2 && c.Base >= -64)
		st.CaseJSON(c, near && c.Goroutines >= 4, fmt.Sprintf("idgen-goroutines-%d", c.Goroutines))
		return runIDGen(c)
	})
}
