// C06 over the framework's checked-in bindings and tup.UniAttribute.
package c06

import (
	"testing"

	"verif/harness/codecprops"
	"verif/harness/gen/regfw"
	"verif/harness/stat"
)

var st = stat.New("C06", codecprops.C06Rule,
	"reference strict decoder / well-formedness scanner in harness/refcodec decide which top-level fields are complete",
	"tup.UniAttribute is modelled as struct{0 require map<string,vector<byte>>}; its decoded map is read through an overlay accessor")

func TestC06(t *testing.T) {
	defer st.Emit()
	r, err := codecprops.Load("framework", regfw.SchemaJSON, regfw.New)
	if err != nil {
		t.Fatalf("VERIF-INFRA registry: %v", err)
	}
	r.AddTup()
	r.RunC06(t, st, 20000, 2000000)
}
