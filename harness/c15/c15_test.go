// C15 — failover: failing endpoints leave rotation, are probed, and come back.
//
// A registry-backed ServantProxy (custom registry.Registrar returning 2..4 scripted servers
// on distinct loopback hosts; the background status/refresh tickers are disabled by huge
// intervals) is driven through a generated history of steps: calls, clock advances
// (implemented by shifting the adapters' health timestamps back, which is exactly a clock
// advance for rules of the form now - t >= const), explicit status checks and mode flips of
// the servers (ok / failing = silent with a 40 ms call timeout).
package c15

import (
	"context"
	"encoding/binary"
	"fmt"
	"sync"
	"sync/atomic"
	"testing"
	"time"

	"github.com/TarsCloud/TarsGo/tars"
	"github.com/TarsCloud/TarsGo/tars/protocol/res/endpointf"
	"github.com/TarsCloud/TarsGo/tars/protocol/res/requestf"
	"github.com/TarsCloud/TarsGo/tars/registry"
	"github.com/TarsCloud/TarsGo/tars/util/rogger"
	"pgregory.net/rapid"

	"verif/harness/peer"
	"verif/harness/stat"
)

var st = stat.New("C15",
	"Case = 2..4 scripted servers (unweighted or all statically weighted) behind a registry-backed proxy, all calls two-way or (a fifth of the cases) all one-way - a one-way call fails only when its request cannot be sent, 4..40 steps from {call x1..8, advance clock by 1|2|3|6|8|25|31|40|61|90 s, status check, flip a server between ok and failing (silent) or between up and down (connections closed, dials refused), registry refresh after the registry's answer changed in an attribute that is not part of an endpoint's identity (QoS)}. Model per endpoint: failures/successes since (re)instatement, consecutive failures, model time since last success / since the failure streak began / since the last probe, observed rotation membership. Assertions (threshold assertions only when the model time is >= 2 s away from the threshold): an endpoint leaves rotation only with >= 2 failures since it was (re)instated (never with 0); >= 5 consecutive failures over >= 5 s with another endpoint active => out of rotation after the next status check; an endpoint that is out of rotation receives calls only as probes: never without a status check since it left rotation / since the previous probe, and two probes only if >= 30 s can lie between the status checks that scheduled them; a successful probe puts it back (it is listed again, and an in-rotation endpoint whose server answers receives ordinary traffic within two full cycles, also with static weights), a failed probe leaves it out; with every endpoint out of rotation calls are still attempted on some endpoint. Non-trivial = history with block -> >= 30 s -> probe -> reinstatement, or all endpoints blocked. Distinct = distinct case JSON.",
	"clock advances shift the adapters' timestamps through an overlay accessor; real elapsed time (< 3 s per case) is added to the model with second granularity margins",
	"the process-wide background status and refresh tickers are disabled (intervals of ~11 days set before the first proxy is created) so that status checks happen only where the history says")

func init() { rogger.SetLevel(rogger.OFF) }

type Step struct {
	Op     string `json:"op"` // call | advance | check | flip | traffic | refresh
	N      int    `json:"n,omitempty"`
	Secs   int    `json:"secs,omitempty"`
	Target int    `json:"target,omitempty"`
}

type Case struct {
	// Weights: nil = the registry publishes unweighted endpoints; otherwise every endpoint
	// carries a static weight (weight type 1)
	Weights  []int32 `json:"weights,omitempty"`
	NServers int     `json:"n_servers"`
	Steps    []Step  `json:"steps"`
	// OneWay: every call of the case is a one-way call (it fails only when the request cannot
	// be sent - a server that is down - and succeeds against a server that merely stays silent)
	OneWay bool `json:"one_way,omitempty"`
}

func draw(rt *rapid.T) Case {
	c := Case{NServers: rapid.IntRange(2, 4).Draw(rt, "nservers")}
	c.OneWay = rapid.IntRange(0, 4).Draw(rt, "oneWay") == 0
	if rapid.IntRange(0, 2).Draw(rt, "weighted") == 0 {
		for i := 0; i < c.NServers; i++ {
			c.Weights = append(c.Weights, int32(rapid.SampledFrom([]int{1, 2, 5, 10, 30, 100}).Draw(rt, "weight")))
		}
	}
	if rapid.IntRange(0, 2).Draw(rt, "template") > 0 {
		// failover-cycle template (constructed, not hoped for): one endpoint starts failing,
		// collects >= 5 failures, time passes, status check (=> out of rotation), optionally
		// recovers, >= 30 s pass, status check + calls (=> probe), then light traffic and a
		// long advance + status check (health ratio window), with generated parameters.
		tgt := rapid.IntRange(0, c.NServers-1).Draw(rt, "target")
		add := func(s Step) { c.Steps = append(c.Steps, s) }
		noise := func() {
			if rapid.IntRange(0, 3).Draw(rt, "noise") == 0 {
				add(Step{Op: rapid.SampledFrom([]string{"check", "call", "advance"}).Draw(rt, "noiseOp"), N: 1, Secs: rapid.SampledFrom([]int{1, 2, 3}).Draw(rt, "noiseSecs")})
			}
		}
		// the registry's answer changes (an attribute that is not part of an endpoint's
		// identity) and the periodic refresh runs
		refresh := func() {
			if rapid.IntRange(0, 2).Draw(rt, "refresh") == 0 {
				add(Step{Op: "refresh", Target: rapid.IntRange(0, c.NServers-1).Draw(rt, "refreshTarget")})
			}
		}
		// warm-up: sometimes long enough that the later failures stay below half of all
		// calls, so that only the consecutive-failure rule can take the endpoint out
		for w := rapid.SampledFrom([]int{0, 1, 2, 8, 12}).Draw(rt, "warmRounds"); w > 0; w-- {
			add(Step{Op: "call", N: c.NServers})
		}
		add(Step{Op: "call", N: rapid.IntRange(0, 6).Draw(rt, "warm")})
		if rapid.IntRange(0, 2).Draw(rt, "singleRefusal") == 0 {
			// one refused dial on a young endpoint, then a status check: a single failure
			// must never take an endpoint out of rotation
			other := rapid.IntRange(0, c.NServers-1).Draw(rt, "refusedTarget")
			add(Step{Op: "flip", Target: other, N: 1})
			add(Step{Op: "call", N: c.NServers})
			add(Step{Op: "flip", Target: other, N: 1})
			add(Step{Op: "check"})
			add(Step{Op: "call", N: c.NServers})
		}
		// the target fails by staying silent or - always when the calls are one-way, which a
		// silent server does not make fail - by going down (dials refused)
		failKind := 0
		if c.OneWay || rapid.IntRange(0, 2).Draw(rt, "targetGoesDown") == 0 {
			failKind = 1
		}
		add(Step{Op: "flip", Target: tgt, N: failKind})
		for k := rapid.IntRange(5, 8).Draw(rt, "failRounds"); k > 0; k-- {
			add(Step{Op: "call", N: c.NServers})
		}
		noise()
		add(Step{Op: "advance", Secs: rapid.SampledFrom([]int{6, 8, 25}).Draw(rt, "a1")})
		add(Step{Op: "check"})
		// right after the block: status checks and calls at short intervals - no probe may
		// be scheduled yet
		for k := rapid.IntRange(0, 2).Draw(rt, "shortRounds"); k > 0; k-- {
			add(Step{Op: "advance", Secs: rapid.SampledFrom([]int{3, 6, 8}).Draw(rt, "short")})
			add(Step{Op: "check"})
			add(Step{Op: "call", N: c.NServers})
		}
		refresh()
		recovers := rapid.IntRange(0, 3).Draw(rt, "recovers") > 0
		if recovers {
			add(Step{Op: "flip", Target: tgt, N: failKind})
		}
		add(Step{Op: "call", N: rapid.IntRange(0, 8).Draw(rt, "mid")})
		refresh()
		noise()
		// an idle period: several retry intervals pass with status checks but without a call
		// (however often the blocked endpoint was due, it gets ONE probe when traffic resumes)
		for k := rapid.SampledFrom([]int{0, 0, 2, 3}).Draw(rt, "idleIntervals"); k > 0; k-- {
			add(Step{Op: "advance", Secs: rapid.SampledFrom([]int{31, 40, 61}).Draw(rt, "idleSecs")})
			add(Step{Op: "check"})
		}
		add(Step{Op: "advance", Secs: rapid.SampledFrom([]int{25, 31, 40, 61}).Draw(rt, "a2")})
		add(Step{Op: "check"})
		add(Step{Op: "call", N: rapid.IntRange(1, 8).Draw(rt, "probeCalls")})
		noise()
		add(Step{Op: "call", N: rapid.IntRange(0, 6).Draw(rt, "light")})
		add(Step{Op: "advance", Secs: rapid.SampledFrom([]int{31, 61, 90}).Draw(rt, "a3")})
		add(Step{Op: "check"})
		add(Step{Op: "call", N: rapid.IntRange(1, 2*c.NServers).Draw(rt, "after")})
		if rapid.Bool().Draw(rt, "traffic") {
			add(Step{Op: "traffic"})
		}
		if rapid.Bool().Draw(rt, "secondRound") {
			add(Step{Op: "advance", Secs: rapid.SampledFrom([]int{31, 61}).Draw(rt, "a4")})
			add(Step{Op: "check"})
			add(Step{Op: "call", N: rapid.IntRange(1, 2*c.NServers).Draw(rt, "after2")})
		}
		return c
	}
	n := rapid.IntRange(4, 40).Draw(rt, "nsteps")
	for i := 0; i < n; i++ {
		op := rapid.SampledFrom([]string{"call", "call", "call", "call", "advance", "advance", "advance", "check", "check", "check", "flip", "refresh"}).Draw(rt, "op")
		s := Step{Op: op}
		switch op {
		case "call":
			s.N = rapid.IntRange(1, 8).Draw(rt, "n")
		case "advance":
			s.Secs = rapid.SampledFrom([]int{1, 2, 3, 6, 8, 25, 31, 40, 61, 90}).Draw(rt, "secs")
		case "flip", "refresh":
			s.Target = rapid.IntRange(0, c.NServers-1).Draw(rt, "target")
			if op == "flip" && rapid.IntRange(0, 2).Draw(rt, "downKind") == 0 {
				s.N = 1 // down/up instead of silent/answering
			}
		}
		c.Steps = append(c.Steps, s)
	}
	return c
}

type fakeRegistry struct {
	mu  sync.Mutex
	eps []endpointf.EndpointF
}

func (r *fakeRegistry) Registry(ctx context.Context, s *registry.ServantInstance) error   { return nil }
func (r *fakeRegistry) Deregister(ctx context.Context, s *registry.ServantInstance) error { return nil }
func (r *fakeRegistry) QueryServant(ctx context.Context, id string) ([]registry.Endpoint, []registry.Endpoint, error) {
	r.mu.Lock()
	defer r.mu.Unlock()
	return append([]endpointf.EndpointF{}, r.eps...), nil, nil
}
func (r *fakeRegistry) QueryServantBySet(ctx context.Context, id, set string) ([]registry.Endpoint, []registry.Endpoint, error) {
	return r.QueryServant(ctx, id)
}

var (
	servers  []*peer.Server
	modes    []int32 // 0 ok, 1 failing (silent)
	down     [4]bool // server i is not listening (dials are refused)
	setupOne sync.Once
	objSeq   int64
)

func setup(t *testing.T) {
	setupOne.Do(func() {
		c := tars.NewCommunicator()
		// one shared client configuration per application: disable the background tickers
		c.Client.CheckStatusInterval = 1000000000
		c.Client.RefreshEndpointInterval = 1000000000
		for i := 0; i < 4; i++ {
			s, err := peer.Listen(fmt.Sprintf("127.0.0.%d", i+1))
			if err != nil {
				t.Fatalf("VERIF-INFRA listen: %v", err)
			}
			i := i
			s.Handler = func(s *peer.Server, r *peer.Req) {
				if atomic.LoadInt32(&modes[i]) == 0 {
					s.Reply(r.Conn, r.Version, r.ID, 0, "", "own", 0)
				}
			}
			servers = append(servers, s)
			modes = append(modes, 0)
		}
	})
}

type epModel struct {
	f, s       int     // failures / successes since (re)instated
	cf         int     // consecutive failures
	sinceSucc  float64 // model seconds since the last success (large if never)
	streakAge  float64 // model seconds since the current failure streak began
	sinceProbe float64 // model seconds since the last call that reached it while out of rotation
	out        bool    // observed out of rotation
	probed     bool
	// absolute model times for the probe-spacing rule (a probe is scheduled by a status
	// check and consumed by a later call): first/last status check since the endpoint left
	// rotation or since the previous probe call was consumed, and of the previous probe
	firstCheck, lastCheck float64
	prevFirstCheck        float64
	hadProbe              bool
}

func run(c Case) *stat.Failure {
	reg := &fakeRegistry{}
	for i := range down {
		if down[i] {
			if err := servers[i].Relisten(); err != nil {
				return stat.Failf("harness-failure", "relisten: %v", err)
			}
			down[i] = false
		}
	}
	for i := 0; i < c.NServers; i++ {
		atomic.StoreInt32(&modes[i], 0)
		ef := endpointf.EndpointF{Host: servers[i].Host, Port: int32(servers[i].Port), Timeout: 3000, Istcp: 1, WeightType: 0, Weight: 100}
		if c.Weights != nil {
			ef.WeightType, ef.Weight = 1, c.Weights[i]
		}
		reg.eps = append(reg.eps, ef)
	}
	comm := tars.NewCommunicator(tars.Registrar(reg))
	sp := tars.NewServantProxy(comm, fmt.Sprintf("Verif.C15.Obj%d", atomic.AddInt64(&objSeq, 1)))
	m := make([]*epModel, c.NServers)
	for i := range m {
		m[i] = &epModel{sinceSucc: 1e9, sinceProbe: 1e9}
	}
	hostIdx := map[string]int{}
	for i := 0; i < c.NServers; i++ {
		hostIdx[servers[i].Host] = i
		servers[i].ResetLog()
	}
	var token uint32
	last := time.Now()
	clock := 0.0
	tick := func() { // add real elapsed time to the model clocks
		d := time.Since(last).Seconds()
		last = time.Now()
		clock += d
		for _, e := range m {
			e.sinceSucc += d
			e.streakAge += d
			e.sinceProbe += d
		}
	}
	observe := func(where string) *stat.Failure {
		active := map[int]bool{}
		for _, h := range sp.VerifActiveHosts() {
			if i, ok := hostIdx[h]; ok {
				active[i] = true
			}
		}
		for i, e := range m {
			if !active[i] && !e.out {
				// left rotation now
				if e.f < 2 {
					return stat.Failf("blocked-with-too-few-failures", "%s: endpoint %d was taken out of rotation with %d failed call(s) since it was last (re)instated (successes %d)", where, i, e.f, e.s)
				}
				e.out, e.sinceProbe, e.probed = true, 1e9, false
				e.firstCheck, e.lastCheck, e.hadProbe = -1, -1, false
			} else if active[i] && e.out {
				e.out = false
				e.f, e.s, e.cf = 0, 0, 0
			}
		}
		return nil
	}
	oneCall := func() (server int, ok bool, err error) {
		tok := atomic.AddUint32(&token, 1)
		buf := make([]byte, 4)
		binary.BigEndian.PutUint32(buf, tok)
		ctx, cancel := context.WithTimeout(context.Background(), 40*time.Millisecond)
		defer cancel()
		resp := &requestf.ResponsePacket{}
		sendsBefore := map[string]int32{}
		for _, a := range sp.VerifAdapters() {
			h, _ := a.VerifHost()
			_, _, sc, _ := a.VerifCounters()
			sendsBefore[h] = sc
		}
		cType := byte(0)
		if c.OneWay {
			cType = 1 // basef.TARSONEWAY
		}
		err = sp.TarsInvoke(ctx, cType, "echo", buf, nil, nil, resp)
		if c.OneWay && err == nil {
			// the request is written by the sender goroutine after the call returned
			dl := time.Now().Add(30 * time.Millisecond)
			for time.Now().Before(dl) {
				seen := false
				for i := 0; i < c.NServers && !seen; i++ {
					reqs, _, _ := servers[i].Snapshot()
					for j := len(reqs) - 1; j >= 0 && j >= len(reqs)-4; j-- {
						if len(reqs[j].Buffer) >= 4 && binary.BigEndian.Uint32(reqs[j].Buffer) == tok {
							seen = true
						}
					}
				}
				if seen {
					break
				}
				time.Sleep(200 * time.Microsecond)
			}
		}
		server = -1
		for i := 0; i < c.NServers; i++ {
			reqs, _, _ := servers[i].Snapshot()
			for j := len(reqs) - 1; j >= 0 && j >= len(reqs)-4; j-- {
				if len(reqs[j].Buffer) >= 4 && binary.BigEndian.Uint32(reqs[j].Buffer) == tok {
					server = i
				}
			}
		}
		if server < 0 {
			// no server saw the request (refused dial): the endpoint the call was attempted on is
			// the one whose send counter moved
			for _, a := range sp.VerifAdapters() {
				h, _ := a.VerifHost()
				if _, _, sc, _ := a.VerifCounters(); sc != sendsBefore[h] {
					if i, ok := hostIdx[h]; ok {
						server = i
					}
				}
			}
		}
		return server, err == nil, err
	}
	sawProbeCycle, sawAllBlocked := false, false
	for si, stp := range c.Steps {
		tick()
		where := fmt.Sprintf("step %d (%s)", si, stp.Op)
		switch stp.Op {
		case "flip":
			if stp.N == 1 {
				// the server goes down / comes back: connections are closed, dials are refused
				if down[stp.Target] {
					if err := servers[stp.Target].Relisten(); err != nil {
						return stat.Failf("harness-failure", "relisten: %v", err)
					}
				} else {
					servers[stp.Target].StopListening()
					servers[stp.Target].CloseAllConns()
				}
				down[stp.Target] = !down[stp.Target]
				st.Class("server-down-or-up", 1)
			} else {
				atomic.StoreInt32(&modes[stp.Target], 1-atomic.LoadInt32(&modes[stp.Target]))
			}
		case "refresh":
			// the registry now publishes a different QoS value for one endpoint (same hosts,
			// ports, timeouts: every endpoint keeps its identity); the refresh must leave
			// the health state of every endpoint as it was
			reg.mu.Lock()
			reg.eps[stp.Target%len(reg.eps)].Qos++
			reg.mu.Unlock()
			if err := sp.VerifRefresh(); err != nil {
				return stat.Failf("harness-failure", "refresh: %v", err)
			}
			st.Class("refresh-with-changed-registry-answer", 1)
			active := map[int]bool{}
			for _, h := range sp.VerifActiveHosts() {
				if i, ok := hostIdx[h]; ok {
					active[i] = true
				}
			}
			for i, e := range m {
				if e.out && active[i] {
					return stat.Failf("blocked-endpoint-reinstated-by-refresh", "%s: endpoint %d was out of rotation (%d failures since it was reinstated, last success %.0f s ago, no successful probe since) and is listed in rotation again after a registry refresh that only changed the QoS value of endpoint %d", where, i, e.f, e.sinceSucc, stp.Target)
				}
				if !e.out && !active[i] {
					return stat.Failf("endpoint-dropped-by-refresh", "%s: endpoint %d was in rotation and is not listed after a registry refresh that still publishes it", where, i)
				}
			}
		case "advance":
			for _, a := range sp.VerifAdapters() {
				a.VerifShiftClock(int64(stp.Secs))
			}
			clock += float64(stp.Secs)
			for _, e := range m {
				e.sinceSucc += float64(stp.Secs)
				e.streakAge += float64(stp.Secs)
				e.sinceProbe += float64(stp.Secs)
			}
		case "check":
			// sufficient condition for leaving rotation, evaluated before the check
			mustLeave := map[int]bool{}
			others := 0
			for _, e := range m {
				if !e.out {
					others++
				}
			}
			for i, e := range m {
				if !e.out && e.cf >= 5 && e.sinceSucc >= 7 && e.streakAge >= 7 && others >= 2 {
					mustLeave[i] = true
				}
			}
			for _, e := range m {
				if e.out {
					if e.firstCheck < 0 {
						e.firstCheck = clock
					}
					e.lastCheck = clock
				}
			}
			sp.VerifCheckStatus()
			if f := observe(where); f != nil {
				return f
			}
			for i := range mustLeave {
				if !m[i].out {
					return stat.Failf("failing-endpoint-stays", "%s: endpoint %d failed %d calls in a row over %.0f s (no success for %.0f s), another endpoint is active, yet it is still in rotation after a status check", where, i, m[i].cf, m[i].streakAge, m[i].sinceSucc)
				}
			}
		case "traffic":
			// "returns to rotation": an endpoint that is in rotation and answers must receive
			// ordinary traffic. Issue two full cycles of calls (a weighted cycle has at most
			// 100 slots per endpoint) and require every in-rotation, healthy endpoint to be hit.
			n := 4 * c.NServers
			if c.Weights != nil {
				n = 2 * cycleLen(c.Weights)
			}
			hit := map[int]int{}
			allOK := true
			for i := range m {
				if atomic.LoadInt32(&modes[i]) != 0 || down[i] {
					allOK = false // failing servers make calls slow and change membership: skip
				}
			}
			if !allOK || n > 700 {
				break
			}
			before := map[int]bool{}
			for _, h := range sp.VerifActiveHosts() {
				before[hostIdx[h]] = true
			}
			for k := 0; k < n; k++ {
				srv, ok, _ := oneCall()
				if srv >= 0 && ok {
					hit[srv]++
					m[srv].s++
					m[srv].cf = 0
					m[srv].sinceSucc = 0
				}
			}
			tick()
			if f := observe(where); f != nil {
				return f
			}
			for i := range m {
				if before[i] && !m[i].out && hit[i] == 0 {
					return stat.Failf("in-rotation-endpoint-gets-no-traffic", "%s: endpoint %d is listed in rotation and its server answers, but none of %d ordinary calls reached it (hits per endpoint %v, weights %v)", where, i, n, hit, c.Weights)
				}
			}
		case "call":
			for k := 0; k < stp.N; k++ {
				tick()
				allOut := true
				for _, e := range m {
					if !e.out {
						allOut = false
					}
				}
				srv, ok, err := oneCall()
				time.Sleep(3 * time.Millisecond) // reinstatement after a probe happens in a goroutine
				if allOut {
					sawAllBlocked = true
					if srv < 0 {
						return stat.Failf("all-blocked-no-attempt", "%s: every endpoint is out of rotation and the call was not attempted on any endpoint (error: %v)", where, err)
					}
				}
				if srv < 0 {
					continue
				}
				e := m[srv]
				if e.out {
					// only probes may reach an endpoint that is out of rotation; a probe is
					// scheduled by a status check (at most every 30 s) and consumed by a later
					// call, so two probe calls prove a violation only if even the widest
					// possible gap between their scheduling checks is below 30 s
					if !allOut {
						if e.lastCheck < 0 {
							return stat.Failf("blocked-endpoint-called", "%s: endpoint %d is out of rotation and received a call although no status check happened since %s", where, srv, map[bool]string{true: "the previous probe", false: "it left rotation"}[e.hadProbe])
						}
						if e.hadProbe && e.lastCheck-e.prevFirstCheck < 28 {
							return stat.Failf("blocked-endpoint-called-too-often", "%s: endpoint %d is out of rotation and was probed twice although at most %.0f s lie between the status checks that scheduled the probes (one probe per 30 s)", where, srv, e.lastCheck-e.prevFirstCheck)
						}
						e.hadProbe, e.prevFirstCheck = true, e.firstCheck
						e.firstCheck, e.lastCheck = -1, -1
					}
					e.sinceProbe = 0
					if !allOut {
						if ok {
							time.Sleep(15 * time.Millisecond)
							back := false
							for _, h := range sp.VerifActiveHosts() {
								if hostIdx[h] == srv {
									back = true
								}
							}
							if !back {
								return stat.Failf("probe-success-not-reinstated", "%s: the probe of blocked endpoint %d succeeded but it is not back in rotation", where, srv)
							}
							sawProbeCycle = true
							e.out, e.f, e.s, e.cf = false, 0, 1, 0
							e.sinceSucc = 0
							continue
						}
						for _, h := range sp.VerifActiveHosts() {
							if hostIdx[h] == srv {
								return stat.Failf("probe-failure-reinstated", "%s: the probe of blocked endpoint %d failed but it is back in rotation", where, srv)
							}
						}
					}
				}
				if ok {
					e.s++
					e.cf = 0
					e.sinceSucc = 0
				} else {
					if e.cf == 0 {
						e.streakAge = 0
					}
					e.f++
					e.cf++
				}
				if f := observe(where); f != nil {
					return f
				}
			}
		}
	}
	// a reinstated endpoint receives traffic again: covered by observe() + routing in later
	// steps; record the classes reached
	if sawProbeCycle {
		st.Class("history-with-probe-and-reinstatement", 1)
	}
	if sawAllBlocked {
		st.Class("history-with-all-endpoints-blocked", 1)
	}
	return nil
}

func TestC15(t *testing.T) {
	defer st.Emit()
	setup(t)
	stat.Check(t, st, "failover", stat.N(60, 3000), draw, func(c Case) *stat.Failure {
		flips, adv30 := 0, 0
		for _, s := range c.Steps {
			if s.Op == "flip" {
				flips++
			}
			if s.Op == "advance" && s.Secs >= 31 {
				adv30++
			}
		}
		wcls := "unweighted"
		if c.Weights != nil {
			wcls = "static-weights"
		}
		cw := "calls-two-way"
		if c.OneWay {
			cw = "calls-one-way"
		}
		st.CaseJSON(c, flips >= 1 && adv30 >= 1, fmt.Sprintf("servers-%d", c.NServers), wcls, cw)
		st.Class("steps", int64(len(c.Steps)))
		return run(c)
	})
}

// cycleLen: length of one weighted round-robin cycle per the documented formula.
func cycleLen(w []int32) int {
	mn, mx := w[0], w[0]
	for _, x := range w {
		if x < mn {
			mn = x
		}
		if x > mx {
			mx = x
		}
	}
	r := int(mx / mn)
	if r < 10 {
		r = 10
	}
	if r > 100 {
		r = 100
	}
	total := 0
	for _, x := range w {
		c := int(x) * r / int(mx)
		if c < 1 {
			c = 1
		}
		total += c
	}
	return total
}
