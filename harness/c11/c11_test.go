// C11 — calls keep succeeding across server-initiated connection closes.
//
// A scripted server that answers every request it receives closes the client's connection
// according to a generated script (right after a response, while idle, after the reconnect
// notification, by a listener restart); the client then issues calls at generated delays
// AFTER it has observed the close (overlay accessor on the transport's closed flag).
package c11

import (
	"context"
	"crypto/tls"
	"encoding/binary"
	"fmt"
	"os"
	"strings"
	"sync"
	"sync/atomic"
	"testing"
	"time"

	"github.com/TarsCloud/TarsGo/tars"
	"github.com/TarsCloud/TarsGo/tars/protocol/res/requestf"
	"github.com/TarsCloud/TarsGo/tars/util/rogger"
	"pgregory.net/rapid"

	"verif/harness/peer"
	"verif/harness/stat"
	"verif/harness/tlsenv"
)

var st = stat.New("C11",
	"Case = one proxy (with or without a registered push callback) + a scripted server that answers every request, over a tcp endpoint or (a quarter of the cases) an ssl endpoint with the client's TLS configuration taken from /tars/application/client<ca>; 1..4 rounds, round = {warm-up call on the live connection, server-side close of kind {right after a response | while idle | reconnect notification (id 0, _reconnect_) then close after 20 ms | reconnect notification, after which the server stops serving that connection and closes it only 1.5 s later | abortive close (RST) | close in the middle of a packet (2 or 9 bytes of a frame written) | an ordinary server push followed 100 ms later by an idle close (the push callback may take 0 / 300 / 1200 ms) | listener restart | listener restart with 1..8 calls issued while the server is down (after enough successful calls to keep the failures a minority in the health counters)}; a third of the cases use a client send queue of 4 requests (clientqueuelen), wait until the client has observed the close (at most 200 ms), generated gap from {0,1,10,100,300,500,700,900,1100,2500} ms, then 1..3 concurrent calls with a 1200 ms timeout; optionally a 1150 ms settle period}. Oracle: every call issued after the observed close succeeds (a call that fails or takes >= 1000 ms is a violation; 400..1000 ms is re-run twice before it counts); the server log shows each call's request exactly once and within 400 ms of the call; at most one new connection is opened per close; after the settle period the healthy new connection is not regarded as closed and no further connection was opened. Non-trivial = a call issued < 1 s after an observed close, preceded by >= 1 successful call on the closed connection. Distinct = distinct case JSON.",
	"calls racing with a close the client cannot yet know about (FIN in flight) are excluded by construction: calls are issued only after the transport's closed flag is set",
	"interleavings of the client's sender/receiver goroutines are sampled through the generated gaps, not enumerated")

func init() { rogger.SetLevel(rogger.OFF) }

type Round struct {
	Close  string `json:"close"` // after-response | idle | push | rst | restart
	GapMs  int    `json:"gap_ms"`
	NCalls int    `json:"n_calls"`
	Settle bool   `json:"settle,omitempty"`
	// DownCalls (close kind restart-down): calls issued while the server is down (they may
	// fail - the server is not reachable then - but must not poison the calls after the restart)
	DownCalls int `json:"down_calls,omitempty"`
	// OneWay: one-way requests sent on the live connection before the close (the server reads
	// them and, as a Tars server does, never answers them: the client keeps counting them as
	// in flight on that connection)
	OneWay int `json:"one_way,omitempty"`
}

type Case struct {
	// PushCallback: the proxy has a push callback registered (SetPushCallback), as clients
	// of pushing servers do
	PushCallback bool    `json:"push_callback,omitempty"`
	Rounds       []Round `json:"rounds"`
	// SmallQueue: the client's send queue holds 4 requests (clientqueuelen) instead of 10000
	SmallQueue bool `json:"small_queue,omitempty"`
	// SlowPushMs > 0 (with PushCallback): the push callback takes that long to return
	SlowPushMs int `json:"slow_push_ms,omitempty"`
	// SSL: the endpoint is an ssl endpoint (TLS on every connection, client configured through
	// /tars/application/client<ca>)
	SSL bool `json:"ssl,omitempty"`
}

var serverTLS *tls.Config

func TestMain(m *testing.M) {
	cfg, cleanup, err := tlsenv.Setup("c11")
	if err != nil {
		fmt.Println("VERIF-INFRA tls setup:", err)
		os.Exit(2)
	}
	serverTLS = cfg
	code := m.Run()
	cleanup()
	os.Exit(code)
}

func draw(rt *rapid.T) Case {
	var c Case
	c.PushCallback = rapid.IntRange(0, 2).Draw(rt, "pushCallback") == 0
	c.SmallQueue = rapid.IntRange(0, 2).Draw(rt, "smallQueue") == 0
	c.SSL = rapid.IntRange(0, 3).Draw(rt, "ssl") == 0
	if c.PushCallback && rapid.Bool().Draw(rt, "slowPush") {
		c.SlowPushMs = rapid.SampledFrom([]int{300, 1200}).Draw(rt, "slowPushMs")
	}
	n := rapid.IntRange(1, 4).Draw(rt, "nrounds")
	for i := 0; i < n; i++ {
		rd := Round{
			Close:  rapid.SampledFrom([]string{"after-response", "after-response", "idle", "idle", "push", "push-linger", "push-linger", "rst", "restart", "restart-down", "restart-down", "push-data", "push-data", "partial-frame", "partial-frame"}).Draw(rt, "close"),
			GapMs:  rapid.SampledFrom([]int{0, 1, 10, 100, 300, 500, 700, 900, 1100, 2500}).Draw(rt, "gap"),
			NCalls: rapid.IntRange(1, 3).Draw(rt, "ncalls"),
			Settle: rapid.IntRange(0, 3).Draw(rt, "settle") == 0,
		}
		if rd.Close == "restart-down" {
			rd.DownCalls = rapid.IntRange(1, 8).Draw(rt, "downCalls")
		}
		if rapid.IntRange(0, 2).Draw(rt, "oneWayBefore") == 0 {
			rd.OneWay = rapid.IntRange(1, 3).Draw(rt, "oneWay")
		}
		c.Rounds = append(c.Rounds, rd)
	}
	// a fifth of the cases: two graceful restarts in a row, with unanswered one-way requests on
	// the connection of the first (its drain is pending when the second notification arrives)
	if rapid.IntRange(0, 4).Draw(rt, "twoNotifications") == 0 {
		if len(c.Rounds) < 2 {
			c.Rounds = append(c.Rounds, Round{GapMs: rapid.SampledFrom([]int{0, 10, 100, 500}).Draw(rt, "gap2"), NCalls: rapid.IntRange(1, 3).Draw(rt, "ncalls2")})
		}
		k := rapid.IntRange(0, len(c.Rounds)-2).Draw(rt, "firstNotification")
		c.Rounds[k].Close = rapid.SampledFrom([]string{"push", "push-linger"}).Draw(rt, "close1")
		c.Rounds[k].DownCalls = 0
		if c.Rounds[k].OneWay == 0 {
			c.Rounds[k].OneWay = rapid.IntRange(1, 3).Draw(rt, "oneWay1")
		}
		c.Rounds[k+1].Close = rapid.SampledFrom([]string{"push", "push-linger"}).Draw(rt, "close2")
		c.Rounds[k+1].DownCalls = 0
	}
	return c
}

var (
	comm      *tars.Communicator
	commSmall *tars.Communicator // clientqueuelen 4
	once      sync.Once
	objSeq    int64
)

const callTimeoutMs = 1200

type env struct {
	srv      *peer.Server
	sp       *tars.ServantProxy
	token    uint32
	closeTok uint32 // the server closes the connection right after replying to this token
}

func (e *env) call() (err error, took time.Duration, tok uint32, start time.Time) {
	return e.callx(false)
}

func (e *env) callx(closeAfterReply bool) (err error, took time.Duration, tok uint32, start time.Time) {
	tok = atomic.AddUint32(&e.token, 1)
	if closeAfterReply {
		atomic.StoreUint32(&e.closeTok, tok)
	}
	buf := make([]byte, 4)
	binary.BigEndian.PutUint32(buf, tok)
	ctx, cancel := context.WithTimeout(context.Background(), callTimeoutMs*time.Millisecond)
	defer cancel()
	resp := &requestf.ResponsePacket{}
	start = time.Now()
	err = e.sp.TarsInvoke(ctx, 0, "echo", buf, nil, nil, resp)
	took = time.Since(start)
	return
}

func (e *env) clientClosed() bool {
	ads := e.sp.VerifAdapters()
	if len(ads) == 0 {
		return true
	}
	return ads[0].VerifClientClosed()
}

type outcome struct {
	f    *stat.Failure
	soft bool
}

func runOnce(c Case) outcome {
	once.Do(func() {
		comm = tars.NewCommunicator()
		commSmall = tars.NewCommunicator()
		commSmall.Client.ClientQueueLen = 4
	})
	cm := comm
	if c.SmallQueue {
		cm = commSmall
	}
	var tlsCfg *tls.Config
	transportName := "tcp"
	if c.SSL {
		tlsCfg, transportName = serverTLS, "ssl"
	}
	srv, err := peer.ListenTLS("127.0.0.1", tlsCfg)
	if err != nil {
		return outcome{f: stat.Failf("harness-failure", "listen: %v", err)}
	}
	defer srv.Shutdown()
	e := &env{srv: srv}
	caseStart := time.Now()
	var notified sync.Map // connections that were sent the close notification: the server no longer serves them
	srv.Handler = func(s *peer.Server, r *peer.Req) {
		if _, gone := notified.Load(r.Conn); gone {
			return
		}
		if r.OneWay {
			return
		}
		s.Reply(r.Conn, r.Version, r.ID, 0, "", "own", 0)
		if len(r.Buffer) >= 4 && binary.BigEndian.Uint32(r.Buffer) == atomic.LoadUint32(&e.closeTok) {
			s.CloseConn(r.Conn)
		}
	}
	objName := fmt.Sprintf("Verif.C11.Obj%d", atomic.AddInt64(&objSeq, 1))
	e.sp = tars.NewServantProxy(cm, fmt.Sprintf("%s@%s -h 127.0.0.1 -p %d -t 60000", objName, transportName, srv.Port))
	// adapters outlive their case (keep-alive ticker of push clients, 30 s probes of blocked
	// endpoints): close them, or they reach a later case's server through a reused port
	defer func() {
		for _, a := range e.sp.VerifAdapters() {
			a.Close()
		}
	}()
	// connections of this case's proxy = connections that carried a request for its servant
	// name (a stray connection of a leftover adapter of another case or process carries none)
	countAccepted := func([]peer.ConnEvent) int {
		reqs, _, _ := srv.Snapshot()
		seen := map[int]bool{}
		for _, r := range reqs {
			if r.Servant == objName {
				seen[r.Conn] = true
			}
		}
		return len(seen)
	}
	if c.PushCallback {
		slow := time.Duration(c.SlowPushMs) * time.Millisecond
		e.sp.SetPushCallback(func([]byte) { time.Sleep(slow) })
	}

	checkCall := func(round int, what string, err error, took time.Duration, tok uint32, start time.Time) *outcome {
		reqs, _, _ := srv.Snapshot()
		n := 0
		var at time.Time
		for _, r := range reqs {
			if len(r.Buffer) >= 4 && binary.BigEndian.Uint32(r.Buffer) == tok {
				n++
				at = r.At
			}
		}
		if err != nil || took >= 1000*time.Millisecond {
			arrival := "its request never reached the server"
			if n > 0 {
				arrival = fmt.Sprintf("its request reached the server %v after the call started", at.Sub(start).Round(time.Millisecond))
			}
			return &outcome{f: stat.Failf("call-failed-after-close", "round %d (%s, gap %d ms) %s: the server is reachable and answers everything, but the call returned after %v with err=%v; %s", round, c.Rounds[round].Close, c.Rounds[round].GapMs, what, took.Round(time.Millisecond), err, arrival)}
		}
		if n != 1 {
			return &outcome{f: stat.Failf("request-count", "round %d %s: the call succeeded but its request arrived %d times at the server", round, what, n)}
		}
		if took > 400*time.Millisecond {
			return &outcome{soft: true, f: stat.Failf("slow-after-close", "round %d (%s, gap %d ms) %s: call took %v", round, c.Rounds[round].Close, c.Rounds[round].GapMs, what, took.Round(time.Millisecond))}
		}
		return nil
	}

	for ri, rd := range c.Rounds {
		// warm-up on the live connection
		err, took, tok, start := e.call()
		if o := checkCall(ri, "warm-up call", err, took, tok, start); o != nil {
			return *o
		}
		if rd.Close == "restart-down" {
			// enough successful calls first, so that the failures while the server is down stay
			// a minority in the adapter's health counters (the property is about reconnecting,
			// not about failover)
			for k := 0; k < 3*rd.DownCalls; k++ {
				err, took, tok, start := e.call()
				if o := checkCall(ri, "warm-up call", err, took, tok, start); o != nil {
					return *o
				}
			}
		}
		// one-way traffic on the live connection: the requests must have arrived before the close
		for k := 0; k < rd.OneWay; k++ {
			tok := atomic.AddUint32(&e.token, 1)
			buf := make([]byte, 4)
			binary.BigEndian.PutUint32(buf, tok)
			ctx, cancel := context.WithTimeout(context.Background(), callTimeoutMs*time.Millisecond)
			err := e.sp.TarsInvoke(ctx, 1 /* basef.TARSONEWAY */, "note", buf, nil, nil, &requestf.ResponsePacket{})
			cancel()
			if err != nil {
				return outcome{f: stat.Failf("call-failed-after-close", "round %d: one-way request %d on the live connection (after a successful warm-up call) failed: %v", ri, k, err)}
			}
			dl := time.Now().Add(2 * time.Second)
			for arrived := false; !arrived; {
				reqs, _, _ := srv.Snapshot()
				for j := len(reqs) - 1; j >= 0 && !arrived; j-- {
					arrived = len(reqs[j].Buffer) >= 4 && binary.BigEndian.Uint32(reqs[j].Buffer) == tok
				}
				if !arrived {
					if time.Now().After(dl) {
						return outcome{soft: true, f: stat.Failf("slow-after-close", "round %d: one-way request %d had not reached the server after 2 s", ri, k)}
					}
					time.Sleep(200 * time.Microsecond)
				}
			}
		}
		_, _, ev0 := srv.Snapshot()
		accepted0 := countAccepted(ev0)
		// server-side close
		switch rd.Close {
		case "restart-down":
			srv.StopListening()
			srv.CloseAllConns()
			dl := time.Now().Add(2 * time.Second)
			for !e.clientClosed() && time.Now().Before(dl) {
				time.Sleep(200 * time.Microsecond)
			}
			for k := 0; k < rd.DownCalls; k++ {
				_, took, _, _ := e.call() // the server is down: an error is legitimate
				// deadline + connection-establishment bound (3 s dial timeout) + slack
				if took > (callTimeoutMs+3000+600)*time.Millisecond {
					return outcome{f: stat.Failf("call-hangs-while-server-down", "round %d: a call issued while the server was down returned only after %v (timeout %d ms, dial timeout 3 s)", ri, took.Round(time.Millisecond), callTimeoutMs)}
				}
			}
			if err := srv.Relisten(); err != nil {
				return outcome{f: stat.Failf("harness-failure", "relisten: %v", err)}
			}
		case "after-response":
			err, took, tok, start := e.callx(true)
			if o := checkCall(ri, "call before the close", err, took, tok, start); o != nil {
				return *o
			}
		case "idle":
			srv.CloseAllConns()
		case "partial-frame":
			// the server dies in the middle of writing a packet: the client has received the
			// first bytes of a frame when the connection ends
			pkt := peer.EncodeReply(1, 0, 0, 0, "news", 0, []byte("a pushed payload that is cut off"))
			k := 2
			if rd.GapMs%2 == 0 {
				k = 9
			}
			for _, id := range srv.OpenConnIDs() {
				_ = srv.WriteRaw(id, pkt[:k], 0, 0, "partial-frame")
			}
			time.Sleep(20 * time.Millisecond)
			srv.CloseAllConns()
		case "push-data":
			// an ordinary server push (id 0, not the reconnect notification) and, while the
			// client's push callback may still be busy with it, an idle close
			for _, id := range srv.OpenConnIDs() {
				_ = srv.WriteRaw(id, peer.EncodeReply(1, 0, 0, 0, "news", 0, []byte("pushed payload")), 0, 0, "push-data")
			}
			time.Sleep(100 * time.Millisecond)
			srv.CloseAllConns()
		case "rst":
			srv.ResetAllConns()
		case "push":
			srv.PushReconnectAll()
			time.Sleep(20 * time.Millisecond)
			srv.CloseAllConns()
		case "push-linger":
			// what a gracefully stopping server does: notify, stop serving the notified
			// connections, close them only later (1.5 s)
			for _, id := range srv.OpenConnIDs() {
				notified.Store(id, true)
			}
			srv.PushReconnectAll()
			ids := srv.OpenConnIDs()
			go func() {
				time.Sleep(1500 * time.Millisecond)
				for _, id := range ids {
					srv.CloseConn(id)
				}
			}()
		case "restart":
			srv.StopListening()
			srv.CloseAllConns()
			time.Sleep(30 * time.Millisecond)
			if err := srv.Relisten(); err != nil {
				return outcome{f: stat.Failf("harness-failure", "relisten: %v", err)}
			}
		}
		// give the client the time a close needs to cross the loopback and be read (a client
		// that has not noticed it after 200 ms is late: the calls below are issued "after
		// that close" all the same)
		dl := time.Now().Add(200 * time.Millisecond)
		if rd.Close == "push-linger" {
			// the notification itself is the close event; it needs no more than a loopback
			// round trip to arrive
			time.Sleep(100 * time.Millisecond)
			dl = time.Now()
		}
		for !e.clientClosed() && time.Now().Before(dl) {
			time.Sleep(200 * time.Microsecond)
		}
		if rd.Close != "push-linger" && !e.clientClosed() {
			// 200 ms after the server closed the connection the client still regards it as open:
			// the calls below are issued "after that close" all the same
			st.Class("close-not-observed-by-client-within-200ms", 1)
		}
		time.Sleep(time.Duration(rd.GapMs) * time.Millisecond)
		type res struct {
			err   error
			took  time.Duration
			tok   uint32
			start time.Time
		}
		results := make([]res, rd.NCalls)
		var wg sync.WaitGroup
		for i := range results {
			wg.Add(1)
			go func(i int) {
				defer wg.Done()
				var r res
				r.err, r.took, r.tok, r.start = e.call()
				results[i] = r
			}(i)
		}
		wg.Wait()
		for i, r := range results {
			if o := checkCall(ri, fmt.Sprintf("call %d after the close", i), r.err, r.took, r.tok, r.start); o != nil {
				return *o
			}
		}
		_, _, ev1 := srv.Snapshot()
		if n := countAccepted(ev1) - accepted0; n > 1 {
			return outcome{f: stat.Failf("extra-connections", "round %d (%s): the client opened %d new connections for one server-side close; history: %s", ri, rd.Close, n, history(srv, caseStart))}
		}
		if rd.Settle {
			time.Sleep(1150 * time.Millisecond)
			if e.clientClosed() {
				return outcome{f: stat.Failf("healthy-connection-marked-closed", "round %d (%s, gap %d ms): 1.15 s after successful calls on the new connection the client regards it as closed although the server did not close it", ri, rd.Close, rd.GapMs)}
			}
			err, took, tok, start := e.call()
			if o := checkCall(ri, "call after the settle period", err, took, tok, start); o != nil {
				return *o
			}
			_, _, ev2 := srv.Snapshot()
			if n := countAccepted(ev2) - accepted0; n > 1 {
				return outcome{f: stat.Failf("extra-connections", "round %d (%s): %d new connections after one server-side close (a healthy connection was dropped); history: %s", ri, rd.Close, n, history(srv, caseStart))}
			}
		}
	}
	return outcome{}
}

// history renders the server's connection events and requests relative to t0 (diagnostics
// for schedule-dependent failures, which cannot be replayed).
func history(srv *peer.Server, t0 time.Time) string {
	reqs, _, ev := srv.Snapshot()
	var b strings.Builder
	for _, e := range ev {
		fmt.Fprintf(&b, "[%+dms conn %d %s] ", e.At.Sub(t0).Milliseconds(), e.Conn, e.What)
	}
	b.WriteString("| requests: ")
	for _, r := range reqs {
		fmt.Fprintf(&b, "[%+dms conn %d %s id %d] ", r.At.Sub(t0).Milliseconds(), r.Conn, r.Func, r.ID)
	}
	return b.String()
}

func run(c Case) *stat.Failure {
	o := runOnce(c)
	if o.f == nil {
		return nil
	}
	if !o.soft && o.f.Sig == "call-failed-after-close" {
		// a call that ran into its 1.2 s timeout: on an overloaded machine that is not yet
		// proof; the histories that break this property reproduce, so confirm twice, alone
		for i := 0; i < 2; i++ {
			time.Sleep(300 * time.Millisecond)
			p := runOnce(c)
			if p.f == nil || p.soft {
				st.Inconclusive()
				return nil
			}
		}
		return o.f
	}
	if !o.soft {
		return o.f
	}
	for i := 0; i < 2; i++ {
		p := runOnce(c)
		if p.f == nil {
			st.Inconclusive()
			return nil
		}
		if !p.soft {
			return p.f
		}
	}
	return o.f
}

// pinned: the histories that need a busy push callback at the moment of the close
var pinnedCases = map[string]Case{
	"close-while-push-callback-busy": {PushCallback: true, SlowPushMs: 1200, Rounds: []Round{
		{Close: "push-data", GapMs: 100, NCalls: 1}, {Close: "push-data", GapMs: 500, NCalls: 2}}},
	"close-in-the-middle-of-a-packet": {Rounds: []Round{
		{Close: "partial-frame", GapMs: 10, NCalls: 2}, {Close: "partial-frame", GapMs: 301, NCalls: 1, Settle: true}}},
	// two graceful restarts in a row with unanswered one-way requests on the first connection:
	// the client is still draining its first connection when the second notification arrives
	"two-notifications-with-one-way-traffic": {Rounds: []Round{
		{Close: "push-linger", OneWay: 2, GapMs: 300, NCalls: 1}, {Close: "push-linger", GapMs: 10, NCalls: 2},
		{Close: "push", OneWay: 1, GapMs: 100, NCalls: 1}, {Close: "push-linger", GapMs: 500, NCalls: 1, Settle: true}}},
	"restart-with-calls-during-downtime": {SmallQueue: true, Rounds: []Round{
		{Close: "restart-down", DownCalls: 6, GapMs: 1, NCalls: 2}}},
}

func TestC11(t *testing.T) {
	defer st.Emit()
	defer staleCheck(t)
	if stat.ReplayPath() == "" && os.Getenv("VERIF_ONLY") == "" {
		stat.Pinned(t, st, "reconnect", pinnedCases, func(c Case) *stat.Failure {
			st.CaseJSON(c, true, "pinned")
			return run(c)
		})
	}
	stat.Check(t, st, "reconnect", stat.N(14, 600), draw, func(c Case) *stat.Failure {
		nt := false
		var cls []string
		drainPending := false
		for _, r := range c.Rounds {
			notif := r.Close == "push" || r.Close == "push-linger"
			if notif && drainPending {
				cls = append(cls, "notification-while-an-earlier-connection-is-still-draining")
			}
			if notif && r.OneWay > 0 {
				drainPending = true
			}
			cls = append(cls, "close-"+r.Close, fmt.Sprintf("gap-%d", r.GapMs))
			if r.GapMs < 1000 {
				nt = true
			}
			if r.Settle {
				cls = append(cls, "settle")
			}
			if r.OneWay > 0 {
				cls = append(cls, "one-way-requests-before-the-close")
			}
		}
		if c.SSL {
			cls = append(cls, "ssl-endpoint")
		} else {
			cls = append(cls, "tcp-endpoint")
		}
		st.CaseJSON(c, nt, cls...)
		st.Class("rounds", int64(len(c.Rounds)))
		return run(c)
	})
}
