package c11

// Stale close (C11, last clause: "a connection loss never makes a later healthy connection be
// treated as closed"), driven at the transport level where the order of events can be
// scripted: the client's receive goroutine is held inside ClientProtocol.ParsePackage while
// the server resets connection #1; the sender learns of the loss first (write error), the next
// Send dials connection #2; only then is the receive goroutine of #1 released and reports the
// loss of #1. Connection #2 must stay in use: the server sees exactly two connections and
// every later request arrives on #2.

import (
	"encoding/binary"
	"fmt"
	"net"
	"sync"
	"sync/atomic"
	"testing"
	"time"

	"github.com/TarsCloud/TarsGo/tars/transport"
	"pgregory.net/rapid"

	"verif/harness/stat"
)

type StaleCase struct {
	HoldMs     int `json:"hold_ms"`     // how long the old receive goroutine is held
	LaterCalls int `json:"later_calls"` // requests sent after the old goroutine was released
	GapMs      int `json:"gap_ms"`      // pause between those requests
}

func drawStale(rt *rapid.T) StaleCase {
	return StaleCase{HoldMs: rapid.SampledFrom([]int{50, 150, 400}).Draw(rt, "holdMs"),
		LaterCalls: rapid.IntRange(1, 4).Draw(rt, "laterCalls"), GapMs: rapid.SampledFrom([]int{0, 5, 50}).Draw(rt, "gapMs")}
}

type gateProto struct {
	gate   chan struct{}
	armed  int32
	inGate chan struct{}
	mu     sync.Mutex
	recv   int
}

func (p *gateProto) ParsePackage(b []byte) (int, int) {
	if atomic.CompareAndSwapInt32(&p.armed, 1, 2) {
		close(p.inGate)
		<-p.gate
	}
	if len(b) < 4 {
		return 0, transport.PackageLess
	}
	n := int(binary.BigEndian.Uint32(b))
	if n < 4 || n > 1<<20 {
		return 0, transport.PackageError
	}
	if len(b) < n {
		return 0, transport.PackageLess
	}
	return n, transport.PackageFull
}
func (p *gateProto) Recv(pkg []byte) { p.mu.Lock(); p.recv++; p.mu.Unlock() }

func runStale(c StaleCase) *stat.Failure {
	ln, err := net.Listen("tcp", "127.0.0.1:0")
	if err != nil {
		return stat.Failf("harness-failure", "listen: %v", err)
	}
	defer ln.Close()
	type acc struct {
		c    net.Conn
		reqs int32
	}
	var mu sync.Mutex
	var conns []*acc
	go func() {
		for {
			cn, err := ln.Accept()
			if err != nil {
				return
			}
			a := &acc{c: cn}
			mu.Lock()
			conns = append(conns, a)
			mu.Unlock()
			go func() {
				buf := make([]byte, 4096)
				for {
					n, err := cn.Read(buf)
					if err != nil {
						return
					}
					atomic.AddInt32(&a.reqs, int32(n/8)) // every request is one 8-byte frame
					// echo a frame per request
					for k := 0; k < n/8; k++ {
						_, _ = cn.Write([]byte{0, 0, 0, 8, 1, 2, 3, 4})
					}
				}
			}()
		}
	}()
	proto := &gateProto{gate: make(chan struct{}), inGate: make(chan struct{})}
	cl := transport.NewTarsClient(ln.Addr().String(), proto, &transport.TarsClientConf{Proto: "tcp", QueueLen: 100,
		IdleTimeout: 600 * time.Second, ReadTimeout: 100 * time.Millisecond, WriteTimeout: 3 * time.Second, DialTimeout: 3 * time.Second})
	defer cl.Close()
	frame := []byte{0, 0, 0, 8, 9, 9, 9, 9}
	nconns := func() int { mu.Lock(); defer mu.Unlock(); return len(conns) }
	waitFor := func(cond func() bool, d time.Duration) bool {
		dl := time.Now().Add(d)
		for time.Now().Before(dl) {
			if cond() {
				return true
			}
			time.Sleep(time.Millisecond)
		}
		return cond()
	}
	// connection #1: one request, answered; the receive goroutine is then held in ParsePackage
	atomic.StoreInt32(&proto.armed, 1)
	if err := cl.Send(frame); err != nil {
		return stat.Failf("harness-failure", "first send: %v", err)
	}
	select {
	case <-proto.inGate:
	case <-time.After(3 * time.Second):
		return stat.Failf("harness-failure", "the receive goroutine never reached ParsePackage")
	}
	// the server resets connection #1
	mu.Lock()
	first := conns[0]
	mu.Unlock()
	if tc, ok := first.c.(*net.TCPConn); ok {
		_ = tc.SetLinger(0)
	}
	first.c.Close()
	time.Sleep(20 * time.Millisecond)
	// the sender learns of the loss through write errors; some following Send dials #2
	ok := waitFor(func() bool {
		_ = cl.Send(frame)
		return nconns() >= 2
	}, 3*time.Second)
	if !ok {
		close(proto.gate)
		st.Class("stale-close-setup-not-reached", 1)
		return nil // the sender did not notice within 3 s: this history was not produced
	}
	mu.Lock()
	second := conns[1]
	mu.Unlock()
	if !waitFor(func() bool { return atomic.LoadInt32(&second.reqs) >= 1 }, 2*time.Second) {
		close(proto.gate)
		return stat.Failf("call-failed-after-close", "connection #2 was dialled but no request arrived on it within 2 s")
	}
	// now the goroutine that still serves connection #1 reports its loss
	time.Sleep(time.Duration(c.HoldMs) * time.Millisecond)
	close(proto.gate)
	time.Sleep(30 * time.Millisecond)
	before := atomic.LoadInt32(&second.reqs)
	for i := 0; i < c.LaterCalls; i++ {
		if err := cl.Send(frame); err != nil {
			return stat.Failf("call-failed-after-close", "send %d after the late report of the old connection's loss: %v", i, err)
		}
		time.Sleep(time.Duration(c.GapMs) * time.Millisecond)
	}
	waitFor(func() bool { return atomic.LoadInt32(&second.reqs) >= before+int32(c.LaterCalls) || nconns() > 2 }, 2*time.Second)
	if n := nconns(); n != 2 {
		return stat.Failf("healthy-connection-marked-closed", "the server accepted %d connections, 2 expected: after the goroutine of the lost connection #1 reported the loss (held %d ms), the healthy connection #2 was treated as closed and the client dialled again", n, c.HoldMs)
	}
	if got := atomic.LoadInt32(&second.reqs) - before; got != int32(c.LaterCalls) {
		return stat.Failf("call-failed-after-close", "%d of %d requests sent after the late report arrived on connection #2", got, c.LaterCalls)
	}
	return nil
}

func staleCheck(t *testing.T) {
	stat.Check(t, st, "stale-close", stat.N(10, 300), drawStale, func(c StaleCase) *stat.Failure {
		st.CaseJSON(c, true, fmt.Sprintf("stale-close-hold-%d", c.HoldMs))
		return runStale(c)
	})
}
