package refcodec

import (
	"encoding/binary"
	"errors"
	"fmt"
	"math"
)

// Dec is the strict reference decoder / well-formedness scanner.
type Dec struct {
	B   []byte
	Pos int
	// Flags collected while decoding (not errors by themselves).
	NonNarrow int // integers not encoded in their narrowest width
	Unknown   int // well-formed fields with tags not in the schema (skipped)
	MaxDepth  int // nesting bound for the scanner (default 64)
	// RejectUnknown makes undeclared tags an error (C03: every member under its declared tag).
	RejectUnknown bool
	// RejectNonNarrow makes non-narrowest integers an error.
	RejectNonNarrow bool
}

var ErrShort = errors.New("unexpected end of input")

type MissingRequired struct {
	Struct, Field string
	Tag           int
}

func (m *MissingRequired) Error() string {
	return fmt.Sprintf("required member %s.%s (tag %d) missing", m.Struct, m.Field, m.Tag)
}

func (d *Dec) rem() int { return len(d.B) - d.Pos }

func (d *Dec) need(n int) error {
	if n < 0 || d.rem() < n {
		return ErrShort
	}
	return nil
}

// Head reads a field head.
func (d *Dec) Head() (ty, tag int, err error) {
	if err = d.need(1); err != nil {
		return
	}
	b := d.B[d.Pos]
	d.Pos++
	ty = int(b & 0x0f)
	tag = int(b >> 4)
	if tag == 15 {
		if err = d.need(1); err != nil {
			return
		}
		tag = int(d.B[d.Pos])
		d.Pos++
	}
	if ty > WSimpleList {
		err = fmt.Errorf("unknown wire type %d", ty)
	}
	return
}

// PeekHead reads a head without consuming it.
func (d *Dec) PeekHead() (ty, tag int, err error) {
	p := d.Pos
	ty, tag, err = d.Head()
	d.Pos = p
	return
}

// intPayload reads the payload of an integer field of wire type ty.
func (d *Dec) intPayload(ty int) (int64, error) {
	switch ty {
	case WZero:
		return 0, nil
	case WByte:
		if err := d.need(1); err != nil {
			return 0, err
		}
		v := int64(int8(d.B[d.Pos]))
		d.Pos++
		if v == 0 {
			d.NonNarrow++
		}
		return v, nil
	case WShort:
		if err := d.need(2); err != nil {
			return 0, err
		}
		v := int64(int16(binary.BigEndian.Uint16(d.B[d.Pos:])))
		d.Pos += 2
		if v >= math.MinInt8 && v <= math.MaxInt8 {
			d.NonNarrow++
		}
		return v, nil
	case WInt:
		if err := d.need(4); err != nil {
			return 0, err
		}
		v := int64(int32(binary.BigEndian.Uint32(d.B[d.Pos:])))
		d.Pos += 4
		if v >= math.MinInt16 && v <= math.MaxInt16 {
			d.NonNarrow++
		}
		return v, nil
	case WLong:
		if err := d.need(8); err != nil {
			return 0, err
		}
		v := int64(binary.BigEndian.Uint64(d.B[d.Pos:]))
		d.Pos += 8
		if v >= math.MinInt32 && v <= math.MaxInt32 {
			d.NonNarrow++
		}
		return v, nil
	}
	return 0, fmt.Errorf("wire type %d is not an integer", ty)
}

// length reads a "tag 0 int" length as used by list/map/simple list.
func (d *Dec) length() (int, error) {
	ty, tag, err := d.Head()
	if err != nil {
		return 0, err
	}
	if tag != 0 {
		return 0, fmt.Errorf("length field has tag %d", tag)
	}
	if ty != WZero && ty != WByte && ty != WShort && ty != WInt {
		return 0, fmt.Errorf("length field has wire type %d", ty)
	}
	v, err := d.intPayload(ty)
	if err != nil {
		return 0, err
	}
	if v < 0 {
		return 0, fmt.Errorf("negative length %d", v)
	}
	return int(v), nil
}

// Scan skips the payload of one well-formed field of wire type ty (schema-free),
// checking every bound. depth guards recursion.
func (d *Dec) Scan(ty int, depth int) error {
	max := d.MaxDepth
	if max == 0 {
		max = 64
	}
	if depth > max {
		return fmt.Errorf("nesting deeper than %d", max)
	}
	switch ty {
	case WZero:
		return nil
	case WByte:
		return d.adv(1)
	case WShort:
		return d.adv(2)
	case WInt, WFloat:
		return d.adv(4)
	case WLong, WDouble:
		return d.adv(8)
	case WString1:
		if err := d.need(1); err != nil {
			return err
		}
		n := int(d.B[d.Pos])
		d.Pos++
		return d.adv(n)
	case WString4:
		if err := d.need(4); err != nil {
			return err
		}
		n := binary.BigEndian.Uint32(d.B[d.Pos:])
		d.Pos += 4
		if uint64(n) > uint64(d.rem()) {
			return ErrShort
		}
		return d.adv(int(n))
	case WList:
		n, err := d.length()
		if err != nil {
			return err
		}
		if n > d.rem() {
			return ErrShort // every element takes at least one byte
		}
		for i := 0; i < n; i++ {
			t, _, err := d.Head()
			if err != nil {
				return err
			}
			if t == WStructEnd {
				return fmt.Errorf("struct end inside list")
			}
			if err := d.Scan(t, depth+1); err != nil {
				return err
			}
		}
		return nil
	case WMap:
		n, err := d.length()
		if err != nil {
			return err
		}
		if n > d.rem() {
			return ErrShort
		}
		for i := 0; i < 2*n; i++ {
			t, tag, err := d.Head()
			if err != nil {
				return err
			}
			if t == WStructEnd {
				return fmt.Errorf("struct end inside map")
			}
			if tag != i%2 {
				return fmt.Errorf("map entry part has tag %d, want %d", tag, i%2)
			}
			if err := d.Scan(t, depth+1); err != nil {
				return err
			}
		}
		return nil
	case WSimpleList:
		t, tag, err := d.Head()
		if err != nil {
			return err
		}
		if t != WByte || tag != 0 {
			return fmt.Errorf("simple list element head is type %d tag %d", t, tag)
		}
		n, err := d.length()
		if err != nil {
			return err
		}
		return d.adv(n)
	case WStructBegin:
		last := -1
		for {
			t, tag, err := d.Head()
			if err != nil {
				return err
			}
			if t == WStructEnd {
				return nil
			}
			if tag <= last {
				return fmt.Errorf("tags not ascending inside struct (%d after %d)", tag, last)
			}
			last = tag
			if err := d.Scan(t, depth+1); err != nil {
				return err
			}
		}
	case WStructEnd:
		return fmt.Errorf("unexpected struct end")
	}
	return fmt.Errorf("unknown wire type %d", ty)
}

func (d *Dec) adv(n int) error {
	if err := d.need(n); err != nil {
		return err
	}
	d.Pos += n
	return nil
}

// Admissible reports whether wire type ty may carry a value of schema type t.
func Admissible(t *Type, ty int) bool {
	switch t.Kind {
	case KBool, KI8:
		return ty == WZero || ty == WByte
	case KU8, KI16:
		return ty == WZero || ty == WByte || ty == WShort
	case KU16, KI32, KEnum:
		return ty == WZero || ty == WByte || ty == WShort || ty == WInt
	case KU32, KI64:
		return ty == WZero || ty == WByte || ty == WShort || ty == WInt || ty == WLong
	case KF32:
		return ty == WZero || ty == WFloat
	case KF64:
		return ty == WZero || ty == WFloat || ty == WDouble
	case KString:
		return ty == WString1 || ty == WString4
	case KVector, KArray:
		return ty == WList || (ty == WSimpleList && (t.Elem.Kind == KI8 || t.Elem.Kind == KU8))
	case KMap:
		return ty == WMap
	case KStruct:
		return ty == WStructBegin
	}
	return false
}

// Value decodes the payload of a field whose head (wire type ty) has been consumed.
func (d *Dec) Value(t *Type, ty int, depth int) (any, error) {
	if !Admissible(t, ty) {
		return nil, fmt.Errorf("wire type %d not admissible for %v", ty, t.Kind)
	}
	if depth > 64 {
		return nil, fmt.Errorf("nesting too deep")
	}
	switch t.Kind {
	case KBool:
		v, err := d.intPayload(ty)
		return v != 0, err
	case KI8, KU8, KI16, KU16, KI32, KU32, KI64, KEnum:
		v, err := d.intPayload(ty)
		if err != nil {
			return nil, err
		}
		lo, hi := IntRange(t.Kind)
		if v < lo || v > hi {
			return nil, fmt.Errorf("value %d out of range for %v", v, t.Kind)
		}
		return v, nil
	case KF32:
		if ty == WZero {
			return float32(0), nil
		}
		if err := d.need(4); err != nil {
			return nil, err
		}
		v := math.Float32frombits(binary.BigEndian.Uint32(d.B[d.Pos:]))
		d.Pos += 4
		return v, nil
	case KF64:
		switch ty {
		case WZero:
			return float64(0), nil
		case WFloat:
			if err := d.need(4); err != nil {
				return nil, err
			}
			v := math.Float32frombits(binary.BigEndian.Uint32(d.B[d.Pos:]))
			d.Pos += 4
			return float64(v), nil
		}
		if err := d.need(8); err != nil {
			return nil, err
		}
		v := math.Float64frombits(binary.BigEndian.Uint64(d.B[d.Pos:]))
		d.Pos += 8
		return v, nil
	case KString:
		var n int
		if ty == WString1 {
			if err := d.need(1); err != nil {
				return nil, err
			}
			n = int(d.B[d.Pos])
			d.Pos++
		} else {
			if err := d.need(4); err != nil {
				return nil, err
			}
			u := binary.BigEndian.Uint32(d.B[d.Pos:])
			d.Pos += 4
			if uint64(u) > uint64(d.rem()) {
				return nil, ErrShort
			}
			n = int(u)
		}
		if err := d.need(n); err != nil {
			return nil, err
		}
		s := string(d.B[d.Pos : d.Pos+n])
		d.Pos += n
		return s, nil
	case KVector, KArray:
		var out []any
		if ty == WSimpleList {
			et, etag, err := d.Head()
			if err != nil {
				return nil, err
			}
			if et != WByte || etag != 0 {
				return nil, fmt.Errorf("simple list element head is type %d tag %d", et, etag)
			}
			n, err := d.length()
			if err != nil {
				return nil, err
			}
			if err := d.need(n); err != nil {
				return nil, err
			}
			out = make([]any, n)
			for i := 0; i < n; i++ {
				if t.Elem.Kind == KU8 {
					out[i] = int64(d.B[d.Pos+i])
				} else {
					out[i] = int64(int8(d.B[d.Pos+i]))
				}
			}
			d.Pos += n
		} else {
			n, err := d.length()
			if err != nil {
				return nil, err
			}
			if n > d.rem() {
				return nil, ErrShort
			}
			out = make([]any, 0, n)
			for i := 0; i < n; i++ {
				et, etag, err := d.Head()
				if err != nil {
					return nil, err
				}
				if etag != 0 {
					return nil, fmt.Errorf("list element has tag %d", etag)
				}
				v, err := d.Value(t.Elem, et, depth+1)
				if err != nil {
					return nil, err
				}
				out = append(out, v)
			}
		}
		if t.Kind == KArray {
			if len(out) > t.N {
				return nil, fmt.Errorf("array of %d carries %d elements", t.N, len(out))
			}
			for len(out) < t.N {
				out = append(out, Zero(t.Elem))
			}
		}
		return out, nil
	case KMap:
		n, err := d.length()
		if err != nil {
			return nil, err
		}
		if n > d.rem() {
			return nil, ErrShort
		}
		out := make([]KV, 0, n)
		for i := 0; i < n; i++ {
			kt, ktag, err := d.Head()
			if err != nil {
				return nil, err
			}
			if ktag != 0 {
				return nil, fmt.Errorf("map key has tag %d", ktag)
			}
			k, err := d.Value(t.Key, kt, depth+1)
			if err != nil {
				return nil, err
			}
			vt, vtag, err := d.Head()
			if err != nil {
				return nil, err
			}
			if vtag != 1 {
				return nil, fmt.Errorf("map value has tag %d", vtag)
			}
			v, err := d.Value(t.Elem, vt, depth+1)
			if err != nil {
				return nil, err
			}
			// later duplicates win, as in any map
			dup := false
			for j := range out {
				if Equal(t.Key, out[j].K, k) {
					out[j].V = v
					dup = true
					break
				}
			}
			if !dup {
				out = append(out, KV{k, v})
			}
		}
		return out, nil
	case KStruct:
		sv, err := d.StructBody(t.Struct, depth+1, true)
		if err != nil {
			return nil, err
		}
		return sv, nil
	}
	return nil, fmt.Errorf("bad kind")
}

// StructBody decodes members until the end of input (inBlock=false) or until and
// including the struct-end head (inBlock=true). Tags must be strictly ascending; unknown
// tags must be well-formed and are skipped (or rejected with RejectUnknown).
func (d *Dec) StructBody(st *Struct, depth int, inBlock bool) (*SV, error) {
	sv := &SV{St: st, Fields: make([]any, len(st.Fields))}
	seen := make([]bool, len(st.Fields))
	last := -1
	for {
		if !inBlock && d.rem() == 0 {
			break
		}
		ty, tag, err := d.Head()
		if err != nil {
			return nil, err
		}
		if ty == WStructEnd {
			if !inBlock {
				return nil, fmt.Errorf("struct end at top level")
			}
			break
		}
		if tag <= last {
			return nil, fmt.Errorf("struct %s: tag %d after tag %d (not ascending / duplicated)", st.Name, tag, last)
		}
		last = tag
		idx := -1
		for i, f := range st.Fields {
			if f.Tag == tag {
				idx = i
				break
			}
		}
		if idx < 0 {
			if d.RejectUnknown {
				return nil, fmt.Errorf("struct %s: undeclared tag %d", st.Name, tag)
			}
			d.Unknown++
			if err := d.Scan(ty, depth); err != nil {
				return nil, err
			}
			continue
		}
		f := st.Fields[idx]
		v, err := d.Value(f.Type, ty, depth)
		if err != nil {
			return nil, fmt.Errorf("%s.%s: %w", st.Name, f.Name, err)
		}
		sv.Fields[idx] = v
		seen[idx] = true
	}
	for i, f := range st.Fields {
		if seen[i] {
			continue
		}
		if f.Require {
			return nil, &MissingRequired{st.Name, f.Name, f.Tag}
		}
		sv.Fields[i] = FieldDefault(f)
	}
	if d.RejectNonNarrow && d.NonNarrow > 0 {
		return nil, fmt.Errorf("struct %s: %d integer(s) not in narrowest width", st.Name, d.NonNarrow)
	}
	return sv, nil
}

// DecodeStruct strictly decodes a whole struct body.
func DecodeStruct(st *Struct, b []byte) (*SV, *Dec, error) {
	d := &Dec{B: b}
	sv, err := d.StructBody(st, 0, false)
	return sv, d, err
}

// CompletePrefix returns the length of the longest prefix of b made only of complete,
// well-formed top-level fields (used by the lenient oracle of C06).
func CompletePrefix(b []byte) int {
	d := &Dec{B: b}
	for d.rem() > 0 {
		p := d.Pos
		ty, _, err := d.Head()
		if err != nil || ty == WStructEnd {
			return p
		}
		if err := d.Scan(ty, 0); err != nil {
			return p
		}
	}
	return d.Pos
}
