// Package refcodec is an independent reference implementation of the Tars wire format
// (engine E1): a schema model, generic values, a canonical encoder, a strict
// schema-directed decoder and a schema-free well-formedness scanner. It shares no code with
// github.com/TarsCloud/TarsGo/tars/protocol/codec; it is written from the format
// description:
//
//	head byte = (tag<<4)|type for tag<15, else 0xF0|type followed by one tag byte
//	types: 0 int8, 1 int16, 2 int32, 3 int64, 4 float, 5 double, 6 string1, 7 string4,
//	       8 map, 9 list, 10 struct begin, 11 struct end, 12 zero, 13 simple list
//	all payloads big-endian; integers use the narrowest of zero/1/2/4/8 bytes;
//	string1 has a 1-byte length (<=255), string4 a 4-byte length;
//	list  = head, int length (tag 0), elements (tag 0)
//	map   = head, int length (tag 0), (key tag 0, value tag 1)*
//	simple list = head, head(byte,0), int length (tag 0), raw bytes
//	struct = head(structbegin, tag), members in ascending tag order, head(structend, 0)
package refcodec

import (
	"fmt"
	"math"
	"sort"
)

type Kind int

const (
	KBool Kind = iota
	KI8
	KU8
	KI16
	KU16
	KI32
	KU32
	KI64
	KF32
	KF64
	KString
	KVector
	KMap
	KArray
	KEnum
	KStruct
)

var kindNames = []string{"bool", "byte", "unsigned byte", "short", "unsigned short", "int", "unsigned int", "long", "float", "double", "string", "vector", "map", "array", "enum", "struct"}

func (k Kind) String() string { return kindNames[k] }

// Wire types.
const (
	WByte = iota
	WShort
	WInt
	WLong
	WFloat
	WDouble
	WString1
	WString4
	WMap
	WList
	WStructBegin
	WStructEnd
	WZero
	WSimpleList
)

type Type struct {
	Kind   Kind
	Elem   *Type   // vector / array element, map value
	Key    *Type   // map key
	N      int     // array length
	Struct *Struct // struct
	Enum   *Enum   // enum
}

type Enum struct {
	Module string
	Name   string
	Names  []string
	Values []int32
}

type Field struct {
	Name    string // IDL name
	GoName  string // Go field name (first letter upper-cased)
	Tag     int
	Require bool
	Type    *Type
	// HasDefault: the IDL declares a default; Default then holds it (bool/int64/
	// float64/string). Without a declared default the implicit default is the zero value.
	HasDefault bool
	Default    any
	DefaultSrc string // IDL spelling of the default
}

type Struct struct {
	Module string
	Name   string
	Fields []*Field // ascending tag order
	// JSONOmitEmpty: the binding was generated with -json-omitempty (zero-valued members are
	// left out of the JSON form, which by the option's own definition does not round-trip
	// members whose default is not the zero value)
	JSONOmitEmpty bool
}

func (s *Struct) Sort() {
	sort.SliceStable(s.Fields, func(i, j int) bool { return s.Fields[i].Tag < s.Fields[j].Tag })
}

// ---------------------------------------------------------------------------------
// Generic values:
//   bool                      KBool
//   int64                     all integer kinds and enums
//   float32 / float64         KF32 / KF64
//   string                    KString
//   []any                     KVector (len any) / KArray (len N)
//   []KV                      KMap (ordered pairs; keys distinct)
//   *SV                       KStruct
// ---------------------------------------------------------------------------------

type KV struct{ K, V any }

type SV struct {
	St     *Struct
	Fields []any // parallel to St.Fields
}

// Zero returns the zero/empty value of a type (what an absent optional member without a
// declared default decodes to).
func Zero(t *Type) any {
	switch t.Kind {
	case KBool:
		return false
	case KI8, KU8, KI16, KU16, KI32, KU32, KI64, KEnum:
		return int64(0)
	case KF32:
		return float32(0)
	case KF64:
		return float64(0)
	case KString:
		return ""
	case KVector:
		return []any{}
	case KArray:
		out := make([]any, t.N)
		for i := range out {
			out[i] = Zero(t.Elem)
		}
		return out
	case KMap:
		return []KV{}
	case KStruct:
		return DefaultStruct(t.Struct)
	}
	panic("zero: bad kind")
}

// FieldDefault is the value an absent optional member takes.
func FieldDefault(f *Field) any {
	if f.HasDefault {
		return f.Default
	}
	return Zero(f.Type)
}

func DefaultStruct(st *Struct) *SV {
	sv := &SV{St: st, Fields: make([]any, len(st.Fields))}
	for i, f := range st.Fields {
		sv.Fields[i] = FieldDefault(f)
	}
	return sv
}

// IntRange returns the inclusive value range of an integer kind.
func IntRange(k Kind) (int64, int64) {
	switch k {
	case KI8:
		return math.MinInt8, math.MaxInt8
	case KU8:
		return 0, math.MaxUint8
	case KI16:
		return math.MinInt16, math.MaxInt16
	case KU16:
		return 0, math.MaxUint16
	case KI32, KEnum:
		return math.MinInt32, math.MaxInt32
	case KU32:
		return 0, math.MaxUint32
	case KI64:
		return math.MinInt64, math.MaxInt64
	}
	panic("IntRange: not an integer kind")
}

func IsInt(k Kind) bool {
	switch k {
	case KI8, KU8, KI16, KU16, KI32, KU32, KI64, KEnum:
		return true
	}
	return false
}

// IsByteVector: vector<byte> (signed) uses the simple-list form on the wire.
func IsSimpleList(t *Type) bool {
	return (t.Kind == KVector || t.Kind == KArray) && t.Elem.Kind == KI8
}

// Equal compares two generic values of type t; floats are compared by bits, map order is
// irrelevant.
func Equal(t *Type, a, b any) bool { return Diff(t, a, b, "") == "" }

// Diff returns "" when equal, otherwise a path-qualified description of the first
// difference.
func Diff(t *Type, a, b any, path string) string {
	switch t.Kind {
	case KBool:
		x, ok1 := a.(bool)
		y, ok2 := b.(bool)
		if !ok1 || !ok2 || x != y {
			return fmt.Sprintf("%s: %v != %v", path, a, b)
		}
	case KF32:
		x, ok1 := a.(float32)
		y, ok2 := b.(float32)
		if !ok1 || !ok2 || math.Float32bits(x) != math.Float32bits(y) {
			return fmt.Sprintf("%s: %v != %v (bits %08x/%08x)", path, a, b, math.Float32bits(x), math.Float32bits(y))
		}
	case KF64:
		x, ok1 := a.(float64)
		y, ok2 := b.(float64)
		if !ok1 || !ok2 || math.Float64bits(x) != math.Float64bits(y) {
			return fmt.Sprintf("%s: %v != %v", path, a, b)
		}
	case KString:
		x, ok1 := a.(string)
		y, ok2 := b.(string)
		if !ok1 || !ok2 || x != y {
			return fmt.Sprintf("%s: %.60q(len %d) != %.60q(len %d)", path, x, len(x), y, len(y))
		}
	case KVector, KArray:
		x, ok1 := a.([]any)
		y, ok2 := b.([]any)
		if !ok1 || !ok2 {
			return fmt.Sprintf("%s: not lists %T %T", path, a, b)
		}
		if len(x) != len(y) {
			return fmt.Sprintf("%s: length %d != %d", path, len(x), len(y))
		}
		for i := range x {
			if d := Diff(t.Elem, x[i], y[i], fmt.Sprintf("%s[%d]", path, i)); d != "" {
				return d
			}
		}
	case KMap:
		x, ok1 := a.([]KV)
		y, ok2 := b.([]KV)
		if !ok1 || !ok2 {
			return fmt.Sprintf("%s: not maps %T %T", path, a, b)
		}
		if len(x) != len(y) {
			return fmt.Sprintf("%s: map size %d != %d", path, len(x), len(y))
		}
		for _, kv := range x {
			found := false
			for _, kw := range y {
				if Equal(t.Key, kv.K, kw.K) {
					found = true
					if d := Diff(t.Elem, kv.V, kw.V, fmt.Sprintf("%s[%v]", path, kv.K)); d != "" {
						return d
					}
					break
				}
			}
			if !found {
				return fmt.Sprintf("%s: key %v missing", path, kv.K)
			}
		}
	case KStruct:
		x, ok1 := a.(*SV)
		y, ok2 := b.(*SV)
		if !ok1 || !ok2 || x == nil || y == nil {
			return fmt.Sprintf("%s: not structs %T %T", path, a, b)
		}
		for i, f := range t.Struct.Fields {
			if d := Diff(f.Type, x.Fields[i], y.Fields[i], path+"."+f.Name); d != "" {
				return d
			}
		}
	default: // integers
		x, ok1 := a.(int64)
		y, ok2 := b.(int64)
		if !ok1 || !ok2 || x != y {
			return fmt.Sprintf("%s: %v != %v", path, a, b)
		}
	}
	return ""
}

// IsDefault reports whether v equals the member's default (and so is omitted when the
// member is optional). Only scalars and strings are omitted by value; containers are
// omitted when empty; structs, enums and fixed arrays are always written.
func OmittedWhenOptional(f *Field, v any) bool {
	switch f.Type.Kind {
	case KStruct, KEnum, KArray:
		return false
	case KVector:
		return len(v.([]any)) == 0
	case KMap:
		return len(v.([]KV)) == 0
	}
	return Equal(f.Type, v, FieldDefault(f))
}

// SortMaps returns v with every map's entries ordered by the reference encoding of the
// key, so that two equal values have identical reference encodings.
func SortMaps(t *Type, v any) any {
	switch t.Kind {
	case KVector, KArray:
		l := v.([]any)
		out := make([]any, len(l))
		for i := range l {
			out[i] = SortMaps(t.Elem, l[i])
		}
		return out
	case KMap:
		m := v.([]KV)
		out := make([]KV, len(m))
		keys := make([]string, len(m))
		idx := make([]int, len(m))
		for i, kv := range m {
			var e Enc
			e.Value(t.Key, kv.K, 0)
			keys[i] = string(e.Buf)
			idx[i] = i
		}
		sort.SliceStable(idx, func(a, b int) bool { return keys[idx[a]] < keys[idx[b]] })
		for i, j := range idx {
			out[i] = KV{m[j].K, SortMaps(t.Elem, m[j].V)}
		}
		return out
	case KStruct:
		sv := v.(*SV)
		out := &SV{St: sv.St, Fields: make([]any, len(sv.Fields))}
		for i, f := range sv.St.Fields {
			out.Fields[i] = SortMaps(f.Type, sv.Fields[i])
		}
		return out
	}
	return v
}

// CanonBytes is the canonical (all members written, maps sorted) encoding of v under tag 0.
func CanonBytes(t *Type, v any) []byte {
	e := Enc{KeepDefaults: true}
	e.Value(t, SortMaps(t, v), 0)
	return e.Buf
}

// DecodeOne decodes a single field of type t (any tag) from b.
func DecodeOne(t *Type, b []byte) (any, error) {
	d := &Dec{B: b}
	ty, _, err := d.Head()
	if err != nil {
		return nil, err
	}
	v, err := d.Value(t, ty, 0)
	if err != nil {
		return nil, err
	}
	if d.Pos != len(b) {
		return nil, fmt.Errorf("%d trailing bytes", len(b)-d.Pos)
	}
	return v, nil
}
