package refcodec

import (
	"fmt"
	"reflect"
)

// Bridging between generic values and the Go structs emitted by tars2go (by reflection
// over field names; the schema comes from the IDL model, not from the generated code).

// ToGo stores generic value v of schema type t into dst (settable). nilEmpty: store empty
// containers as nil slices/maps instead of allocated empty ones.
func ToGo(t *Type, v any, dst reflect.Value, nilEmpty bool) error {
	switch t.Kind {
	case KBool:
		if dst.Kind() != reflect.Bool {
			return fmt.Errorf("go type %v for bool", dst.Type())
		}
		dst.SetBool(v.(bool))
	case KI8, KI16, KI32, KI64, KEnum:
		if dst.Kind() < reflect.Int || dst.Kind() > reflect.Int64 {
			return fmt.Errorf("go type %v for %v", dst.Type(), t.Kind)
		}
		dst.SetInt(v.(int64))
		if dst.Int() != v.(int64) {
			return fmt.Errorf("go type %v cannot hold %d", dst.Type(), v)
		}
	case KU8, KU16, KU32:
		if dst.Kind() < reflect.Uint || dst.Kind() > reflect.Uint64 {
			return fmt.Errorf("go type %v for %v", dst.Type(), t.Kind)
		}
		dst.SetUint(uint64(v.(int64)))
		if dst.Uint() != uint64(v.(int64)) {
			return fmt.Errorf("go type %v cannot hold %d", dst.Type(), v)
		}
	case KF32:
		if dst.Kind() != reflect.Float32 {
			return fmt.Errorf("go type %v for float", dst.Type())
		}
		// SetFloat(float64(f32)) preserves NaN payloads? Not guaranteed for signalling
		// NaNs, so go through the bits.
		f := v.(float32)
		*(dst.Addr().Interface().(*float32)) = f
	case KF64:
		if dst.Kind() != reflect.Float64 {
			return fmt.Errorf("go type %v for double", dst.Type())
		}
		*(dst.Addr().Interface().(*float64)) = v.(float64)
	case KString:
		if dst.Kind() != reflect.String {
			return fmt.Errorf("go type %v for string", dst.Type())
		}
		dst.SetString(v.(string))
	case KVector:
		if dst.Kind() != reflect.Slice {
			return fmt.Errorf("go type %v for vector", dst.Type())
		}
		l := v.([]any)
		if len(l) == 0 && nilEmpty {
			dst.Set(reflect.Zero(dst.Type()))
			return nil
		}
		s := reflect.MakeSlice(dst.Type(), len(l), len(l))
		for i, x := range l {
			if err := ToGo(t.Elem, x, s.Index(i), nilEmpty); err != nil {
				return err
			}
		}
		dst.Set(s)
	case KArray:
		if dst.Kind() != reflect.Array || dst.Len() != t.N {
			return fmt.Errorf("go type %v for array[%d]", dst.Type(), t.N)
		}
		l := v.([]any)
		for i, x := range l {
			if err := ToGo(t.Elem, x, dst.Index(i), nilEmpty); err != nil {
				return err
			}
		}
	case KMap:
		if dst.Kind() != reflect.Map {
			return fmt.Errorf("go type %v for map", dst.Type())
		}
		m := v.([]KV)
		if len(m) == 0 && nilEmpty {
			dst.Set(reflect.Zero(dst.Type()))
			return nil
		}
		mm := reflect.MakeMapWithSize(dst.Type(), len(m))
		for _, kv := range m {
			k := reflect.New(dst.Type().Key()).Elem()
			if err := ToGo(t.Key, kv.K, k, nilEmpty); err != nil {
				return err
			}
			e := reflect.New(dst.Type().Elem()).Elem()
			if err := ToGo(t.Elem, kv.V, e, nilEmpty); err != nil {
				return err
			}
			mm.SetMapIndex(k, e)
		}
		dst.Set(mm)
	case KStruct:
		if dst.Kind() != reflect.Struct {
			return fmt.Errorf("go type %v for struct %s", dst.Type(), t.Struct.Name)
		}
		sv := v.(*SV)
		for i, f := range t.Struct.Fields {
			fv := dst.FieldByName(f.GoName)
			if !fv.IsValid() {
				return fmt.Errorf("generated struct %v has no field %s (IDL member %s)", dst.Type(), f.GoName, f.Name)
			}
			if err := ToGo(f.Type, sv.Fields[i], fv, nilEmpty); err != nil {
				return fmt.Errorf("%s.%s: %w", t.Struct.Name, f.Name, err)
			}
		}
	default:
		return fmt.Errorf("bad kind")
	}
	return nil
}

// FromGo reads a generic value out of a Go value (nil containers become empty ones).
func FromGo(t *Type, src reflect.Value) (any, error) {
	switch t.Kind {
	case KBool:
		if src.Kind() != reflect.Bool {
			return nil, fmt.Errorf("go type %v for bool", src.Type())
		}
		return src.Bool(), nil
	case KI8, KI16, KI32, KI64, KEnum:
		if src.Kind() < reflect.Int || src.Kind() > reflect.Int64 {
			return nil, fmt.Errorf("go type %v for %v", src.Type(), t.Kind)
		}
		return src.Int(), nil
	case KU8, KU16, KU32:
		if src.Kind() < reflect.Uint || src.Kind() > reflect.Uint64 {
			return nil, fmt.Errorf("go type %v for %v", src.Type(), t.Kind)
		}
		return int64(src.Uint()), nil
	case KF32:
		if src.Kind() != reflect.Float32 {
			return nil, fmt.Errorf("go type %v for float", src.Type())
		}
		if src.CanAddr() {
			return *(src.Addr().Interface().(*float32)), nil
		}
		return src.Interface().(float32), nil
	case KF64:
		if src.Kind() != reflect.Float64 {
			return nil, fmt.Errorf("go type %v for double", src.Type())
		}
		return src.Float(), nil
	case KString:
		if src.Kind() != reflect.String {
			return nil, fmt.Errorf("go type %v for string", src.Type())
		}
		return src.String(), nil
	case KVector, KArray:
		if src.Kind() != reflect.Slice && src.Kind() != reflect.Array {
			return nil, fmt.Errorf("go type %v for vector/array", src.Type())
		}
		out := make([]any, src.Len())
		for i := range out {
			v, err := FromGo(t.Elem, src.Index(i))
			if err != nil {
				return nil, err
			}
			out[i] = v
		}
		return out, nil
	case KMap:
		if src.Kind() != reflect.Map {
			return nil, fmt.Errorf("go type %v for map", src.Type())
		}
		out := make([]KV, 0, src.Len())
		it := src.MapRange()
		for it.Next() {
			k, err := FromGo(t.Key, it.Key())
			if err != nil {
				return nil, err
			}
			v, err := FromGo(t.Elem, it.Value())
			if err != nil {
				return nil, err
			}
			out = append(out, KV{k, v})
		}
		return out, nil
	case KStruct:
		if src.Kind() != reflect.Struct {
			return nil, fmt.Errorf("go type %v for struct", src.Type())
		}
		sv := &SV{St: t.Struct, Fields: make([]any, len(t.Struct.Fields))}
		for i, f := range t.Struct.Fields {
			fv := src.FieldByName(f.GoName)
			if !fv.IsValid() {
				return nil, fmt.Errorf("generated struct %v has no field %s", src.Type(), f.GoName)
			}
			v, err := FromGo(f.Type, fv)
			if err != nil {
				return nil, fmt.Errorf("%s.%s: %w", t.Struct.Name, f.Name, err)
			}
			sv.Fields[i] = v
		}
		return sv, nil
	}
	return nil, fmt.Errorf("bad kind")
}

// CheckTags compares the `tars:"name,tag:N,require:B"` struct tags and Go field types of
// a generated struct with the schema (C16: generated definitions equal the model).
func CheckTags(st *Struct, rt reflect.Type) error {
	if rt.Kind() != reflect.Struct {
		return fmt.Errorf("%v is not a struct", rt)
	}
	if rt.NumField() != len(st.Fields) {
		return fmt.Errorf("%v has %d fields, IDL struct %s has %d members", rt, rt.NumField(), st.Name, len(st.Fields))
	}
	for _, f := range st.Fields {
		sf, ok := rt.FieldByName(f.GoName)
		if !ok {
			return fmt.Errorf("%v: no field %s", rt, f.GoName)
		}
		want := fmt.Sprintf("%s,tag:%d,require:%v", f.Name, f.Tag, f.Require)
		if got := sf.Tag.Get("tars"); got != want {
			return fmt.Errorf("%v.%s: tars tag %q, model says %q", rt, f.GoName, got, want)
		}
		if err := checkGoType(f.Type, sf.Type); err != nil {
			return fmt.Errorf("%v.%s: %w", rt, f.GoName, err)
		}
	}
	return nil
}

func checkGoType(t *Type, rt reflect.Type) error {
	want := map[Kind]reflect.Kind{KBool: reflect.Bool, KI8: reflect.Int8, KU8: reflect.Uint8, KI16: reflect.Int16, KU16: reflect.Uint16,
		KI32: reflect.Int32, KU32: reflect.Uint32, KI64: reflect.Int64, KF32: reflect.Float32, KF64: reflect.Float64, KString: reflect.String,
		KVector: reflect.Slice, KArray: reflect.Array, KMap: reflect.Map, KEnum: reflect.Int32, KStruct: reflect.Struct}[t.Kind]
	if rt.Kind() != want {
		return fmt.Errorf("go kind %v, IDL type %v wants %v", rt.Kind(), t.Kind, want)
	}
	switch t.Kind {
	case KVector:
		return checkGoType(t.Elem, rt.Elem())
	case KArray:
		if rt.Len() != t.N {
			return fmt.Errorf("array length %d != %d", rt.Len(), t.N)
		}
		return checkGoType(t.Elem, rt.Elem())
	case KMap:
		if err := checkGoType(t.Key, rt.Key()); err != nil {
			return err
		}
		return checkGoType(t.Elem, rt.Elem())
	case KStruct:
		if rt.Name() != UpperFirst(t.Struct.Name) {
			return fmt.Errorf("struct type %s != %s", rt.Name(), UpperFirst(t.Struct.Name))
		}
	case KEnum:
		if rt.Name() != UpperFirst(t.Enum.Name) {
			return fmt.Errorf("enum type %s != %s", rt.Name(), UpperFirst(t.Enum.Name))
		}
	}
	return nil
}
