package refcodec

import (
	"math"

	"pgregory.net/rapid"
)

// Value generators (boundary-dense) for schema types, and a schema-free generator of
// arbitrary well-formed fields (for the unknown-field splicing of C04/C05).

// Limits bounds generated sizes.
type Limits struct {
	MaxStr   int  // maximum "ordinary" string length
	MaxElems int  // maximum container size
	BigStr   bool // allow the occasional 256..70000 byte string
	ASCII    bool // printable ASCII strings only (JSON-representable)
	Finite   bool // finite floats only (JSON-representable)
	Huge     bool // most strings are 70000..700000 bytes (bulk transfers)
}

var DefaultLimits = Limits{MaxStr: 40, MaxElems: 5, BigStr: true}

func drawIntKind(rt *rapid.T, k Kind, label string) int64 {
	lo, hi := IntRange(k)
	mode := rapid.IntRange(0, 3).Draw(rt, label+".mode")
	switch mode {
	case 0:
		return rapid.Int64Range(lo, hi).Draw(rt, label)
	case 1: // small
		l, h := int64(-3), int64(3)
		if l < lo {
			l = lo
		}
		return rapid.Int64Range(l, h).Draw(rt, label)
	default: // boundaries of every width that fit
		cands := []int64{0, 1, -1, 127, 128, -128, -129, 255, 256, 32767, 32768, -32768, -32769, 65535, 65536,
			math.MaxInt32, math.MaxInt32 + 1, math.MinInt32, math.MinInt32 - 1, math.MaxUint32, math.MaxInt64, math.MinInt64, lo, hi}
		var ok []int64
		for _, c := range cands {
			if c >= lo && c <= hi {
				ok = append(ok, c)
			}
		}
		return rapid.SampledFrom(ok).Draw(rt, label)
	}
}

func drawString(rt *rapid.T, lim Limits, label string) string {
	mode := rapid.IntRange(0, 9).Draw(rt, label+".mode")
	var n int
	switch {
	case lim.Huge && mode >= 3:
		n = rapid.SampledFrom([]int{70000, 200000, 700000}).Draw(rt, label+".len")
	case mode <= 5:
		n = rapid.IntRange(0, lim.MaxStr).Draw(rt, label+".len")
	case mode <= 7:
		n = rapid.IntRange(0, 3).Draw(rt, label+".len")
	case mode == 8 || !lim.BigStr:
		n = rapid.SampledFrom([]int{254, 255, 256, 257}).Draw(rt, label+".len")
		if !lim.BigStr {
			n = lim.MaxStr
		}
	default:
		n = rapid.SampledFrom([]int{300, 4096, 65535, 65536, 70000}).Draw(rt, label+".len")
	}
	if n > 64 {
		fill := rapid.Byte().Draw(rt, label+".fill")
		b := make([]byte, n)
		for i := range b {
			b[i] = fill + byte(i)
			if lim.ASCII {
				b[i] = 32 + (fill+byte(i))%95
			}
		}
		return string(b)
	}
	if lim.ASCII || rapid.Bool().Draw(rt, label+".ascii") {
		return rapid.StringOfN(rapid.RuneFrom([]rune("abcXYZ019 _-=&<>/\"'{}")), n, n, -1).Draw(rt, label)
	}
	return string(rapid.SliceOfN(rapid.Byte(), n, n).Draw(rt, label))
}

// DrawValue draws a value of type t.
func DrawValue(rt *rapid.T, t *Type, lim Limits, depth int, label string) any {
	switch t.Kind {
	case KBool:
		return rapid.Bool().Draw(rt, label)
	case KI8, KU8, KI16, KU16, KI32, KU32, KI64:
		return drawIntKind(rt, t.Kind, label)
	case KEnum:
		if len(t.Enum.Values) > 0 && rapid.IntRange(0, 3).Draw(rt, label+".declared") > 0 {
			return int64(rapid.SampledFrom(t.Enum.Values).Draw(rt, label))
		}
		return drawIntKind(rt, KI32, label)
	case KF32:
		bits := rapid.OneOf(rapid.Uint32(), rapid.SampledFrom([]uint32{0, 0x80000000, 0x7f800000, 0xff800000, 0x7fc00000, 0x7fc00001, 0x3f800000, 0xbf800000, 1, 0x7f7fffff})).Draw(rt, label)
		if f := math.Float32frombits(bits); lim.Finite && (f != f || math.IsInf(float64(f), 0)) {
			return float32(1.5)
		}
		return math.Float32frombits(bits)
	case KF64:
		bits := rapid.OneOf(rapid.Uint64(), rapid.SampledFrom([]uint64{0, 1 << 63, 0x7ff0000000000000, 0xfff0000000000000, 0x7ff8000000000000, 0x7ff8000000000001, 0x3ff0000000000000, 0xbff0000000000000, 1, 0x7fefffffffffffff})).Draw(rt, label)
		if f := math.Float64frombits(bits); lim.Finite && (f != f || math.IsInf(f, 0)) {
			return float64(-2.25)
		}
		return math.Float64frombits(bits)
	case KString:
		return drawString(rt, lim, label)
	case KVector:
		max := lim.MaxElems
		if depth >= 3 {
			max = 2
		}
		n := rapid.IntRange(0, max).Draw(rt, label+".n")
		if IsSimpleList(t) || t.Elem.Kind == KU8 {
			// byte vectors: occasionally long
			if rapid.IntRange(0, 9).Draw(rt, label+".long") == 0 {
				n = rapid.SampledFrom([]int{127, 128, 255, 256, 300, 5000}).Draw(rt, label+".nlong")
			}
		}
		out := make([]any, n)
		if n > 16 {
			lo, hi := IntRange(t.Elem.Kind)
			seed := rapid.Int64Range(lo, hi).Draw(rt, label+".seed")
			span := hi - lo + 1
			for i := range out {
				out[i] = lo + ((seed-lo)+int64(i)*7)%span
			}
			return out
		}
		for i := range out {
			out[i] = DrawValue(rt, t.Elem, lim, depth+1, label+"[]")
		}
		return out
	case KArray:
		out := make([]any, t.N)
		for i := range out {
			out[i] = DrawValue(rt, t.Elem, lim, depth+1, label+"[]")
		}
		return out
	case KMap:
		max := lim.MaxElems
		if depth >= 3 {
			max = 2
		}
		n := rapid.IntRange(0, max).Draw(rt, label+".n")
		out := make([]KV, 0, n)
		for i := 0; i < n; i++ {
			k := DrawValue(rt, t.Key, Limits{MaxStr: 8, MaxElems: 2, ASCII: lim.ASCII, Finite: lim.Finite}, depth+1, label+".k")
			dup := false
			for _, kv := range out {
				if Equal(t.Key, kv.K, k) {
					dup = true
				}
			}
			if dup {
				continue
			}
			out = append(out, KV{k, DrawValue(rt, t.Elem, lim, depth+1, label+".v")})
		}
		return out
	case KStruct:
		return DrawStruct(rt, t.Struct, lim, depth+1, label)
	}
	panic("DrawValue: bad kind")
}

// DrawStruct draws a struct value; each optional member is left at its default with
// probability ~1/3.
func DrawStruct(rt *rapid.T, st *Struct, lim Limits, depth int, label string) *SV {
	sv := &SV{St: st, Fields: make([]any, len(st.Fields))}
	for i, f := range st.Fields {
		if !f.Require && rapid.IntRange(0, 2).Draw(rt, label+"."+f.Name+".atdefault") == 0 {
			sv.Fields[i] = FieldDefault(f)
			continue
		}
		sv.Fields[i] = DrawValue(rt, f.Type, lim, depth, label+"."+f.Name)
	}
	Canon(sv)
	return sv
}

// Canon normalises values that the encoding cannot distinguish by design: an optional
// float member numerically equal to its default (e.g. -0 with default 0) is omitted on the
// wire and therefore reads back as the default.
func Canon(sv *SV) {
	for i, f := range sv.St.Fields {
		switch f.Type.Kind {
		case KF32:
			if !f.Require {
				d := FieldDefault(f).(float32)
				if sv.Fields[i].(float32) == d {
					sv.Fields[i] = d
				}
			}
		case KF64:
			if !f.Require {
				d := FieldDefault(f).(float64)
				if sv.Fields[i].(float64) == d {
					sv.Fields[i] = d
				}
			}
		case KStruct:
			Canon(sv.Fields[i].(*SV))
		case KVector, KArray:
			if f.Type.Elem.Kind == KStruct {
				for _, x := range sv.Fields[i].([]any) {
					Canon(x.(*SV))
				}
			}
		case KMap:
			if f.Type.Elem.Kind == KStruct {
				for _, kv := range sv.Fields[i].([]KV) {
					Canon(kv.V.(*SV))
				}
			}
		}
	}
}

// Stats about a struct value used for non-trivial rules.
type ValueShape struct {
	NonEmptyContainers int
	NestedStructs      int
	OptAway, OptAtDef  int
}

func Shape(sv *SV) ValueShape {
	var s ValueShape
	for i, f := range sv.St.Fields {
		v := sv.Fields[i]
		switch f.Type.Kind {
		case KVector, KArray:
			if len(v.([]any)) > 0 {
				s.NonEmptyContainers++
			}
		case KMap:
			if len(v.([]KV)) > 0 {
				s.NonEmptyContainers++
			}
		case KStruct:
			s.NestedStructs++
		}
		if !f.Require {
			if Equal(f.Type, v, FieldDefault(f)) {
				s.OptAtDef++
			} else {
				s.OptAway++
			}
		}
	}
	return s
}

// ---------------------------------------------------------------------------------
// Schema-free well-formed field generator.

// DrawField appends one well-formed field with the given tag and a generated wire type /
// content to e. compound reports whether the field is of a compound type (MAP / LIST /
// STRUCT / SimpleList / STRING4) or carries an extended tag.
func DrawField(rt *rapid.T, e *Enc, tag int, depth int, label string) (compound bool) {
	types := []int{WZero, WByte, WShort, WInt, WLong, WFloat, WDouble, WString1, WString4, WMap, WList, WStructBegin, WSimpleList}
	if depth >= 5 {
		types = types[:9]
	}
	ty := rapid.SampledFrom(types).Draw(rt, label+".ty")
	return DrawFieldOfType(rt, e, ty, tag, depth, label)
}

// DrawFieldOfType is DrawField with the wire type chosen by the caller.
func DrawFieldOfType(rt *rapid.T, e *Enc, ty int, tag int, depth int, label string) (compound bool) {
	compound = tag >= 15
	switch ty {
	case WZero:
		e.Head(WZero, tag)
	case WByte:
		e.Head(WByte, tag)
		e.Buf = append(e.Buf, rapid.Byte().Draw(rt, label+".b"))
	case WShort:
		e.Head(WShort, tag)
		e.u16(rapid.Uint16().Draw(rt, label+".s"))
	case WInt:
		e.Head(WInt, tag)
		e.u32(rapid.Uint32().Draw(rt, label+".i"))
	case WLong:
		e.Head(WLong, tag)
		e.u64(rapid.Uint64().Draw(rt, label+".l"))
	case WFloat:
		e.Head(WFloat, tag)
		e.u32(rapid.Uint32().Draw(rt, label+".f"))
	case WDouble:
		e.Head(WDouble, tag)
		e.u64(rapid.Uint64().Draw(rt, label+".d"))
	case WString1:
		n := rapid.SampledFrom([]int{0, 1, 2, 11, 12, 13, 255}).Draw(rt, label+".n")
		e.Head(WString1, tag)
		o := len(e.Buf)
		e.Buf = append(e.Buf, byte(n))
		e.site(o, 0)
		e.Buf = append(e.Buf, fillBytes(rt, n, label)...)
	case WString4:
		compound = true
		n := rapid.SampledFrom([]int{0, 1, 255, 256, 300, 70000}).Draw(rt, label+".n")
		e.Head(WString4, tag)
		o := len(e.Buf)
		e.u32(uint32(n))
		e.site(o, 1)
		e.Buf = append(e.Buf, fillBytes(rt, n, label)...)
	case WSimpleList:
		compound = true
		n := rapid.SampledFrom([]int{0, 1, 10, 11, 12, 127, 128, 255, 256, 40000}).Draw(rt, label+".n")
		e.Bytes(fillBytes(rt, n, label), tag)
	case WList:
		compound = true
		n := rapid.IntRange(0, 3).Draw(rt, label+".n")
		if depth <= 1 && rapid.IntRange(0, 11).Draw(rt, label+".bulk") == 0 {
			// a long list of small structs: flat, well-formed, but more nested fields in one
			// message than any nesting bound a skipper may keep
			n = rapid.SampledFrom([]int{1025, 1100, 2100}).Draw(rt, label+".bulkn")
			withMember := rapid.Bool().Draw(rt, label+".bulkm")
			e.Head(WList, tag)
			o := len(e.Buf)
			e.Int(int64(n), 0)
			e.site(o, 2)
			for i := 0; i < n; i++ {
				e.Head(WStructBegin, 0)
				if withMember {
					e.Head(WByte, 1)
					e.Buf = append(e.Buf, byte(i))
				}
				e.Head(WStructEnd, 0)
			}
			return
		}
		e.Head(WList, tag)
		o := len(e.Buf)
		e.Int(int64(n), 0)
		e.site(o, 2)
		for i := 0; i < n; i++ {
			DrawField(rt, e, 0, depth+1, label+"[]")
		}
	case WMap:
		compound = true
		n := rapid.IntRange(0, 3).Draw(rt, label+".n")
		e.Head(WMap, tag)
		o := len(e.Buf)
		e.Int(int64(n), 0)
		e.site(o, 2)
		for i := 0; i < n; i++ {
			DrawField(rt, e, 0, depth+1, label+".k")
			DrawField(rt, e, 1, depth+1, label+".v")
		}
	case WStructBegin:
		compound = true
		e.Head(WStructBegin, tag)
		n := rapid.IntRange(0, 3).Draw(rt, label+".n")
		t := 0
		for i := 0; i < n; i++ {
			t += rapid.IntRange(0, 90).Draw(rt, label+".tagstep")
			if t > 255 {
				break
			}
			DrawField(rt, e, t, depth+1, label+".m")
			t++
		}
		e.Head(WStructEnd, 0)
	}
	return
}

// fillBytes makes n bytes; content biased towards bytes that look like field heads
// (0x0A struct begin, 0x0B struct end, 0x09 list, ...) so that a mis-sized skip lands on
// plausible heads.
func fillBytes(rt *rapid.T, n int, label string) []byte {
	if n == 0 {
		return nil
	}
	pat := rapid.SliceOfN(rapid.OneOf(rapid.Byte(), rapid.SampledFrom([]byte{0x0A, 0x0B, 0x09, 0x08, 0x0D, 0x06, 0x0C, 0xF0, 0x1C, 0x2C})), 1, 6).Draw(rt, label+".pat")
	b := make([]byte, n)
	for i := range b {
		b[i] = pat[i%len(pat)]
	}
	return b
}
