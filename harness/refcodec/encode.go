package refcodec

import (
	"encoding/binary"
	"fmt"
	"math"
)

// Enc is the reference encoder. The zero value encodes canonically; the option fields
// select legal-but-non-canonical variants used for reverse differentials.
type Enc struct {
	Buf []byte
	// KeepDefaults: write optional members even when they equal their default.
	KeepDefaults bool
	// ListForBytes: encode vector<byte> as LIST of int8 elements instead of simple list.
	ListForBytes bool
	// SimpleForU8: encode vector<unsigned byte> in the simple-list form (legal for a reader,
	// which accepts both forms; the framework's own writer uses the LIST form).
	SimpleForU8 bool
	// Widen: encode integers one width wider than necessary where the schema type admits
	// it (still legal for a reader of the declared type).
	Widen bool
	// RecordSites: remember where embedded lengths/counts are written (for C06 inflation).
	RecordSites bool
	Sites       []LenSite
	// Replace, when set, is consulted at every Value call (pre-order index idx); when it
	// returns true it has written a replacement field itself.
	Replace func(e *Enc, idx int, t *Type, tag int) bool
	nvalues int
	// OmitSite n > 0: the n-th member that StructBody would write (pre-order over the whole
	// encoding, all nesting depths) is left out. RecordMembers lists those sites.
	OmitSite      int
	RecordMembers bool
	Members       []MemberSite
	nmember       int
	sdepth        int
}

// MemberSite is one member written by StructBody: Depth 1 = the outermost body.
type MemberSite struct {
	Struct string
	Field  *Field
	Depth  int
	Last   bool // last member written in its struct body
}

// LenSite is the byte range of one embedded length: Kind 0 = string1 length byte,
// 1 = string4 length word, 2 = "tag-0 int" length/count field (head included).
type LenSite struct {
	Off, End, Kind int
}

func (e *Enc) site(off, kind int) {
	if e.RecordSites {
		e.Sites = append(e.Sites, LenSite{off, len(e.Buf), kind})
	}
}

// NValues is the number of Value calls so far (size of the pre-order index space).
func (e *Enc) NValues() int { return e.nvalues }

func (e *Enc) Head(ty int, tag int) {
	if tag < 15 {
		e.Buf = append(e.Buf, byte(tag<<4)|byte(ty))
	} else {
		e.Buf = append(e.Buf, 0xF0|byte(ty), byte(tag))
	}
}

func (e *Enc) u16(v uint16) { e.Buf = binary.BigEndian.AppendUint16(e.Buf, v) }
func (e *Enc) u32(v uint32) { e.Buf = binary.BigEndian.AppendUint32(e.Buf, v) }
func (e *Enc) u64(v uint64) { e.Buf = binary.BigEndian.AppendUint64(e.Buf, v) }

// maxWidth: widest wire integer type a reader of kind k accepts.
func maxWidth(k Kind) int {
	switch k {
	case KBool, KI8:
		return WByte
	case KU8, KI16:
		return WShort
	case KU16, KI32, KEnum:
		return WInt
	default:
		return WLong
	}
}

// Int writes integer v in the narrowest width (zero marker for 0).
func (e *Enc) Int(v int64, tag int) { e.IntW(v, tag, WLong, false) }

func (e *Enc) IntW(v int64, tag int, maxW int, widen bool) {
	w := WLong
	switch {
	case v == 0:
		w = WZero
	case v >= math.MinInt8 && v <= math.MaxInt8:
		w = WByte
	case v >= math.MinInt16 && v <= math.MaxInt16:
		w = WShort
	case v >= math.MinInt32 && v <= math.MaxInt32:
		w = WInt
	}
	if widen {
		switch {
		case w == WZero:
			w = WByte
		case w < maxW:
			w++
		}
	}
	e.Head(w, tag)
	switch w {
	case WByte:
		e.Buf = append(e.Buf, byte(v))
	case WShort:
		e.u16(uint16(v))
	case WInt:
		e.u32(uint32(v))
	case WLong:
		e.u64(uint64(v))
	}
}

func (e *Enc) F32(v float32, tag int) { e.Head(WFloat, tag); e.u32(math.Float32bits(v)) }
func (e *Enc) F64(v float64, tag int) { e.Head(WDouble, tag); e.u64(math.Float64bits(v)) }

func (e *Enc) Str(s string, tag int) {
	if len(s) > 255 {
		e.Head(WString4, tag)
		o := len(e.Buf)
		e.u32(uint32(len(s)))
		e.site(o, 1)
	} else {
		e.Head(WString1, tag)
		o := len(e.Buf)
		e.Buf = append(e.Buf, byte(len(s)))
		e.site(o, 0)
	}
	e.Buf = append(e.Buf, s...)
}

// Bytes writes a simple list.
func (e *Enc) Bytes(b []byte, tag int) {
	e.Head(WSimpleList, tag)
	e.Head(WByte, 0)
	o := len(e.Buf)
	e.Int(int64(len(b)), 0)
	e.site(o, 2)
	e.Buf = append(e.Buf, b...)
}

// Value encodes v of type t under tag (always written: "require" semantics).
func (e *Enc) Value(t *Type, v any, tag int) {
	idx := e.nvalues
	e.nvalues++
	if e.Replace != nil && e.Replace(e, idx, t, tag) {
		return
	}
	switch t.Kind {
	case KBool:
		if v.(bool) {
			e.IntW(1, tag, WByte, e.Widen)
		} else {
			e.IntW(0, tag, WByte, e.Widen)
		}
	case KI8, KU8, KI16, KU16, KI32, KU32, KI64, KEnum:
		e.IntW(v.(int64), tag, maxWidth(t.Kind), e.Widen)
	case KF32:
		e.F32(v.(float32), tag)
	case KF64:
		e.F64(v.(float64), tag)
	case KString:
		e.Str(v.(string), tag)
	case KVector, KArray:
		l := v.([]any)
		if (IsSimpleList(t) && !e.ListForBytes) || (e.SimpleForU8 && t.Elem.Kind == KU8) {
			b := make([]byte, len(l))
			for i, x := range l {
				b[i] = byte(x.(int64))
			}
			e.Bytes(b, tag)
			return
		}
		e.Head(WList, tag)
		o := len(e.Buf)
		e.Int(int64(len(l)), 0)
		e.site(o, 2)
		for _, x := range l {
			e.Value(t.Elem, x, 0)
		}
	case KMap:
		m := v.([]KV)
		e.Head(WMap, tag)
		o := len(e.Buf)
		e.Int(int64(len(m)), 0)
		e.site(o, 2)
		for _, kv := range m {
			e.Value(t.Key, kv.K, 0)
			e.Value(t.Elem, kv.V, 1)
		}
	case KStruct:
		e.Head(WStructBegin, tag)
		e.StructBody(v.(*SV))
		e.Head(WStructEnd, 0)
	default:
		panic(fmt.Sprintf("encode: bad kind %d", t.Kind))
	}
}

// StructBody encodes the members of sv (what the generated WriteTo produces).
func (e *Enc) StructBody(sv *SV) {
	e.sdepth++
	last := -1
	for i, f := range sv.St.Fields {
		v := sv.Fields[i]
		if !f.Require && !e.KeepDefaults && OmittedWhenOptional(f, v) {
			continue
		}
		e.nmember++
		if e.RecordMembers {
			e.Members = append(e.Members, MemberSite{Struct: sv.St.Name, Field: f, Depth: e.sdepth})
			last = len(e.Members) - 1
		}
		if e.nmember == e.OmitSite {
			continue
		}
		e.Value(f.Type, v, f.Tag)
	}
	if last >= 0 {
		e.Members[last].Last = true
	}
	e.sdepth--
}

// EncodeStruct returns the canonical body encoding of sv.
func EncodeStruct(sv *SV) []byte {
	var e Enc
	e.StructBody(sv)
	return e.Buf
}

// FieldSpan describes one member of an encoded struct body (for the mutation engines).
type FieldSpan struct {
	Index      int // index in St.Fields
	Start, End int // byte range of the whole field incl. head
}

// StructBodySpans encodes like StructBody and reports the byte span of every written
// top-level member.
func (e *Enc) StructBodySpans(sv *SV) []FieldSpan {
	var spans []FieldSpan
	for i, f := range sv.St.Fields {
		v := sv.Fields[i]
		if !f.Require && !e.KeepDefaults && OmittedWhenOptional(f, v) {
			continue
		}
		s := len(e.Buf)
		e.Value(f.Type, v, f.Tag)
		spans = append(spans, FieldSpan{Index: i, Start: s, End: len(e.Buf)})
	}
	return spans
}
