package refcodec

import (
	"encoding/json"
	"fmt"
	"math"
	"strconv"
)

// JSON form of a schema (produced by idlgen from its model or from the framework's
// .tars files; consumed by the test binaries).

type TypeJ struct {
	K    string `json:"k"` // kind name as in kindNames, e.g. "int", "vector", "struct"
	Elem *TypeJ `json:"elem,omitempty"`
	Key  *TypeJ `json:"key,omitempty"`
	N    int    `json:"n,omitempty"`
	Ref  string `json:"ref,omitempty"` // "module.Name" for struct / enum
}

type FieldJ struct {
	Name       string `json:"name"`
	Tag        int    `json:"tag"`
	Require    bool   `json:"require"`
	Type       *TypeJ `json:"type"`
	HasDefault bool   `json:"has_default,omitempty"`
	DefKind    string `json:"def_kind,omitempty"` // bool | int | float | string
	DefStr     string `json:"def_str,omitempty"`  // value in a Go-parsable spelling
	DefaultSrc string `json:"default_src,omitempty"`
}

type StructJ struct {
	Module        string    `json:"module"`
	Name          string    `json:"name"`
	Fields        []*FieldJ `json:"fields"`
	JSONOmitEmpty bool      `json:"json_omitempty,omitempty"`
}

type EnumJ struct {
	Module string   `json:"module"`
	Name   string   `json:"name"`
	Names  []string `json:"names"`
	Values []int32  `json:"values"`
}

type ArgJ struct {
	Name string `json:"name"`
	Out  bool   `json:"out"`
	Type *TypeJ `json:"type"`
}

type FuncJ struct {
	Name string  `json:"name"`
	Ret  *TypeJ  `json:"ret,omitempty"`
	Args []*ArgJ `json:"args"`
}

type IfaceJ struct {
	Module string   `json:"module"`
	Name   string   `json:"name"`
	Funcs  []*FuncJ `json:"funcs"`
}

type SchemaJ struct {
	Structs []*StructJ `json:"structs"`
	Enums   []*EnumJ   `json:"enums"`
	Ifaces  []*IfaceJ  `json:"ifaces,omitempty"`
}

// Schema is the resolved form.
type Schema struct {
	Structs map[string]*Struct // key "module.Name"
	Enums   map[string]*Enum
	Order   []string // struct keys in declaration order
	Ifaces  []*Iface
}

type Arg struct {
	Name string
	Out  bool
	Type *Type
}
type Func struct {
	Name string
	Ret  *Type
	Args []*Arg
}
type Iface struct {
	Module, Name string
	Funcs        []*Func
}

func kindByName(s string) (Kind, error) {
	for i, n := range kindNames {
		if n == s {
			return Kind(i), nil
		}
	}
	return 0, fmt.Errorf("unknown kind %q", s)
}

func ParseSchema(b []byte) (*Schema, error) {
	var sj SchemaJ
	if err := json.Unmarshal(b, &sj); err != nil {
		return nil, err
	}
	return sj.Resolve()
}

func (sj *SchemaJ) Resolve() (*Schema, error) {
	s := &Schema{Structs: map[string]*Struct{}, Enums: map[string]*Enum{}}
	for _, e := range sj.Enums {
		s.Enums[e.Module+"."+e.Name] = &Enum{Module: e.Module, Name: e.Name, Names: e.Names, Values: e.Values}
	}
	for _, st := range sj.Structs {
		k := st.Module + "." + st.Name
		s.Structs[k] = &Struct{Module: st.Module, Name: st.Name, JSONOmitEmpty: st.JSONOmitEmpty}
		s.Order = append(s.Order, k)
	}
	var conv func(t *TypeJ) (*Type, error)
	conv = func(t *TypeJ) (*Type, error) {
		k, err := kindByName(t.K)
		if err != nil {
			return nil, err
		}
		out := &Type{Kind: k, N: t.N}
		if t.Elem != nil {
			if out.Elem, err = conv(t.Elem); err != nil {
				return nil, err
			}
		}
		if t.Key != nil {
			if out.Key, err = conv(t.Key); err != nil {
				return nil, err
			}
		}
		switch k {
		case KStruct:
			out.Struct = s.Structs[t.Ref]
			if out.Struct == nil {
				return nil, fmt.Errorf("unknown struct %q", t.Ref)
			}
		case KEnum:
			out.Enum = s.Enums[t.Ref]
			if out.Enum == nil {
				return nil, fmt.Errorf("unknown enum %q", t.Ref)
			}
		}
		return out, nil
	}
	for _, st := range sj.Structs {
		rs := s.Structs[st.Module+"."+st.Name]
		for _, f := range st.Fields {
			t, err := conv(f.Type)
			if err != nil {
				return nil, fmt.Errorf("%s.%s: %w", st.Name, f.Name, err)
			}
			rf := &Field{Name: f.Name, GoName: UpperFirst(f.Name), Tag: f.Tag, Require: f.Require, Type: t, HasDefault: f.HasDefault, DefaultSrc: f.DefaultSrc}
			if f.HasDefault {
				switch f.DefKind {
				case "bool":
					rf.Default = f.DefStr == "true"
				case "int":
					v, err := strconv.ParseInt(f.DefStr, 0, 64)
					if err != nil {
						return nil, err
					}
					if t.Kind == KF32 {
						rf.Default = float32(v)
					} else if t.Kind == KF64 {
						rf.Default = float64(v)
					} else {
						rf.Default = v
					}
				case "float":
					v, err := strconv.ParseFloat(f.DefStr, 64)
					if err != nil {
						return nil, err
					}
					if t.Kind == KF32 {
						rf.Default = float32(v)
					} else {
						rf.Default = v
					}
				case "string":
					rf.Default = f.DefStr
				default:
					return nil, fmt.Errorf("bad default kind %q", f.DefKind)
				}
			}
			rs.Fields = append(rs.Fields, rf)
		}
		rs.Sort()
	}
	for _, it := range sj.Ifaces {
		ri := &Iface{Module: it.Module, Name: it.Name}
		for _, fn := range it.Funcs {
			rf := &Func{Name: fn.Name}
			if fn.Ret != nil {
				t, err := conv(fn.Ret)
				if err != nil {
					return nil, err
				}
				rf.Ret = t
			}
			for _, a := range fn.Args {
				t, err := conv(a.Type)
				if err != nil {
					return nil, err
				}
				rf.Args = append(rf.Args, &Arg{Name: a.Name, Out: a.Out, Type: t})
			}
			ri.Funcs = append(ri.Funcs, rf)
		}
		s.Ifaces = append(s.Ifaces, ri)
	}
	return s, nil
}

func UpperFirst(s string) string {
	if s == "" {
		return s
	}
	b := []byte(s)
	if b[0] >= 'a' && b[0] <= 'z' {
		b[0] -= 32
	}
	return string(b)
}

// ToJSONish converts a generic value into something json.Marshal can print (for
// samples and failure messages). Floats are given by bit pattern when non-finite.
func ToJSONish(t *Type, v any) any {
	switch t.Kind {
	case KF32:
		f := v.(float32)
		if f != f || math.IsInf(float64(f), 0) {
			return fmt.Sprintf("f32bits:%08x", math.Float32bits(f))
		}
		return f
	case KF64:
		f := v.(float64)
		if f != f || math.IsInf(f, 0) {
			return fmt.Sprintf("f64bits:%016x", math.Float64bits(f))
		}
		return f
	case KString:
		s := v.(string)
		if len(s) > 40 {
			return fmt.Sprintf("%q...(len %d)", s[:40], len(s))
		}
		return s
	case KVector, KArray:
		l := v.([]any)
		if len(l) > 8 {
			return fmt.Sprintf("[%d elements of %v]", len(l), t.Elem.Kind)
		}
		out := make([]any, len(l))
		for i := range l {
			out[i] = ToJSONish(t.Elem, l[i])
		}
		return out
	case KMap:
		m := v.([]KV)
		if len(m) > 6 {
			return fmt.Sprintf("{%d entries}", len(m))
		}
		out := make([]any, 0, len(m))
		for _, kv := range m {
			out = append(out, []any{ToJSONish(t.Key, kv.K), ToJSONish(t.Elem, kv.V)})
		}
		return out
	case KStruct:
		sv := v.(*SV)
		out := map[string]any{}
		for i, f := range sv.St.Fields {
			out[f.Name] = ToJSONish(f.Type, sv.Fields[i])
		}
		return out
	}
	return v
}
