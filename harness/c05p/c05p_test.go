// C05 (in-process part) over freshly generated IDL programs.
package c05p

import (
	"testing"

	"verif/harness/codecprops"
	"verif/harness/gen/regp"
	"verif/harness/stat"
)

var st = stat.New("C05", codecprops.C05Rule)

func TestC05P(t *testing.T) {
	defer st.Emit()
	r, err := codecprops.Load("programs", regp.SchemaJSON, regp.New)
	if err != nil {
		t.Fatalf("VERIF-INFRA registry: %v", err)
	}
	r.RunC05(t, st, 15000, 300000)
}
