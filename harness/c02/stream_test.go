package c02

// Streams of fields: several primitive fields with ascending tags are written into one
// buffer and read back on ONE reader. Between two fields the reader is also asked, with
// require=false, for tags that are absent (lower than the next present tag) - what every
// generated struct reader does for absent optional members. A field read must leave the
// reader exactly at the end of the field, so the next field (whatever its tag: 14, 15, 16
// sit on the extended-head boundary) must be found with its exact value after any number of
// such misses.

import (
	"bytes"
	"fmt"
	"sort"

	"github.com/TarsCloud/TarsGo/tars/protocol/codec"
	"pgregory.net/rapid"

	"verif/harness/stat"
)

type StreamCase struct {
	Fields []Case `json:"fields"` // ascending distinct tags
	// Probes[i]: absent tags asked for (require=false) before field i is read
	Probes [][]int `json:"probes"`
}

func drawStream(rt *rapid.T) StreamCase {
	n := rapid.IntRange(1, 6).Draw(rt, "nfields")
	tagSet := map[int]bool{}
	for len(tagSet) < n {
		tagSet[rapid.OneOf(rapid.IntRange(0, 255), rapid.SampledFrom([]int{13, 14, 15, 16, 17, 254, 255}), rapid.IntRange(10, 20)).Draw(rt, "tag")] = true
	}
	var tags []int
	for t := range tagSet {
		tags = append(tags, t)
	}
	sort.Ints(tags)
	var c StreamCase
	prev := -1
	for _, tg := range tags {
		var f Case
		if rapid.IntRange(0, 3).Draw(rt, "str") == 0 {
			f = drawString(rt)
		} else {
			f = drawWide(rt)
		}
		f.Tag = tg
		c.Fields = append(c.Fields, f)
		var probes []int
		if tg-prev > 1 {
			np := rapid.IntRange(0, 3).Draw(rt, "nprobes")
			for k := 0; k < np; k++ {
				probes = append(probes, rapid.OneOf(rapid.IntRange(prev+1, tg-1), rapid.Just(tg-1), rapid.Just(prev+1)).Draw(rt, "probe"))
			}
			sort.Ints(probes)
		}
		c.Probes = append(c.Probes, probes)
		prev = tg
	}
	return c
}

func runStream(c StreamCase) *stat.Failure {
	buf := codec.NewBuffer()
	for _, f := range c.Fields {
		if err := write(f, buf); err != nil {
			return stat.Failf("write-error", "%s tag %d: %v", kindName[f.K], f.Tag, err)
		}
	}
	all := append([]byte(nil), buf.ToBytes()...)
	r := codec.NewReader(all)
	desc := func() string {
		var s []string
		for i, f := range c.Fields {
			s = append(s, fmt.Sprintf("%v?%s@%d", c.Probes[i], kindName[f.K], f.Tag))
		}
		return fmt.Sprint(s)
	}
	for i, f := range c.Fields {
		for _, p := range c.Probes[i] {
			v := int32(0x5A5A5A5A)
			if err := r.ReadInt32(&v, byte(p), false); err != nil {
				return stat.Failf("optional-miss-error", "stream %s: optional read of absent tag %d before the field with tag %d fails: %v", desc(), p, f.Tag, err)
			}
			if v != 0x5A5A5A5A {
				return stat.Failf("optional-miss-assigns", "stream %s: optional read of absent tag %d changed its destination to %d", desc(), p, v)
			}
		}
		gi, _, gs, err := readAs(f.K, r, byte(f.Tag))
		if err != nil {
			return stat.Failf("position", "stream %s: field %d (%s, tag %d) is not found after the reads before it (probes %v): %v - the reader is not positioned at the end of the previous field", desc(), i, kindName[f.K], f.Tag, c.Probes[i], err)
		}
		ok := true
		switch f.K {
		case kStr:
			ok = bytes.Equal(gs, f.S)
		case kF32:
			ok = uint32(gi) == uint32(f.I)
		case kBool:
			ok = (gi != 0) == (f.I != 0)
		default:
			ok = gi == f.I
		}
		if !ok {
			return stat.Failf("roundtrip", "stream %s: field %d (%s, tag %d) read back as %d/%q, written %d/%q", desc(), i, kindName[f.K], f.Tag, gi, trunc(gs), f.I, trunc(f.S))
		}
	}
	var s int8
	if err := r.ReadInt8(&s, 255, true); err == nil && c.Fields[len(c.Fields)-1].Tag != 255 {
		return stat.Failf("position", "stream %s: a further required read succeeded after the last field", desc())
	}
	return nil
}
