// C02 — primitive codec: exact round trip and wire-format conformance.
// Oracles: (1) bytes == reference encoding (refcodec.Enc), (2) read returns the value
// bit-exactly, (3) position: a sentinel field written right after is the next thing read
// and nothing follows it, (4) every wider reader accepts every narrower encoding with the
// same numeric value.
package c02

import (
	"bytes"
	"fmt"
	"math"
	"testing"

	"github.com/TarsCloud/TarsGo/tars/protocol/codec"
	"pgregory.net/rapid"

	"verif/harness/refcodec"
	"verif/harness/stat"
)

var st = stat.New("C02",
	"(type,tag,value) triples, and (sub-check stream) sequences of 1..6 such fields with ascending tags on one reader with optional reads of absent tags in between; exhaustive over all values of bool/int8/uint8 x 256 tags and int16/uint16 x the listed tags; rapid boundary-dense + uniform for int32/uint32/int64/float32/float64(bit patterns)/string(lengths around 0,255,256,65536, arbitrary bytes). Non-trivial = tag>=15, or value at a width boundary, or non-finite/negative-zero float, or string length>=255. Distinct = distinct (type,tag,value).",
	"reference encoder refcodec.Enc written from the wire-format description is the byte oracle",
	"position is observed through the public API only: a sentinel field written after the value must be the next field read and must be the last one")

type kind int

const (
	kBool kind = iota
	kI8
	kU8
	kI16
	kU16
	kI32
	kU32
	kI64
	kF32
	kF64
	kStr
)

var kindName = []string{"bool", "int8", "uint8", "int16", "uint16", "int32", "uint32", "int64", "float32", "float64", "string"}

// Case is one (type, tag, value) triple. Integers and float bit patterns travel in I
// (floats: raw bits), strings in S.
type Case struct {
	K   kind   `json:"k"`
	Tag int    `json:"tag"`
	I   int64  `json:"i"`
	S   []byte `json:"s,omitempty"`
}

const sentinel = int8(0x5A)

func write(c Case, b *codec.Buffer) error {
	t := byte(c.Tag)
	switch c.K {
	case kBool:
		return b.WriteBool(c.I != 0, t)
	case kI8:
		return b.WriteInt8(int8(c.I), t)
	case kU8:
		return b.WriteUint8(uint8(c.I), t)
	case kI16:
		return b.WriteInt16(int16(c.I), t)
	case kU16:
		return b.WriteUint16(uint16(c.I), t)
	case kI32:
		return b.WriteInt32(int32(c.I), t)
	case kU32:
		return b.WriteUint32(uint32(c.I), t)
	case kI64:
		return b.WriteInt64(c.I, t)
	case kF32:
		return b.WriteFloat32(math.Float32frombits(uint32(c.I)), t)
	case kF64:
		return b.WriteFloat64(math.Float64frombits(uint64(c.I)), t)
	case kStr:
		return b.WriteString(string(c.S), t)
	}
	panic("kind")
}

func reference(c Case) []byte {
	var e refcodec.Enc
	switch c.K {
	case kBool:
		if c.I != 0 {
			e.Int(1, c.Tag)
		} else {
			e.Int(0, c.Tag)
		}
	case kI8, kU8, kI16, kU16, kI32, kU32, kI64:
		e.Int(c.I, c.Tag)
	case kF32:
		e.F32(math.Float32frombits(uint32(c.I)), c.Tag)
	case kF64:
		e.F64(math.Float64frombits(uint64(c.I)), c.Tag)
	case kStr:
		e.Str(string(c.S), c.Tag)
	}
	return e.Buf
}

// readAs reads the field with the reader of kind rk; returns the value as (int64 or raw
// float bits, string) so that callers compare numerically.
func readAs(rk kind, r *codec.Reader, tag byte) (int64, float64, []byte, error) {
	switch rk {
	case kBool:
		v := true // every destination starts from a non-zero value: a read must assign
		err := r.ReadBool(&v, tag, true)
		if v {
			return 1, 0, nil, err
		}
		return 0, 0, nil, err
	case kI8:
		v := int8(0x5A)
		err := r.ReadInt8(&v, tag, true)
		return int64(v), 0, nil, err
	case kU8:
		v := uint8(0xA5)
		err := r.ReadUint8(&v, tag, true)
		return int64(v), 0, nil, err
	case kI16:
		v := int16(0x5A5A)
		err := r.ReadInt16(&v, tag, true)
		return int64(v), 0, nil, err
	case kU16:
		v := uint16(0xA5A5)
		err := r.ReadUint16(&v, tag, true)
		return int64(v), 0, nil, err
	case kI32:
		v := int32(0x5A5A5A5A)
		err := r.ReadInt32(&v, tag, true)
		return int64(v), 0, nil, err
	case kU32:
		v := uint32(0xA5A5A5A5)
		err := r.ReadUint32(&v, tag, true)
		return int64(v), 0, nil, err
	case kI64:
		v := int64(0x5A5A5A5A5A5A5A5A)
		err := r.ReadInt64(&v, tag, true)
		return v, 0, nil, err
	case kF32:
		v := float32(12345.5)
		err := r.ReadFloat32(&v, tag, true)
		return int64(math.Float32bits(v)), float64(v), nil, err
	case kF64:
		v := float64(-98765.25)
		err := r.ReadFloat64(&v, tag, true)
		return int64(math.Float64bits(v)), v, nil, err
	case kStr:
		v := "stale destination content"
		err := r.ReadString(&v, tag, true)
		return 0, 0, []byte(v), err
	}
	panic("kind")
}

// widerReaders[k] lists the reader kinds that must accept an encoding written by k.
var widerReaders = map[kind][]kind{
	kI8:  {kI16, kI32, kI64},
	kI16: {kI32, kI64},
	kI32: {kI64},
	kU8:  {kU16, kU32, kI16, kI32, kI64},
	kU16: {kU32, kI32, kI64},
	kU32: {kI64},
	kF32: {kF64},
}

func runCase(c Case) *stat.Failure {
	buf := codec.NewBuffer()
	if err := write(c, buf); err != nil {
		return stat.Failf("write-error", "%s tag %d: %v", kindName[c.K], c.Tag, err)
	}
	got := append([]byte(nil), buf.ToBytes()...)
	want := reference(c)
	if !bytes.Equal(got, want) {
		return stat.Failf("wire-format", "%s tag %d value %d/%q: wrote % x, wire format prescribes % x", kindName[c.K], c.Tag, c.I, trunc(c.S), trunc(got), trunc(want))
	}
	// sentinel follows; nothing after it
	if err := buf.WriteInt8(sentinel, 255); err != nil {
		return stat.Failf("write-error", "sentinel: %v", err)
	}
	all := append([]byte(nil), buf.ToBytes()...)
	check := func(rk kind) *stat.Failure {
		r := codec.NewReader(all)
		gi, gf, gs, err := readAs(rk, r, byte(c.Tag))
		if err != nil {
			return stat.Failf("read-error", "%s written, %s reader, tag %d value %d: %v", kindName[c.K], kindName[rk], c.Tag, c.I, err)
		}
		switch {
		case c.K == kStr:
			if !bytes.Equal(gs, c.S) {
				return stat.Failf("roundtrip", "string tag %d len %d: read back len %d %q", c.Tag, len(c.S), len(gs), trunc(gs))
			}
		case c.K == kF32 && rk == kF64:
			w := float64(math.Float32frombits(uint32(c.I)))
			if !(gf == w || (math.IsNaN(gf) && math.IsNaN(w))) || math.Signbit(gf) != math.Signbit(w) && !math.IsNaN(w) {
				return stat.Failf("cross-width", "float32 %x read as float64 gives %v want %v", uint32(c.I), gf, w)
			}
		case c.K == kF32:
			if uint32(gi) != uint32(c.I) {
				return stat.Failf("roundtrip", "float32 tag %d bits %08x read back %08x", c.Tag, uint32(c.I), uint32(gi))
			}
		case c.K == kF64:
			if uint64(gi) != uint64(c.I) {
				return stat.Failf("roundtrip", "float64 tag %d bits %016x read back %016x", c.Tag, uint64(c.I), uint64(gi))
			}
		case c.K == kBool:
			if (gi != 0) != (c.I != 0) {
				return stat.Failf("roundtrip", "bool tag %d %v read back %v", c.Tag, c.I != 0, gi != 0)
			}
		default:
			if gi != c.I {
				sig := "roundtrip"
				if rk != c.K {
					sig = "cross-width"
				}
				return stat.Failf(sig, "%s tag %d value %d read by %s reader as %d", kindName[c.K], c.Tag, c.I, kindName[rk], gi)
			}
		}
		// position: the sentinel must be the next field, and the last one
		var s int8
		if err := r.ReadInt8(&s, 255, true); err != nil || s != sentinel {
			return stat.Failf("position", "%s tag %d value %d (%s reader): sentinel after the field not found (got %d, err %v): reader not positioned at end of field", kindName[c.K], c.Tag, c.I, kindName[rk], s, err)
		}
		if err := r.ReadInt8(&s, 255, true); err == nil {
			return stat.Failf("position", "%s tag %d: a further required read succeeded after the last field", kindName[c.K], c.Tag)
		}
		return nil
	}
	if f := check(c.K); f != nil {
		return f
	}
	for _, rk := range widerReaders[c.K] {
		if f := check(rk); f != nil {
			return f
		}
	}
	return nil
}

func trunc(b []byte) []byte {
	if len(b) > 24 {
		return b[:24]
	}
	return b
}

func boundaryInt(v int64) bool {
	for _, b := range []int64{0, 1, -1, 127, 128, -128, -129, 255, 256, 32767, 32768, -32768, -32769, 65535, 65536,
		math.MaxInt32, math.MaxInt32 + 1, math.MinInt32, math.MinInt32 - 1, math.MaxUint32, math.MaxInt64, math.MinInt64} {
		if v == b {
			return true
		}
	}
	return false
}

func nontrivial(c Case) bool {
	if c.Tag >= 15 {
		return true
	}
	switch c.K {
	case kStr:
		return len(c.S) >= 255
	case kF32:
		f := math.Float32frombits(uint32(c.I))
		return f != f || math.IsInf(float64(f), 0) || (f == 0 && math.Signbit(float64(f)))
	case kF64:
		f := math.Float64frombits(uint64(c.I))
		return f != f || math.IsInf(f, 0) || (f == 0 && math.Signbit(f))
	}
	return boundaryInt(c.I)
}

func record(c Case) {
	fp := []byte(fmt.Sprintf("%d|%d|%d|%x", c.K, c.Tag, c.I, c.S))
	st.Case(fp, nontrivial(c), func() any {
		return map[string]any{"type": kindName[c.K], "tag": c.Tag, "value": c.I, "strlen": len(c.S)}
	}, kindName[c.K])
}

// ------------------------------------------------------------------ exhaustive part

func tagsFor16(thorough bool) []int {
	if thorough {
		t := make([]int, 256)
		for i := range t {
			t[i] = i
		}
		return t
	}
	return []int{0, 1, 7, 13, 14, 15, 16, 17, 31, 100, 127, 128, 200, 254, 255}
}

func TestC02(t *testing.T) {
	defer st.Emit()
	thorough := stat.Tier() == "thorough"
	shard, shards := stat.Shard()
	if stat.ReplayPath() == "" {
		// exhaustive sub-spaces
		var n, nt int64
		fail := func(c Case, f *stat.Failure) {
			st.Report("exhaustive", f, c)
			t.Errorf("exhaustive: %v", f)
		}
	outer:
		for tag := 0; tag < 256; tag++ {
			if tag%shards != shard {
				continue
			}
			for _, k := range []kind{kBool, kI8, kU8} {
				lo, hi := int64(0), int64(1)
				if k == kI8 {
					lo, hi = -128, 127
				} else if k == kU8 {
					lo, hi = 0, 255
				}
				for v := lo; v <= hi; v++ {
					c := Case{K: k, Tag: tag, I: v}
					n++
					if nontrivial(c) {
						nt++
					}
					if f := runCase(c); f != nil {
						fail(c, f)
						break outer
					}
				}
			}
		}
		st.Bulk(n, nt, "exhaustive-8bit")
		n, nt = 0, 0
	outer16:
		for i, tag := range tagsFor16(thorough) {
			if i%shards != shard {
				continue
			}
			for _, k := range []kind{kI16, kU16} {
				lo, hi := int64(-32768), int64(32767)
				if k == kU16 {
					lo, hi = 0, 65535
				}
				for v := lo; v <= hi; v++ {
					c := Case{K: k, Tag: tag, I: v}
					n++
					if nontrivial(c) {
						nt++
					}
					if f := runCase(c); f != nil {
						fail(c, f)
						break outer16
					}
				}
			}
		}
		st.Bulk(n, nt, "exhaustive-16bit")
		st.Extra("exhaustive_subspaces", "bool/int8/uint8 x all 256 tags x all values; int16/uint16 x all values x tags "+fmt.Sprint(tagsFor16(thorough)))
		st.AddSample(map[string]any{"type": "int16", "tag": 15, "value": -32768, "note": "one point of the exhaustive sub-space"})
	}

	stat.Check(t, st, "wide", stat.N(60000, 600000), drawWide, func(c Case) *stat.Failure {
		record(c)
		return runCase(c)
	})
	stat.Check(t, st, "string", stat.N(6000, 40000), drawString, func(c Case) *stat.Failure {
		record(c)
		return runCase(c)
	})
	stat.Check(t, st, "stream", stat.N(20000, 200000), drawStream, func(c StreamCase) *stat.Failure {
		nt := false
		for i, f := range c.Fields {
			if len(c.Probes[i]) > 0 && f.Tag >= 14 && f.Tag <= 16 {
				nt = true
			}
		}
		st.CaseJSON(c, nt || len(c.Fields) >= 3, "stream", fmt.Sprintf("stream-fields-%d", len(c.Fields)))
		return runStream(c)
	})
}

var tagGen = rapid.OneOf(rapid.IntRange(0, 255), rapid.SampledFrom([]int{0, 14, 15, 16, 254, 255}))

func drawWide(rt *rapid.T) Case {
	k := rapid.SampledFrom([]kind{kI32, kU32, kI64, kF32, kF64, kI16, kU16}).Draw(rt, "kind")
	tag := tagGen.Draw(rt, "tag")
	var v int64
	switch k {
	case kI16:
		v = int64(rapid.Int16().Draw(rt, "v"))
	case kU16:
		v = int64(rapid.Uint16().Draw(rt, "v"))
	case kI32:
		v = int64(rapid.OneOf(rapid.Int32(), boundary32()).Draw(rt, "v"))
	case kU32:
		v = int64(rapid.OneOf(rapid.Uint32(), rapid.Map(boundary32(), func(x int32) uint32 { return uint32(x) })).Draw(rt, "v"))
	case kI64:
		v = rapid.OneOf(rapid.Int64(), boundary64()).Draw(rt, "v")
	case kF32:
		v = int64(rapid.OneOf(rapid.Uint32(), rapid.SampledFrom([]uint32{0, 0x80000000, 0x7f800000, 0xff800000, 0x7fc00000, 0x7fc00001, 0xffc00000, 0x7f800001, 0x7fffffff, 1, 0x007fffff, 0x00800000, 0x3f800000})).Draw(rt, "bits"))
	case kF64:
		v = int64(rapid.OneOf(rapid.Uint64(), rapid.SampledFrom([]uint64{0, 1 << 63, 0x7ff0000000000000, 0xfff0000000000000, 0x7ff8000000000000, 0x7ff8000000000001, 0x7ff0000000000001, 0xffffffffffffffff, 1, 0x000fffffffffffff, 0x3ff0000000000000})).Draw(rt, "bits"))
	}
	return Case{K: k, Tag: tag, I: v}
}

func boundary32() *rapid.Generator[int32] {
	return rapid.Custom(func(t *rapid.T) int32 {
		b := rapid.SampledFrom([]int64{0, 127, 128, -128, -129, 255, 256, 32767, 32768, -32768, -32769, 65535, 65536, math.MaxInt32, math.MinInt32}).Draw(t, "b")
		d := rapid.Int64Range(-2, 2).Draw(t, "d")
		v := b + d
		if v > math.MaxInt32 {
			v = math.MaxInt32
		}
		if v < math.MinInt32 {
			v = math.MinInt32
		}
		return int32(v)
	})
}

func boundary64() *rapid.Generator[int64] {
	return rapid.Custom(func(t *rapid.T) int64 {
		b := rapid.SampledFrom([]int64{0, 127, -128, 32767, -32768, 65535, math.MaxInt32, math.MinInt32, math.MaxUint32, math.MaxInt64 - 2, math.MinInt64 + 2}).Draw(t, "b")
		d := rapid.Int64Range(-2, 2).Draw(t, "d")
		return b + d
	})
}

func drawString(rt *rapid.T) Case {
	tag := tagGen.Draw(rt, "tag")
	n := rapid.OneOf(rapid.IntRange(0, 300), rapid.SampledFrom([]int{0, 1, 254, 255, 256, 257, 4095, 4096, 65535, 65536, 70000})).Draw(rt, "len")
	mode := rapid.IntRange(0, 2).Draw(rt, "mode")
	var s []byte
	switch mode {
	case 0:
		s = rapid.SliceOfN(rapid.Byte(), n, n).Draw(rt, "bytes")
	case 1:
		fill := rapid.Byte().Draw(rt, "fill")
		s = bytes.Repeat([]byte{fill}, n)
	default:
		seed := rapid.SliceOfN(rapid.Byte(), 1, 8).Draw(rt, "seed")
		s = make([]byte, n)
		for i := range s {
			s[i] = seed[i%len(seed)] + byte(i/len(seed))
		}
	}
	return Case{K: kStr, Tag: tag, S: s}
}
