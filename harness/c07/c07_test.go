// C07 — stream framing is independent of TCP segmentation and bounds packet size.
//
// The real receive loops (server: tcpHandler.recv, client: connection.recv, reached through
// overlay accessors) are driven with a fake net.Conn that returns exactly the scripted
// chunks (optionally interleaved with read-timeout errors) and then EOF. Recording
// protocol objects delegate ParsePackage to the framing hooks of the real endpoints
// (tars.Protocol on the server side, protocol.TarsProtocol on the client side) and record every
// packet handed to Invoke / Recv. Reference model: split the stream by its length prefixes
// up to the first illegal header.
package c07

import (
	"bytes"
	"context"
	"encoding/binary"
	"fmt"
	"io"
	"net"
	"sync"
	"testing"
	"time"

	"github.com/TarsCloud/TarsGo/tars"
	"github.com/TarsCloud/TarsGo/tars/protocol"
	"github.com/TarsCloud/TarsGo/tars/transport"
	"github.com/TarsCloud/TarsGo/tars/util/rogger"
	"pgregory.net/rapid"

	"verif/harness/stat"
)

var st = stat.New("C07",
	"Case = {maximum packet length M in {4,5,16,64,1024,65536,10 MiB default}, 1..24 streams (server side: run concurrently because the server's teardown polls a 500 ms ticker; client side: sequential), each stream = 0..40 length-prefixed packets with body lengths around {0,1,M-5,M-4} and random, optionally one illegal header (length 0..3 or > M, up to 2^32-1) at a random position, optionally a truncated last packet, a generated partition of the byte stream into chunks (single bytes, header-splitting cuts, many packets per chunk, sizes around the 4096-byte read buffer; in a sixth of the streams the stream length and every chunk are multiples of the read buffer, so that every read including the last fills it) and read-timeout errors between chunks}. Oracle: packets handed to ServerProtocol.Invoke / ClientProtocol.Recv == model 'split by length prefixes up to the first illegal header': each once, complete, byte-identical (order checked through sequence numbers at recognition time; hand-over is concurrent by design); nothing after an illegal header; connection closed after an illegal header; exactly M accepted, M+1 rejected; plus protocol.TarsRequest against its 4-line specification on generated buffers. Non-trivial = stream with a packet split across >=3 chunks and a chunk containing >=2 packet boundaries, or an illegal header after >=1 legal packet. Distinct = distinct case JSON.",
	"the receive loops are entered through overlay accessors (transport.VerifServeConn / VerifClientRecv) with a fake net.Conn; socket-level behaviour is exercised by C10/C08",
	"protocol.SetMaxPackageLength is process-global, so all streams of a case share M")

func init() { rogger.SetLevel(rogger.OFF) }

// ------------------------------------------------------------------ fake conn

type timeoutErr struct{}

func (timeoutErr) Error() string   { return "i/o timeout (scripted)" }
func (timeoutErr) Timeout() bool   { return true }
func (timeoutErr) Temporary() bool { return true }

type fakeAddr struct{}

func (fakeAddr) Network() string { return "tcp" }
func (fakeAddr) String() string  { return "10.9.8.7:6543" }

type fakeConn struct {
	mu      sync.Mutex
	chunks  [][]byte // nil chunk = one scripted read timeout
	pos     int
	closed  bool
	written [][]byte
	closeCh chan struct{}
	hook    func(pos int) // called before every read with the index of the next chunk
}

func newFakeConn(chunks [][]byte) *fakeConn {
	return &fakeConn{chunks: chunks, closeCh: make(chan struct{})}
}

func (f *fakeConn) Read(p []byte) (int, error) {
	f.mu.Lock()
	defer f.mu.Unlock()
	if f.closed {
		return 0, &net.OpError{Op: "read", Err: net.ErrClosed}
	}
	if f.hook != nil {
		f.hook(f.pos)
	}
	if f.pos >= len(f.chunks) {
		return 0, io.EOF
	}
	c := f.chunks[f.pos]
	if c == nil {
		f.pos++
		return 0, timeoutErr{}
	}
	n := copy(p, c)
	if n < len(c) {
		f.chunks[f.pos] = c[n:]
	} else {
		f.pos++
	}
	return n, nil
}
func (f *fakeConn) Write(p []byte) (int, error) {
	f.mu.Lock()
	defer f.mu.Unlock()
	f.written = append(f.written, append([]byte{}, p...))
	return len(p), nil
}
func (f *fakeConn) Close() error {
	f.mu.Lock()
	defer f.mu.Unlock()
	if !f.closed {
		f.closed = true
		close(f.closeCh)
	}
	return nil
}
func (f *fakeConn) isClosed() bool                     { f.mu.Lock(); defer f.mu.Unlock(); return f.closed }
func (f *fakeConn) LocalAddr() net.Addr                { return fakeAddr{} }
func (f *fakeConn) RemoteAddr() net.Addr               { return fakeAddr{} }
func (f *fakeConn) SetDeadline(t time.Time) error      { return nil }
func (f *fakeConn) SetReadDeadline(t time.Time) error  { return nil }
func (f *fakeConn) SetWriteDeadline(t time.Time) error { return nil }

// ------------------------------------------------------------------ recording protocols

// framing goes through the hooks the framework's own endpoints use: tars.Protocol (servant
// adapters, server side) and protocol.TarsProtocol (servant proxies, client side)
var (
	serverHook = tars.NewTarsProtocol(nil, nil, false)
	clientHook = &protocol.TarsProtocol{}
)

type recorder struct {
	client     bool
	mu         sync.Mutex
	recognised [][]byte // in recognition order (ParsePackage returning a full packet)
	delivered  [][]byte // handed to Invoke / Recv
}

func (r *recorder) reset() {
	r.mu.Lock()
	r.recognised, r.delivered = nil, nil
	r.mu.Unlock()
}

func (r *recorder) ParsePackage(buff []byte) (int, int) {
	if r.client {
		return clientHook.ParsePackage(buff)
	}
	return serverHook.ParsePackage(buff)
}
func (r *recorder) Invoke(ctx context.Context, pkg []byte) []byte {
	r.mu.Lock()
	r.delivered = append(r.delivered, append([]byte{}, pkg...))
	r.mu.Unlock()
	return []byte{0, 0, 0, 4}
}
func (r *recorder) InvokeTimeout(pkg []byte) []byte { return []byte{0, 0, 0, 4} }
func (r *recorder) GetCloseMsg() []byte             { return []byte{0, 0, 0, 4} }
func (r *recorder) DoClose(ctx context.Context)     {}
func (r *recorder) Recv(pkg []byte) {
	r.mu.Lock()
	r.delivered = append(r.delivered, append([]byte{}, pkg...))
	r.mu.Unlock()
}
func (r *recorder) count() int { r.mu.Lock(); defer r.mu.Unlock(); return len(r.delivered) }

// ------------------------------------------------------------------ case

type built struct {
	stream   []byte
	expect   [][]byte
	protoErr bool
}

type Stream struct {
	cache     *built
	BodyLens  []int  `json:"body_lens"`  // body = deterministic bytes from (index, len)
	Illegal   int    `json:"illegal_at"` // index before which an illegal header is inserted (-1: none)
	IllLen    uint32 `json:"illegal_len"`
	TruncLast int    `json:"trunc_last"` // bytes cut off the end of the stream (0: complete)
	Cuts      []int  `json:"cuts"`       // chunk sizes; remainder in one chunk
	// Aligned: the stream length and all chunk sizes are multiples of the 4096-byte read buffer
	Aligned  bool  `json:"aligned,omitempty"`
	Timeouts []int `json:"timeouts"` // chunk indices before which a read timeout is reported
	// ShutdownAt > 0 (server side): a graceful shutdown reaches the server when the receive
	// loop is about to read chunk number ShutdownAt; the connection keeps being drained, and
	// read timeouts after that moment are only scripted while a packet is half received (an
	// idle connection is legitimately left at the first timeout during a shutdown)
	ShutdownAt int `json:"shutdown_at,omitempty"`
}

type Case struct {
	Side    string   `json:"side"` // server | client
	M       int      `json:"max_len"`
	Streams []Stream `json:"streams"`
	// ReuseClient (client side): the streams are consecutive connections of one client
	ReuseClient bool `json:"reuse_client,omitempty"`
}

func body(i, n int) []byte {
	b := make([]byte, n)
	for k := range b {
		b[k] = byte(i*31 + k*7 + 1)
	}
	if n >= 4 {
		binary.BigEndian.PutUint32(b, uint32(i)) // sequence number
	}
	return b
}

// build returns the byte stream and the packets the model expects to be delivered, and
// whether the model expects the connection to be closed because of a protocol error.
func (s *Stream) build(M int) (stream []byte, expect [][]byte, protoErr bool) {
	if s.cache == nil {
		a, b, c := s.build0(M)
		s.cache = &built{a, b, c}
	}
	return s.cache.stream, s.cache.expect, s.cache.protoErr
}

func (s *Stream) build0(M int) (stream []byte, expect [][]byte, protoErr bool) {
	for i, n := range s.BodyLens {
		if i == s.Illegal {
			var h [4]byte
			binary.BigEndian.PutUint32(h[:], s.IllLen)
			stream = append(stream, h[:]...)
			stream = append(stream, 0xEE, 0xEE, 0xEE)
		}
		pkt := make([]byte, 4, 4+n)
		binary.BigEndian.PutUint32(pkt, uint32(4+n))
		pkt = append(pkt, body(i, n)...)
		stream = append(stream, pkt...)
	}
	if s.Illegal == len(s.BodyLens) {
		var h [4]byte
		binary.BigEndian.PutUint32(h[:], s.IllLen)
		stream = append(stream, h[:]...)
	}
	if s.TruncLast > 0 && s.TruncLast < len(stream) {
		stream = stream[:len(stream)-s.TruncLast]
	}
	// reference model: split by length prefixes
	rest := stream
	for len(rest) >= 4 {
		l := int(binary.BigEndian.Uint32(rest))
		if l < 4 || l > M {
			protoErr = true
			break
		}
		if len(rest) < l {
			break
		}
		expect = append(expect, rest[:l])
		rest = rest[l:]
	}
	return
}

// sM is the maximum packet length of the case being run (chunks needs the framing of the
// stream for shutdown cases).
var sM int

func (s *Stream) chunks(stream []byte) [][]byte {
	// chunks alias the stream: the receive loops only read from them
	var out [][]byte
	rest := stream
	to := map[int]bool{}
	for _, t := range s.Timeouts {
		to[t] = true
	}
	idx := 0
	push := func(b []byte) {
		if to[idx] {
			out = append(out, nil)
		}
		out = append(out, b)
		idx++
	}
	for _, c := range s.Cuts {
		if len(rest) == 0 {
			break
		}
		if c > len(rest) {
			c = len(rest)
		}
		if c <= 0 {
			c = 1
		}
		push(rest[:c])
		rest = rest[c:]
	}
	if len(rest) > 0 {
		push(rest)
	}
	if to[idx] {
		out = append(out, nil)
	}
	if s.ShutdownAt > 0 {
		// drop the scripted timeouts that would fall on a packet boundary (or behind the
		// framed part of the stream) once the shutdown has begun
		_, expect, _ := s.build(sM)
		bound := map[int]bool{0: true}
		off := 0
		for _, p := range expect {
			off += len(p)
			bound[off] = true
		}
		framed := off
		var kept [][]byte
		pos := 0
		for i, c := range out {
			if c == nil && i >= s.ShutdownAt-1 && (bound[pos] || pos >= framed) {
				continue
			}
			kept = append(kept, c)
			pos += len(c)
		}
		out = kept
	}
	return out
}

func nontrivialStream(s *Stream, M int) bool {
	stream, expect, perr := s.build(M)
	if perr && len(expect) >= 1 {
		return true
	}
	// packet boundaries
	var bounds []int
	off := 0
	for _, p := range expect {
		off += len(p)
		bounds = append(bounds, off)
	}
	// chunk boundaries
	var cb []int
	o := 0
	for _, c := range s.Cuts {
		o += c
		if o >= len(stream) {
			break
		}
		cb = append(cb, o)
	}
	cb = append(cb, len(stream))
	split3, multi := false, false
	start := 0
	for _, e := range bounds {
		n := 0
		for _, c := range cb {
			if c > start && c < e {
				n++
			}
		}
		if n >= 2 {
			split3 = true
		}
		start = e
	}
	prev := 0
	for _, c := range cb {
		n := 0
		for _, e := range bounds {
			if e > prev && e <= c {
				n++
			}
		}
		if n >= 2 {
			multi = true
		}
		prev = c
	}
	return split3 && multi
}

func drawStream(rt *rapid.T, M int) Stream {
	s := Stream{Illegal: -1}
	n := rapid.IntRange(0, 40).Draw(rt, "npkts")
	maxBody := M - 4
	total := 0
	bigUsed := false
	for i := 0; i < n; i++ {
		var l int
		mode := rapid.IntRange(0, 6).Draw(rt, "lenmode")
		if mode == 6 {
			// packets whose total size sits at the 4096-byte read-buffer boundaries
			l := rapid.SampledFrom([]int{4095, 4096, 4097, 8191, 8192, 8193, 12288}).Draw(rt, "bufedge") - 4
			if l > maxBody {
				l = maxBody
			}
			total += l
			s.BodyLens = append(s.BodyLens, l)
			continue
		}
		if (mode == 1 || mode == 2) && M > 65536 {
			// maximum-size packets of the 10 MiB default are expensive: at most one per stream,
			// in one stream out of eight
			if bigUsed || rapid.IntRange(0, 15).Draw(rt, "allowBig") != 0 {
				mode = 4
			} else {
				bigUsed = true
			}
		}
		switch mode {
		case 0:
			l = 0
		case 1:
			l = maxBody
		case 2:
			l = maxBody - 1
		case 3:
			l = rapid.IntRange(0, 8).Draw(rt, "small")
		default:
			hi := maxBody
			if hi > 9000 {
				hi = 9000
			}
			l = rapid.IntRange(0, hi).Draw(rt, "len")
		}
		if l < 0 {
			l = 0
		}
		if l > maxBody {
			l = maxBody
		}
		// keep streams at a few MB at most
		if total+l > 12<<20 {
			l = 0
		}
		total += l
		s.BodyLens = append(s.BodyLens, l)
	}
	if rapid.IntRange(0, 2).Draw(rt, "illegal") == 0 {
		s.Illegal = rapid.IntRange(0, n).Draw(rt, "illegalAt")
		s.IllLen = rapid.OneOf(rapid.Uint32Range(0, 3), rapid.SampledFrom([]uint32{uint32(M + 1), uint32(M + 2), 1<<32 - 1, 1 << 31, uint32(M) * 2}), rapid.Uint32Range(uint32(M+1), 1<<32-1)).Draw(rt, "illLen")
	}
	if rapid.IntRange(0, 4).Draw(rt, "trunc") == 0 {
		s.TruncLast = rapid.IntRange(1, 9).Draw(rt, "truncBytes")
	}
	s.Cuts = rapid.SliceOfN(rapid.OneOf(rapid.IntRange(1, 9), rapid.SampledFrom([]int{1, 1, 2, 3, 4, 5, 4095, 4096, 4097, 8192, 100000}), rapid.IntRange(1, 3000)), 0, 60).Draw(rt, "cuts")
	s.Timeouts = rapid.SliceOfN(rapid.IntRange(0, 30), 0, 4).Draw(rt, "timeouts")
	if rapid.IntRange(0, 5).Draw(rt, "aligned") == 0 && s.Illegal < 0 {
		// the stream ends exactly on a multiple of the 4096-byte read buffer and arrives in
		// chunks that are multiples of it: every read, the last one included, fills the buffer
		sum := 0
		for _, l := range s.BodyLens {
			sum += 4 + l
		}
		pad := (4096 - sum%4096) % 4096
		if pad > 0 && pad < 4 {
			pad += 4096
		}
		if pad == 0 || pad-4 <= maxBody {
			if pad > 0 {
				s.BodyLens = append(s.BodyLens, pad-4)
			}
			s.TruncLast = 0
			s.Cuts = rapid.SliceOfN(rapid.SampledFrom([]int{4096, 4096, 8192, 12288}), 0, 6).Draw(rt, "alignedCuts")
			s.Aligned = true
		}
	}
	return s
}

func drawCase(side string) func(rt *rapid.T) Case {
	return func(rt *rapid.T) Case {
		c := Case{Side: side}
		c.M = rapid.SampledFrom([]int{4, 5, 16, 64, 1024, 65536, 10485760}).Draw(rt, "M")
		ns := 1
		if side == "client" && rapid.Bool().Draw(rt, "reuseClient") {
			c.ReuseClient = true
			ns = rapid.IntRange(2, 4).Draw(rt, "nconnections")
		}
		if side == "server" {
			ns = rapid.IntRange(8, 24).Draw(rt, "nstreams")
		}
		for i := 0; i < ns; i++ {
			st := drawStream(rt, c.M)
			if side == "server" && rapid.IntRange(0, 3).Draw(rt, "shutdown") == 0 {
				st.ShutdownAt = 1 + rapid.IntRange(0, 12).Draw(rt, "shutdownAt")
				// make sure the loop is told about reads that bring nothing while a packet is
				// half received
				st.Timeouts = append(st.Timeouts, rapid.SliceOfN(rapid.IntRange(0, 30), 1, 6).Draw(rt, "moreTimeouts")...)
			}
			c.Streams = append(c.Streams, st)
		}
		return c
	}
}

func verdict(side string, i int, s *Stream, M int, rec *recorder, fc *fakeConn) *stat.Failure {
	_, expect, perr := s.build(M)
	rec.mu.Lock()
	got := append([][]byte{}, rec.delivered...)
	rec.mu.Unlock()
	// multiset equality with identity by sequence number embedded in each body
	if len(got) != len(expect) {
		return stat.Failf("packet-count", "%s stream %d (M=%d): %d packets handed to the protocol layer, the stream contains %d before its end/first illegal header (body lens %v, illegal at %d len %d, cuts %v)", side, i, M, len(got), len(expect), clipInts(s.BodyLens), s.Illegal, s.IllLen, clipInts(s.Cuts))
	}
	used := make([]bool, len(got))
	for _, e := range expect {
		found := false
		for j, g := range got {
			if !used[j] && bytes.Equal(g, e) {
				used[j], found = true, true
				break
			}
		}
		if !found {
			return stat.Failf("packet-content", "%s stream %d (M=%d): packet of %d bytes (seq %x) was not handed over byte-identical; cuts %v", side, i, M, len(e), e[:min(8, len(e))], clipInts(s.Cuts))
		}
	}
	if perr && !fc.isClosed() {
		return stat.Failf("not-closed-after-illegal-header", "%s stream %d (M=%d): illegal length prefix %d did not close the connection", side, i, M, s.IllLen)
	}
	return nil
}

func clipInts(a []int) []int {
	if len(a) > 30 {
		return a[:30]
	}
	return a
}

func runCase(c Case) *stat.Failure {
	sM = c.M
	protocol.SetMaxPackageLength(c.M)
	defer protocol.SetMaxPackageLength(10485760)
	if c.Side == "client" {
		var shared *recorder
		var sharedClient *transport.TarsClient
		for i := range c.Streams {
			s := &c.Streams[i]
			stream, expect, _ := s.build(c.M)
			rec := &recorder{client: true}
			if c.ReuseClient {
				// the streams of the case are consecutive connections of ONE client (as after
				// reconnects): what a connection left unframed must not reach the next one
				if shared == nil {
					shared = &recorder{client: true}
					sharedClient = transport.VerifNewClient(shared, &transport.TarsClientConf{Proto: "tcp", QueueLen: 10})
				}
				shared.reset()
				rec = shared
			}
			fc := newFakeConn(s.chunks(stream))
			done := make(chan struct{})
			go func() {
				defer close(done)
				if c.ReuseClient {
					sharedClient.VerifRecvOn(fc)
					return
				}
				transport.VerifClientRecv(rec, &transport.TarsClientConf{Proto: "tcp", QueueLen: 10}, fc)
			}()
			select {
			case <-done:
			case <-time.After(20 * time.Second):
				return stat.Failf("receive-loop-stuck", "client receive loop did not finish within 20 s after EOF (M=%d)", c.M)
			}
			// Recv runs in goroutines: wait until the count is stable
			dl := time.Now().Add(2 * time.Second)
			for rec.count() < len(expect) && time.Now().Before(dl) {
				time.Sleep(200 * time.Microsecond)
			}
			time.Sleep(300 * time.Microsecond)
			if c.ReuseClient {
				time.Sleep(2 * time.Millisecond) // stray deliveries of this stream must not count for the next
			}
			if f := verdict("client", i, s, c.M, rec, fc); f != nil {
				return f
			}
		}
		return nil
	}
	// server side: all streams concurrently (teardown polls a 500 ms ticker)
	type res struct {
		rec *recorder
		fc  *fakeConn
		ok  bool
	}
	results := make([]res, len(c.Streams))
	var wg sync.WaitGroup
	for i := range c.Streams {
		s := &c.Streams[i]
		stream, _, _ := s.build(c.M)
		rec := &recorder{}
		fc := newFakeConn(s.chunks(stream))
		results[i] = res{rec: rec, fc: fc}
		srv := transport.NewTarsServer(rec, &transport.TarsServerConf{Proto: "tcp", Address: "127.0.0.1:0", IdleTimeout: 600 * time.Second})
		if at := s.ShutdownAt; at > 0 {
			fc.hook = func(pos int) {
				if pos >= at-1 {
					srv.VerifMarkClosed()
				}
			}
		}
		wg.Add(1)
		go func(i int) {
			defer wg.Done()
			done := make(chan struct{})
			go func() { defer close(done); srv.VerifServeConn(fc) }()
			select {
			case <-done:
				results[i].ok = true
			case <-time.After(30 * time.Second):
			}
		}(i)
	}
	wg.Wait()
	time.Sleep(2 * time.Millisecond)
	for i := range c.Streams {
		s := &c.Streams[i]
		if !results[i].ok {
			return stat.Failf("receive-loop-stuck", "server receive loop of stream %d did not finish within 30 s after EOF (M=%d)", i, c.M)
		}
		if f := verdict("server", i, s, c.M, results[i].rec, results[i].fc); f != nil {
			return f
		}
		if !results[i].fc.isClosed() {
			return stat.Failf("not-closed-after-eof", "server stream %d: connection not closed after EOF", i)
		}
	}
	return nil
}

// ------------------------------------------------------------------ TarsRequest vs its spec

type TRCase struct {
	M   int    `json:"max_len"`
	Buf []byte `json:"buf"`
}

func runTarsRequest(c TRCase) *stat.Failure {
	protocol.SetMaxPackageLength(c.M)
	defer protocol.SetMaxPackageLength(10485760)
	n, status := protocol.TarsRequest(c.Buf)
	wantN, wantS := 0, protocol.PackageLess
	if len(c.Buf) >= 4 {
		l := int(binary.BigEndian.Uint32(c.Buf))
		switch {
		case l < 4 || l > c.M:
			wantS = protocol.PackageError
		case len(c.Buf) < l:
			wantS = protocol.PackageLess
		default:
			wantN, wantS = l, protocol.PackageFull
		}
	}
	if status != wantS || (wantS == protocol.PackageFull && n != wantN) {
		return stat.Failf("tarsrequest-spec", "TarsRequest(len %d, prefix % x, M=%d) = (%d,%d), specification says (%d,%d)", len(c.Buf), c.Buf[:min(4, len(c.Buf))], c.M, n, status, wantN, wantS)
	}
	return nil
}

func TestC07(t *testing.T) {
	defer st.Emit()
	record := func(c *Case) {
		nt := false
		cls := []string{"side-" + c.Side, fmt.Sprintf("M-%d", c.M)}
		for i := range c.Streams {
			s := &c.Streams[i]
			if nontrivialStream(s, c.M) {
				nt = true
			}
			if s.Illegal >= 0 {
				cls = append(cls, "stream-with-illegal-header")
			}
			if s.Aligned {
				cls = append(cls, "stream-aligned-to-read-buffer")
			}
			if len(s.Timeouts) > 0 {
				cls = append(cls, "stream-with-read-timeouts")
			}
		}
		st.CaseJSON(*c, nt, cls...)
		st.Class("streams", int64(len(c.Streams)))
	}
	stat.Check(t, st, "client", stat.N(2500, 40000), drawCase("client"), func(c Case) *stat.Failure { record(&c); return runCase(c) })
	stat.Check(t, st, "server", stat.N(24, 500), drawCase("server"), func(c Case) *stat.Failure { record(&c); return runCase(c) })
	stat.Check(t, st, "tarsrequest", stat.N(20000, 400000), func(rt *rapid.T) TRCase {
		M := rapid.SampledFrom([]int{4, 5, 16, 64, 1024, 65536, 10485760}).Draw(rt, "M")
		l := rapid.OneOf(rapid.Uint32Range(0, 8), rapid.SampledFrom([]uint32{uint32(M - 1), uint32(M), uint32(M + 1), 1<<32 - 1, 1 << 31}), rapid.Uint32()).Draw(rt, "prefix")
		n := rapid.OneOf(rapid.IntRange(0, 8), rapid.SampledFrom([]int{int(l) - 1, int(l), int(l) + 1})).Draw(rt, "buflen")
		if n < 0 {
			n = 0
		}
		if n > 70000 {
			n = 70000
		}
		b := make([]byte, n)
		if n >= 4 {
			binary.BigEndian.PutUint32(b, l)
		} else {
			for i := range b {
				b[i] = byte(l >> (8 * uint(i)))
			}
		}
		return TRCase{M: M, Buf: b}
	}, func(c TRCase) *stat.Failure {
		st.Case(append([]byte(fmt.Sprint(c.M)), c.Buf[:min(8, len(c.Buf))]...), len(c.Buf) >= 4, nil, "tarsrequest")
		return runTarsRequest(c)
	})
}
