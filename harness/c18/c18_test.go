// C18 — endpoint strings parse to the endpoint they describe.
//
// Sub-checks
//
//	parse      generated endpoints rendered as "<proto> -h .. -p .." with a generated subset of
//	           the nine options in generated order / spacing / with repeated options.
//	           Oracles: (1) every field of Parse(s) equals an INDEPENDENT reference parser of the
//	           documented format (defaults, weight normalisation, ssl => tcp + kind SSL);
//	           (2) a second rendering of the same endpoint (other order, other spacing) parses to
//	           the same fields and the same Key; (3) Tars2endpoint(Endpoint2tars(Parse(s))) keeps
//	           the ten listed fields and the Key; (4) a registry structure filled straight from the
//	           generator's model converts to the same Key; (5) an endpoint with another host, port
//	           or udp<->tcp transport gets a different Key.
//	registry   generated endpointf.EndpointF / endpoint.Endpoint with all fields; both conversion
//	           directions and the round trips keep host, port, timeout, transport kind, grid, qos,
//	           weight, weight type, auth type, set id; Key stable over the round trip.
//	malformed  no string makes Parse panic: exhaustive over short strings of a small alphabet and
//	           over "tcp"+suffix, plus rapid: random strings/bytes, blank-only, option without
//	           value, unknown option, non-numeric/overflowing numbers, '=' forms, leading blanks,
//	           unknown protocols, byte-level mutations of valid strings.
//	list       "Name@ep1:ep2:" address lists (trailing / doubled separators, blank parts) through
//	           the REAL direct-proxy constructor tars.NewServantProxy(tars.NewCommunicator(), ..):
//	           no panic; for all-valid lists every described endpoint is among Endpoints().
//
// Where the property text is silent (unknown protocol, garbage, '=' forms, leading blanks, numbers
// in other bases) only "no panic" is asserted.
//
// Known defect D-C18-short (confirmed against the unchanged tree with a standalone program):
// Parse(s) panics for len(s) < 3 (endpoint[0:3]) and for blank-only s (strings.Fields(s)[1:]).
// With VERIF_C18_ASSUME_FIXED unset that input class — exactly: len(s) < 3 || s consists of
// Unicode white space only — is excluded from the generators (counted in `excluded`) and a pinned
// case prints VERIF-KNOWN key=D-C18-short while it reproduces. With VERIF_C18_ASSUME_FIXED=1
// nothing is excluded.
//
// Sensitivity (scratch worktree = HEAD + proposed fix, VERIF_C18_ASSUME_FIXED=1, quick tier; "caught"
// = `./check C18` exit 1 with the named signature; the unmutated worktree exits 0):
//
//	default timeout 3000 -> 0                       caught (parse field:timeout, list list-endpoint)
//	weightType != 0 && weight > 100  ->  >= 100     EQUIVALENT mutant (100 is mapped to 100): exit 0,
//	                                                not detectable by any oracle; replaced by
//	  > 100 -> > 101                                caught (parse field:weight, "-w 101 -v 1")
//	  weight == -1 -> weight == 0                   caught (parse field:weight)
//	  `weightType != 0 &&` dropped                  caught (parse field:weight, Parse("tcp") weight 100)
//	drop SetId in Tars2endpoint                     caught (registry f2e:setid)
//	drop SetId in Endpoint2tars                     caught (registry e2f:setid)
//	swap Grid/Qos in Endpoint2tars                  caught (parse roundtrip:grid, registry e2f:grid)
//	String()/Key without the port                   caught (parse + registry key-collision)
//	-e parsed into qos                              caught (parse field:qos)
//	-b parsed into host                             caught (parse field:bind)
//	ssl keeps proto "ssl"                           caught (parse field:proto)
//	Tars2endpoint names udp endpoints "tcp"         caught (parse + registry key-registry)
//	revert either half of the proposed fix          caught (malformed-exhaustive-short, pinned,
//	                                                malformed, list: panic)
package c18

import (
	"fmt"
	"math"
	"os"
	"strconv"
	"strings"
	"sync/atomic"
	"testing"
	"unicode"

	"github.com/TarsCloud/TarsGo/tars"
	"github.com/TarsCloud/TarsGo/tars/protocol/res/endpointf"
	"github.com/TarsCloud/TarsGo/tars/util/endpoint"
	"pgregory.net/rapid"

	"verif/harness/stat"
)

var st = stat.New("C18",
	"parse: endpoint = proto tcp/udp/ssl + generated subset of the options -h -p -t -g -q -w -v -e -b (host/bind from hostname, IPv4 and IPv6-ish alphabets, never blank, never starting with '-'; port 0..65535; timeout/grid/qos >= 0 boundary-dense; weight -1, 0..100, >100; weight type and auth 0/1), rendered as '<proto> -x value ...' in a generated permutation, 1..3 spaces/tabs between tokens, optional trailing blanks, 0..3 repeated options whose last occurrence carries the final value; a second rendering with another permutation/spacing; a neighbour endpoint differing in host, port or udp<->tcp. Non-trivial = at least 5 distinct options in non-canonical order (canonical: h p t g q w v e b) or weight normalisation triggered (weight type != 0 and weight -1/absent or > 100). Distinct = distinct case JSON. registry: EndpointF/Endpoint with all fields (int32 boundary-dense, transport kind 0/1/2, set id empty/structured/random). malformed: exhaustive over all strings of length 0..4 (quick) / 0..6 (thorough) over {t c p - h ' ' 1 :} and 'tcp'+suffix of length 0..4/0..5 over {' ' tab - h p 1 = x}, plus rapid strings/bytes/mutations. list: 1..5 parts, valid endpoints without ':' in hosts and without -w/-v, empty, blank and garbage parts, through the real direct-proxy constructor.",
	"documented format = doc comment and flag definitions of parse.go plus the property statement: '<proto> -h host -p port -t timeout [-g -q -w -v -e -b]', each option followed by its value as a separate blank-separated token, decimal integers; defaults host \"\" port 0 timeout 3000 grid 0 qos 0 weight -1 weight-type 0 auth 0 bind \"\"; weight normalisation only when weight type != 0 (-1 -> 100, > 100 -> 100), weight kept as written when weight type = 0; registry transport kind 0=udp 1=tcp 2=ssl",
	"'-p=1', '--p 1', numbers in other bases, leading blanks, unknown protocols, options without value, unknown options: the property is silent => only 'no panic' is asserted",
	"repeated option: the last occurrence wins (DESIGN C18 domain; behaviour of every real caller through parse.go)",
	"cache key injectivity is asserted only for endpoints that differ in host, port or udp-vs-tcp transport (different network addresses must not share one adapter cache slot); nothing is asserted about timeout or tcp-vs-ssl in the key",
	"address lists go through the real constructor tars.NewServantProxy(tars.NewCommunicator(), name) (no running communicator needed); the harness replicates endpointmanager.go's split (strings.Index '@', strings.Split ':') only to know which parts the constructor will hand to Parse; list endpoints carry no -w/-v so that the selectors' static-weight code (property C13) is not involved",
	"VERIF_C18_ASSUME_FIXED unset: inputs with len < 3 or consisting of white space only are excluded (known defect D-C18-short), pinned case reports it; =1: nothing excluded",
	"flag-package diagnostics are silenced by pointing os.Stderr at /dev/null inside the test process (runtime crashes still reach fd 2)")

// D-C18-short is repaired in the repository (KNOWN_FINDINGS.txt "fixed:"), so nothing is excluded by
// default; VERIF_C18_ASSUME_FIXED=0 re-enables the exclusion for experiments on older trees.
var assumeFixed = os.Getenv("VERIF_C18_ASSUME_FIXED") != "0"

const knownKey = "D-C18-short"

// defective is exactly the input class of the confirmed defect D-C18-short.
func defective(s string) bool {
	if len(s) < 3 {
		return true
	}
	for _, r := range s {
		if !unicode.IsSpace(r) {
			return false
		}
	}
	return true
}

// ------------------------------------------------------------------ reference parser

// Fields is the observable content of an endpoint (Kind: 0 udp, 1 tcp, 2 ssl).
type Fields struct {
	Host       string
	Port       int32
	Timeout    int32
	Kind       int32
	Grid       int32
	Qos        int32
	Weight     int32
	WeightType int32
	AuthType   int32
	Proto      string
	Bind       string
}

func fieldsOf(e endpoint.Endpoint) Fields {
	return Fields{Host: e.Host, Port: e.Port, Timeout: e.Timeout, Kind: e.Istcp, Grid: e.Grid, Qos: e.Qos,
		Weight: e.Weight, WeightType: e.WeightType, AuthType: e.AuthType, Proto: e.Proto, Bind: e.Bind}
}

func diffFields(got, want Fields) (string, string) {
	switch {
	case got.Host != want.Host:
		return "host", fmt.Sprintf("%q want %q", got.Host, want.Host)
	case got.Port != want.Port:
		return "port", fmt.Sprintf("%d want %d", got.Port, want.Port)
	case got.Timeout != want.Timeout:
		return "timeout", fmt.Sprintf("%d want %d", got.Timeout, want.Timeout)
	case got.Kind != want.Kind:
		return "kind", fmt.Sprintf("%d want %d (0 udp, 1 tcp, 2 ssl)", got.Kind, want.Kind)
	case got.Proto != want.Proto:
		return "proto", fmt.Sprintf("%q want %q", got.Proto, want.Proto)
	case got.Grid != want.Grid:
		return "grid", fmt.Sprintf("%d want %d", got.Grid, want.Grid)
	case got.Qos != want.Qos:
		return "qos", fmt.Sprintf("%d want %d", got.Qos, want.Qos)
	case got.Weight != want.Weight:
		return "weight", fmt.Sprintf("%d want %d", got.Weight, want.Weight)
	case got.WeightType != want.WeightType:
		return "weighttype", fmt.Sprintf("%d want %d", got.WeightType, want.WeightType)
	case got.AuthType != want.AuthType:
		return "auth", fmt.Sprintf("%d want %d", got.AuthType, want.AuthType)
	case got.Bind != want.Bind:
		return "bind", fmt.Sprintf("%q want %q", got.Bind, want.Bind)
	}
	return "", ""
}

func blankSplit(s string) []string {
	var out []string
	cur := -1
	for i := 0; i <= len(s); i++ {
		if i == len(s) || s[i] == ' ' || s[i] == '\t' {
			if cur >= 0 {
				out = append(out, s[cur:i])
				cur = -1
			}
		} else if cur < 0 {
			cur = i
		}
	}
	return out
}

func decInt32(v string) (int32, bool) {
	d := v
	if strings.HasPrefix(d, "-") {
		d = d[1:]
	}
	if d == "" || (len(d) > 1 && d[0] == '0') {
		return 0, false
	}
	for _, c := range d {
		if c < '0' || c > '9' {
			return 0, false
		}
	}
	n, err := strconv.ParseInt(v, 10, 32)
	if err != nil {
		return 0, false
	}
	return int32(n), true
}

// refParse is the independent reference parser of the documented textual form. It accepts
// only the strict form (anything else => error => no expectation).
func refParse(s string) (Fields, error) {
	toks := blankSplit(s)
	if len(toks) == 0 || !strings.HasPrefix(s, toks[0]) {
		return Fields{}, fmt.Errorf("no leading protocol")
	}
	f := Fields{Timeout: 3000, Weight: -1}
	switch toks[0] {
	case "tcp":
		f.Kind, f.Proto = 1, "tcp"
	case "udp":
		f.Kind, f.Proto = 0, "udp"
	case "ssl":
		f.Kind, f.Proto = 2, "tcp"
	default:
		return Fields{}, fmt.Errorf("protocol %q", toks[0])
	}
	rest := toks[1:]
	if len(rest)%2 != 0 {
		return Fields{}, fmt.Errorf("option without value")
	}
	for i := 0; i < len(rest); i += 2 {
		o, v := rest[i], rest[i+1]
		if len(o) != 2 || o[0] != '-' {
			return Fields{}, fmt.Errorf("not an option: %q", o)
		}
		var dst *int32
		switch o[1] {
		case 'h':
			f.Host = v
			continue
		case 'b':
			f.Bind = v
			continue
		case 'p':
			dst = &f.Port
		case 't':
			dst = &f.Timeout
		case 'g':
			dst = &f.Grid
		case 'q':
			dst = &f.Qos
		case 'w':
			dst = &f.Weight
		case 'v':
			dst = &f.WeightType
		case 'e':
			dst = &f.AuthType
		default:
			return Fields{}, fmt.Errorf("unknown option %q", o)
		}
		n, ok := decInt32(v)
		if !ok {
			return Fields{}, fmt.Errorf("not a decimal int32: %q", v)
		}
		*dst = n
	}
	if f.WeightType != 0 {
		if f.Weight == -1 {
			f.Weight = 100 // no weight given for a weighted endpoint: full weight
		} else if f.Weight > 100 {
			f.Weight = 100 // clamp
		}
	}
	return f, nil
}

// ------------------------------------------------------------------ parse sub-check

const canonical = "hptgqwveb"

type Tok struct {
	L   string `json:"l"`
	V   string `json:"v"`
	Pre string `json:"pre"`
	Mid string `json:"mid"`
}

type ParseCase struct {
	Proto  string `json:"proto"`
	A      []Tok  `json:"a"`
	TrailA string `json:"trail_a"`
	B      []Tok  `json:"b"`
	TrailB string `json:"trail_b"`
	NKind  string `json:"n_kind"` // neighbour: host | port | proto
	NVal   string `json:"n_val"`
}

func render(proto string, toks []Tok, trail string) string {
	var sb strings.Builder
	sb.WriteString(proto)
	for _, t := range toks {
		sb.WriteString(t.Pre)
		sb.WriteString("-")
		sb.WriteString(t.L)
		sb.WriteString(t.Mid)
		sb.WriteString(t.V)
	}
	sb.WriteString(trail)
	return sb.String()
}

var blankGen = rapid.OneOf(rapid.Just(" "), rapid.Just(" "),
	rapid.StringOfN(rapid.SampledFrom([]rune{' ', '\t'}), 1, 3, -1))
var trailGen = rapid.OneOf(rapid.Just(""), rapid.Just(""),
	rapid.StringOfN(rapid.SampledFrom([]rune{' ', '\t'}), 1, 2, -1))

var labelGen = rapid.StringMatching(`[a-zA-Z0-9_]([a-zA-Z0-9_-]{0,6}[a-zA-Z0-9])?`)

func hostGen(allowColon bool) *rapid.Generator[string] {
	return rapid.Custom(func(t *rapid.T) string {
		k := rapid.IntRange(0, 9).Draw(t, "hostkind")
		if !allowColon && k >= 7 {
			k -= 4
		}
		switch {
		case k <= 2:
			n := rapid.IntRange(1, 4).Draw(t, "labels")
			parts := make([]string, n)
			for i := range parts {
				parts[i] = labelGen.Draw(t, "label")
			}
			return strings.Join(parts, ".")
		case k <= 6:
			o := rapid.SliceOfN(rapid.OneOf(rapid.IntRange(0, 255), rapid.SampledFrom([]int{0, 1, 10, 127, 255})), 4, 4).Draw(t, "octets")
			return fmt.Sprintf("%d.%d.%d.%d", o[0], o[1], o[2], o[3])
		default:
			body := rapid.OneOf(rapid.StringMatching(`[0-9a-f:]{1,20}`),
				rapid.SampledFrom([]string{"::1", "::", "fe80::1", "2001:db8::8a2e:370:7334", "::ffff:10.0.0.1", "0:0:0:0:0:0:0:1"})).Draw(t, "v6")
			switch rapid.IntRange(0, 5).Draw(t, "v6form") {
			case 0:
				return "[" + body + "]"
			case 1:
				return body + "%eth0"
			}
			return body
		}
	})
}

var (
	hostAny     = hostGen(true)
	hostNoColon = hostGen(false)
	portGen     = rapid.OneOf(rapid.IntRange(0, 65535), rapid.SampledFrom([]int{0, 1, 80, 443, 10000, 19386, 65534, 65535}))
	timeoutGen  = rapid.OneOf(rapid.IntRange(0, 600000), rapid.SampledFrom([]int{0, 1, 2999, 3000, 3001, 60000, math.MaxInt32}))
	smallGen    = rapid.OneOf(rapid.IntRange(0, 1000), rapid.SampledFrom([]int{0, 1, 2, 10, math.MaxInt32}))
	weightGen   = rapid.Custom(func(t *rapid.T) int {
		switch k := rapid.IntRange(0, 9).Draw(t, "wkind"); {
		case k == 0:
			return -1
		case k <= 4:
			return rapid.IntRange(0, 100).Draw(t, "w")
		case k <= 7:
			return rapid.SampledFrom([]int{0, 1, 99, 100, 101, 102, 1000, math.MaxInt32}).Draw(t, "w")
		}
		return rapid.IntRange(101, 100000).Draw(t, "w")
	})
	bitGen = rapid.IntRange(0, 1)
)

func drawValue(t *rapid.T, l byte, colon bool) string {
	switch l {
	case 'h', 'b':
		if colon {
			return hostAny.Draw(t, "host")
		}
		return hostNoColon.Draw(t, "host")
	case 'p':
		return strconv.Itoa(portGen.Draw(t, "port"))
	case 't':
		return strconv.Itoa(timeoutGen.Draw(t, "timeout"))
	case 'g', 'q':
		return strconv.Itoa(smallGen.Draw(t, "n"))
	case 'w':
		return strconv.Itoa(weightGen.Draw(t, "weight"))
	default: // v, e
		return strconv.Itoa(bitGen.Draw(t, "bit"))
	}
}

// drawFinals draws the set of options present with their final values, canonical order.
func drawFinals(t *rapid.T, letters string, colon bool) []Tok {
	density := rapid.SampledFrom([]int{0, 20, 35, 50, 65, 65, 75, 85, 85, 100, 100, 100}).Draw(t, "density")
	var out []Tok
	for i := 0; i < len(letters); i++ {
		if rapid.IntRange(0, 99).Draw(t, "present") < density {
			out = append(out, Tok{L: string(letters[i]), V: drawValue(t, letters[i], colon)})
		}
	}
	return out
}

func respace(t *rapid.T, toks []Tok) []Tok {
	out := make([]Tok, len(toks))
	for i, k := range toks {
		out[i] = Tok{L: k.L, V: k.V, Pre: blankGen.Draw(t, "pre"), Mid: blankGen.Draw(t, "mid")}
	}
	return out
}

func lastIndex(toks []Tok, l string) int {
	for i := len(toks) - 1; i >= 0; i-- {
		if toks[i].L == l {
			return i
		}
	}
	return -1
}

func drawRendering(t *rapid.T, finals []Tok, repeats bool) []Tok {
	toks := respace(t, rapid.Permutation(finals).Draw(t, "perm"))
	if repeats && len(toks) > 0 {
		n := rapid.SampledFrom([]int{0, 0, 0, 1, 1, 2, 3}).Draw(t, "repeats")
		for i := 0; i < n; i++ {
			l := toks[rapid.IntRange(0, len(toks)-1).Draw(t, "rep-of")].L
			pos := rapid.IntRange(0, lastIndex(toks, l)).Draw(t, "rep-pos")
			d := Tok{L: l, V: drawValue(t, l[0], true), Pre: blankGen.Draw(t, "pre"), Mid: blankGen.Draw(t, "mid")}
			toks = append(toks[:pos], append([]Tok{d}, toks[pos:]...)...)
		}
	}
	return toks
}

func drawParse(t *rapid.T) ParseCase {
	c := ParseCase{Proto: rapid.SampledFrom([]string{"tcp", "tcp", "udp", "ssl"}).Draw(t, "proto")}
	finals := drawFinals(t, canonical, true)
	c.A = drawRendering(t, finals, true)
	c.TrailA = trailGen.Draw(t, "trailA")
	c.B = drawRendering(t, finals, rapid.IntRange(0, 3).Draw(t, "b-repeats") == 0)
	c.TrailB = trailGen.Draw(t, "trailB")
	c.NKind = rapid.SampledFrom([]string{"host", "port", "proto"}).Draw(t, "nkind")
	switch c.NKind {
	case "host":
		c.NVal = hostAny.Draw(t, "nhost")
	case "port":
		c.NVal = strconv.Itoa(portGen.Draw(t, "nport"))
	}
	return c
}

// modelOf derives the described endpoint from the token list itself (last occurrence of each
// option) — a second, parser-free derivation used to cross-check the reference parser.
func modelOf(proto string, toks []Tok) (Fields, error) {
	var canon []string
	canon = append(canon, proto)
	for i := 0; i < len(canonical); i++ {
		l := string(canonical[i])
		if j := lastIndex(toks, l); j >= 0 {
			canon = append(canon, "-"+l, toks[j].V)
		}
	}
	return refParse(strings.Join(canon, " "))
}

func distinctLetters(toks []Tok) (n int, nonCanonical bool, repeated bool) {
	seen := map[string]bool{}
	last := -1
	for _, k := range toks {
		if seen[k.L] {
			repeated = true
			continue
		}
		seen[k.L] = true
		idx := strings.Index(canonical, k.L)
		if idx < last {
			nonCanonical = true
		}
		last = idx
	}
	return len(seen), nonCanonical, repeated
}

func safeParse(s string) (e endpoint.Endpoint, pan any) {
	defer func() {
		if r := recover(); r != nil {
			pan = r
		}
	}()
	return endpoint.Parse(s), nil
}

func kindOK(e endpoint.Endpoint) bool {
	switch e.Istcp {
	case 0:
		return e.IsUdp() && !e.IsTcp() && !e.IsSSL()
	case 1:
		return e.IsTcp() && !e.IsUdp() && !e.IsSSL()
	case 2:
		return e.IsTcp() && e.IsSSL() && !e.IsUdp()
	}
	return true
}

func runParse(c ParseCase) *stat.Failure {
	sA := render(c.Proto, c.A, c.TrailA)
	sB := render(c.Proto, c.B, c.TrailB)
	want, err := refParse(sA)
	if err != nil {
		return stat.Failf("harness-selfcheck", "reference parser rejects generated input %q: %v", sA, err)
	}
	model, err := modelOf(c.Proto, c.A)
	if err != nil || model != want {
		return stat.Failf("harness-selfcheck", "model %+v / reference parser %+v disagree on %q (%v)", model, want, sA, err)
	}
	if mb, err := modelOf(c.Proto, c.B); err != nil || mb != want {
		return stat.Failf("harness-selfcheck", "second rendering %q describes %+v, first %q describes %+v (%v)", sB, mb, sA, want, err)
	}

	// ---- classification
	n, nonCanon, repeated := distinctLetters(c.A)
	wt, hasW := int32(0), lastIndex(c.A, "w") >= 0
	rawW := int32(-1)
	if j := lastIndex(c.A, "v"); j >= 0 {
		x, _ := decInt32(c.A[j].V)
		wt = x
	}
	if hasW {
		rawW, _ = decInt32(c.A[lastIndex(c.A, "w")].V)
	}
	norm := wt != 0 && (rawW == -1 || rawW > 100)
	classes := []string{"parse", "proto-" + c.Proto, fmt.Sprintf("options-%d", n)}
	if n >= 5 && nonCanon {
		classes = append(classes, "options>=5-noncanonical-order")
	}
	if norm {
		classes = append(classes, "weight-normalised")
		if rawW > 100 {
			classes = append(classes, "weight-clamped(>100)")
		} else if hasW {
			classes = append(classes, "weight-explicit(-1)->100")
		} else {
			classes = append(classes, "weight-default(-1)->100")
		}
	} else if wt != 0 {
		classes = append(classes, "weight-type1-in-range-kept")
	} else if hasW {
		classes = append(classes, "weight-type0-kept-as-written")
	}
	if repeated {
		classes = append(classes, "repeated-option")
	}
	if strings.Contains(sA, "\t") {
		classes = append(classes, "tabs")
	}
	if strings.Contains(sA, "  ") || strings.Contains(sA, "\t\t") || strings.Contains(sA, " \t") || strings.Contains(sA, "\t ") {
		classes = append(classes, "multi-blank")
	}
	if c.TrailA != "" {
		classes = append(classes, "trailing-blank")
	}
	if lastIndex(c.A, "t") < 0 {
		classes = append(classes, "default-timeout")
	}
	if strings.Contains(want.Host, ":") {
		classes = append(classes, "host-with-colon")
	}
	st.CaseJSON(c, (n >= 5 && nonCanon) || norm, classes...)

	// ---- (1) fields against the reference parser
	eA, p := safeParse(sA)
	if p != nil {
		return stat.Failf("panic", "Parse(%q) panicked: %v", sA, p)
	}
	if f, d := diffFields(fieldsOf(eA), want); f != "" {
		return stat.Failf("field:"+f, "Parse(%q): %s = %s; full result %+v", sA, f, d, eA)
	}
	if !kindOK(eA) {
		return stat.Failf("field:kind", "Parse(%q): IsTcp/IsUdp/IsSSL inconsistent with transport kind %d", sA, eA.Istcp)
	}
	// ---- (2) second rendering
	eB, p := safeParse(sB)
	if p != nil {
		return stat.Failf("panic", "Parse(%q) panicked: %v", sB, p)
	}
	if f, d := diffFields(fieldsOf(eB), fieldsOf(eA)); f != "" {
		return stat.Failf("rendering-field", "two renderings of one endpoint differ in %s (%s): %q vs %q", f, d, sB, sA)
	}
	if eA.Key != eB.Key {
		return stat.Failf("rendering-key", "two renderings of one endpoint have keys %q and %q: %q vs %q", eA.Key, eB.Key, sA, sB)
	}
	// ---- (3) registry round trip of the parsed endpoint
	rt := endpoint.Tars2endpoint(endpoint.Endpoint2tars(eA))
	if f := diffTen(rt, eA); f != "" {
		return stat.Failf("roundtrip:"+f, "Tars2endpoint(Endpoint2tars(Parse(%q))) changed %s: %+v -> %+v", sA, f, eA, rt)
	}
	if rt.Key != eA.Key {
		return stat.Failf("key-registry", "Parse(%q).Key = %q but after the registry round trip %q", sA, eA.Key, rt.Key)
	}
	// ---- (4) registry structure filled from the model, not from Parse
	ef := endpointf.EndpointF{Host: want.Host, Port: want.Port, Timeout: want.Timeout, Istcp: want.Kind, Grid: want.Grid,
		Qos: want.Qos, Weight: want.Weight, WeightType: want.WeightType, AuthType: want.AuthType}
	if k := endpoint.Tars2endpoint(ef).Key; k != eA.Key {
		return stat.Failf("key-registry", "same endpoint: address string %q has key %q, registry structure %+v has key %q", sA, eA.Key, ef, k)
	}
	// ---- (5) neighbour endpoint (different network address) must not share the key
	nProto, nToks := c.Proto, append([]Tok(nil), c.B...)
	differs := true
	switch c.NKind {
	case "proto":
		if c.Proto == "udp" {
			nProto = "tcp"
		} else {
			nProto = "udp"
		}
	case "host":
		differs = c.NVal != want.Host
		nToks = append(nToks, Tok{L: "h", V: c.NVal, Pre: " ", Mid: " "})
	case "port":
		differs = c.NVal != strconv.Itoa(int(want.Port))
		nToks = append(nToks, Tok{L: "p", V: c.NVal, Pre: " ", Mid: " "})
	}
	if differs {
		sN := render(nProto, nToks, "")
		eN, p := safeParse(sN)
		if p != nil {
			return stat.Failf("panic", "Parse(%q) panicked: %v", sN, p)
		}
		if eN.Key == eA.Key {
			return stat.Failf("key-collision", "endpoints %q and %q differ in %s but share the cache key %q", sA, sN, c.NKind, eA.Key)
		}
		st.Class("key-neighbour-"+c.NKind, 1)
	}
	return nil
}

// diffTen compares the ten fields the property lists for the registry conversion.
func diffTen(a, b endpoint.Endpoint) string {
	switch {
	case a.Host != b.Host:
		return "host"
	case a.Port != b.Port:
		return "port"
	case a.Timeout != b.Timeout:
		return "timeout"
	case a.Istcp != b.Istcp:
		return "kind"
	case a.Grid != b.Grid:
		return "grid"
	case a.Qos != b.Qos:
		return "qos"
	case a.Weight != b.Weight:
		return "weight"
	case a.WeightType != b.WeightType:
		return "weighttype"
	case a.AuthType != b.AuthType:
		return "auth"
	case a.SetId != b.SetId:
		return "setid"
	}
	return ""
}

// ------------------------------------------------------------------ registry sub-check

type RegCase struct {
	Host        string `json:"host"`
	Port        int32  `json:"port"`
	Timeout     int32  `json:"timeout"`
	Istcp       int32  `json:"istcp"`
	Grid        int32  `json:"grid"`
	Groupworkid int32  `json:"groupworkid"`
	Grouprealid int32  `json:"grouprealid"`
	SetId       string `json:"set_id"`
	Qos         int32  `json:"qos"`
	BakFlag     int32  `json:"bak_flag"`
	Weight      int32  `json:"weight"`
	WeightType  int32  `json:"weight_type"`
	AuthType    int32  `json:"auth_type"`
	Bind        string `json:"bind"`
	Container   string `json:"container"`
}

var i32Gen = rapid.OneOf(rapid.Int32(), rapid.Int32Range(0, 70000),
	rapid.SampledFrom([]int32{0, 1, -1, 99, 100, 101, 3000, 65535, 65536, math.MaxInt32, math.MinInt32}))

var setIDGen = rapid.OneOf(rapid.Just(""),
	rapid.StringMatching(`[a-z]{1,5}\.[a-z0-9]{1,3}\.([0-9]{1,2}|\*)`),
	rapid.StringN(1, 12, -1))

func drawReg(t *rapid.T) RegCase {
	c := RegCase{
		Host:    rapid.OneOf(hostAny, rapid.Just("")).Draw(t, "host"),
		Port:    i32Gen.Draw(t, "port"),
		Timeout: i32Gen.Draw(t, "timeout"),
		Istcp:   rapid.Int32Range(0, 2).Draw(t, "istcp"),
		Grid:    i32Gen.Draw(t, "grid"),
		SetId:   setIDGen.Draw(t, "setid"),
		Qos:     i32Gen.Draw(t, "qos"),
		Weight:  i32Gen.Draw(t, "weight"),
	}
	c.Groupworkid = i32Gen.Draw(t, "gw")
	c.Grouprealid = i32Gen.Draw(t, "gr")
	c.BakFlag = rapid.Int32Range(0, 1).Draw(t, "bak")
	c.WeightType = rapid.Int32Range(0, 1).Draw(t, "wt")
	c.AuthType = rapid.Int32Range(0, 1).Draw(t, "auth")
	if rapid.Bool().Draw(t, "hasbind") {
		c.Bind = hostAny.Draw(t, "bind")
	}
	if rapid.Bool().Draw(t, "hascontainer") {
		c.Container = labelGen.Draw(t, "container")
	}
	return c
}

func runReg(c RegCase) (fail *stat.Failure) {
	defer func() {
		if r := recover(); r != nil {
			fail = stat.Failf("panic", "registry conversion panicked: %v", r)
		}
	}()
	classes := []string{"registry-roundtrip", fmt.Sprintf("registry-kind-%d", c.Istcp)}
	if c.SetId != "" {
		classes = append(classes, "registry-setid-nonempty")
	}
	if c.Grid != c.Qos {
		classes = append(classes, "registry-grid!=qos")
	}
	st.CaseJSON(c, false, classes...)

	f := endpointf.EndpointF{Host: c.Host, Port: c.Port, Timeout: c.Timeout, Istcp: c.Istcp, Grid: c.Grid,
		Groupworkid: c.Groupworkid, Grouprealid: c.Grouprealid, SetId: c.SetId, Qos: c.Qos, BakFlag: c.BakFlag,
		Weight: c.Weight, WeightType: c.WeightType, AuthType: c.AuthType}
	// the same ten values as an Endpoint, for comparison
	proto := "tcp"
	if c.Istcp == 0 {
		proto = "udp"
	}
	wantE := endpoint.Endpoint{Host: c.Host, Port: c.Port, Timeout: c.Timeout, Istcp: c.Istcp, Grid: c.Grid, Qos: c.Qos,
		Weight: c.Weight, WeightType: c.WeightType, AuthType: c.AuthType, SetId: c.SetId}
	// registry -> endpoint
	e := endpoint.Tars2endpoint(f)
	if d := diffTen(e, wantE); d != "" {
		return stat.Failf("f2e:"+d, "Tars2endpoint(%+v) = %+v: %s not preserved", f, e, d)
	}
	if !kindOK(e) {
		return stat.Failf("f2e:kind", "Tars2endpoint(%+v): IsTcp/IsUdp/IsSSL inconsistent with kind %d", f, e.Istcp)
	}
	// endpoint -> registry
	f2 := endpoint.Endpoint2tars(e)
	back := endpoint.Endpoint{Host: f2.Host, Port: f2.Port, Timeout: f2.Timeout, Istcp: f2.Istcp, Grid: f2.Grid, Qos: f2.Qos,
		Weight: f2.Weight, WeightType: f2.WeightType, AuthType: f2.AuthType, SetId: f2.SetId}
	if d := diffTen(back, wantE); d != "" {
		return stat.Failf("e2f:"+d, "Endpoint2tars(Tars2endpoint(%+v)) = %+v: %s not preserved", f, f2, d)
	}
	e2 := endpoint.Tars2endpoint(f2)
	if e2.Key != e.Key {
		return stat.Failf("key-registry", "registry round trip changes the key %q -> %q (%+v)", e.Key, e2.Key, f)
	}
	// endpoint (as a direct address would produce it, plus bind/container/set id) -> registry -> endpoint
	src := wantE
	src.Proto, src.Bind, src.Container = proto, c.Bind, c.Container
	src.Key = src.String()
	r := endpoint.Tars2endpoint(endpoint.Endpoint2tars(src))
	if d := diffTen(r, src); d != "" {
		return stat.Failf("e2f2e:"+d, "Tars2endpoint(Endpoint2tars(%+v)) = %+v: %s not preserved", src, r, d)
	}
	if r.Key != src.Key {
		return stat.Failf("key-registry", "endpoint %+v has key %q, after the registry round trip %q", src, src.Key, r.Key)
	}
	// another port / host => another key
	g := f
	if g.Port == math.MaxInt32 {
		g.Port = 0
	} else {
		g.Port++
	}
	if k := endpoint.Tars2endpoint(g).Key; k == e.Key {
		return stat.Failf("key-collision", "registry endpoints with ports %d and %d on host %q share the key %q", f.Port, g.Port, f.Host, k)
	}
	g = f
	g.Host += "x"
	if k := endpoint.Tars2endpoint(g).Key; k == e.Key {
		return stat.Failf("key-collision", "registry endpoints with hosts %q and %q share the key %q", f.Host, g.Host, k)
	}
	return nil
}

// ------------------------------------------------------------------ malformed sub-check

type BadCase struct {
	Kind string `json:"kind"`
	S    []byte `json:"s"` // raw bytes (base64 in JSON): may be invalid UTF-8
}

func drawValid(t *rapid.T) string {
	proto := rapid.SampledFrom([]string{"tcp", "udp", "ssl"}).Draw(t, "proto")
	return render(proto, drawRendering(t, drawFinals(t, canonical, true), true), trailGen.Draw(t, "trail"))
}

var wsRunes = []rune{' ', '\t', '\n', '\r', '\v', '\f', 0x85, 0xa0, 0x2003, 0x3000}

func drawBad(t *rapid.T) BadCase {
	kinds := []string{"random-string", "random-bytes", "blank-only", "short", "option-without-value", "unknown-option",
		"bad-number", "equals-form", "mutation", "leading-blank", "unknown-proto", "positional-junk", "ascii-soup"}
	c := BadCase{Kind: rapid.SampledFrom(kinds).Draw(t, "kind")}
	var s string
	switch c.Kind {
	case "random-string":
		s = rapid.String().Draw(t, "s")
	case "random-bytes":
		s = string(rapid.SliceOfN(rapid.Byte(), 0, 40).Draw(t, "b"))
	case "blank-only":
		s = rapid.StringOfN(rapid.SampledFrom(wsRunes), 0, 8, -1).Draw(t, "ws")
	case "short":
		s = string(rapid.SliceOfN(rapid.Byte(), 0, 2).Draw(t, "b"))
	case "option-without-value":
		s = drawValid(t) + blankGen.Draw(t, "sp") + "-" + string(canonical[rapid.IntRange(0, 8).Draw(t, "l")]) + trailGen.Draw(t, "tr")
	case "unknown-option":
		s = drawValid(t) + blankGen.Draw(t, "sp") + rapid.SampledFrom([]string{"-x 1", "-x", "-zz 3", "--", "-", "---h a", "-H a", "-help", "--help", "-\x00 1", "-é 1", "-- -h a"}).Draw(t, "opt")
	case "bad-number":
		l := string("ptgqwve"[rapid.IntRange(0, 6).Draw(t, "l")])
		v := rapid.SampledFrom([]string{"abc", "1.5", "", "99999999999999999999", "-99999999999999999999", "9223372036854775808", "4294967296", "0x", "1e3", "١٢", "--1", "+", "1 2"}).Draw(t, "v")
		s = rapid.SampledFrom([]string{"tcp", "udp", "ssl"}).Draw(t, "proto") + " -" + l + " " + v + " -h a"
	case "equals-form":
		s = "tcp " + rapid.SampledFrom([]string{"-p=1", "--p=1", "-h=", "-=1", "-h=a=b -p=2", "-p= 1", "-=", "--=", "-p=x"}).Draw(t, "f")
	case "mutation":
		b := []byte(drawValid(t))
		for i, n := 0, rapid.IntRange(1, 3).Draw(t, "nmut"); i < n; i++ {
			switch op := rapid.IntRange(0, 3).Draw(t, "op"); {
			case op == 0 || len(b) == 0: // insert
				pos := rapid.IntRange(0, len(b)).Draw(t, "pos")
				b = append(b[:pos], append([]byte{rapid.Byte().Draw(t, "byte")}, b[pos:]...)...)
			case op == 1: // delete
				pos := rapid.IntRange(0, len(b)-1).Draw(t, "pos")
				b = append(b[:pos], b[pos+1:]...)
			case op == 2: // truncate
				b = b[:rapid.IntRange(0, len(b)).Draw(t, "cut")]
			default: // overwrite
				b[rapid.IntRange(0, len(b)-1).Draw(t, "pos")] = rapid.Byte().Draw(t, "byte")
			}
		}
		s = string(b)
	case "leading-blank":
		s = blankGen.Draw(t, "lead") + drawValid(t)
	case "unknown-proto":
		s = rapid.SampledFrom([]string{"xyz", "TCP", "tcpx", "tc", "http", "tcp-h", "é", "tls", "ss", "-h", "tcp:"}).Draw(t, "p") +
			rapid.SampledFrom([]string{"", " ", " -h a -p 1", "-h a"}).Draw(t, "rest")
	case "positional-junk":
		s = "tcp " + rapid.SampledFrom([]string{"foo -h a", "-h a b -p 1", "1 2 3", "h a", "- h a"}).Draw(t, "j")
	default: // ascii-soup
		s = rapid.StringOfN(rapid.SampledFrom([]rune("tcpudsl-hptgqwvebx=:@ \t019")), 0, 24, -1).Draw(t, "soup")
	}
	c.S = []byte(s)
	return c
}

func runBad(c BadCase) *stat.Failure {
	s := string(c.S)
	if !assumeFixed && defective(s) {
		st.Excluded(knownKey + ":malformed-" + c.Kind)
		return nil
	}
	st.CaseJSON(c, false, "malformed", "malformed-"+c.Kind)
	if _, p := safeParse(s); p != nil {
		return stat.Failf("panic", "Parse(%q) panicked: %v", s, p)
	}
	return nil
}

// ------------------------------------------------------------------ address-list sub-check

type ListCase struct {
	Prefix string   `json:"prefix"`
	Parts  []string `json:"parts"`
}

const listLetters = "hptgqeb" // no -w / -v: static-weight selector code belongs to C13

func drawList(t *rapid.T) ListCase {
	c := ListCase{Prefix: rapid.SampledFrom([]string{"App.Srv.", "tars.tarsregistry.", "V.C18.", "a."}).Draw(t, "prefix")}
	n := rapid.IntRange(1, 5).Draw(t, "n")
	for i := 0; i < n; i++ {
		var p string
		switch k := rapid.IntRange(0, 29).Draw(t, "partkind"); {
		case k >= 20 || k <= 13:
			proto := rapid.SampledFrom([]string{"tcp", "udp", "ssl"}).Draw(t, "proto")
			fin := drawFinals(t, listLetters, false)
			if lastIndex(fin, "h") < 0 { // a usable list entry names a host
				fin = append(fin, Tok{L: "h", V: hostNoColon.Draw(t, "host")})
			}
			p = render(proto, drawRendering(t, fin, true), trailGen.Draw(t, "trail"))
		case k <= 15:
			p = ""
		case k == 16:
			p = rapid.StringOfN(rapid.SampledFrom([]rune{' ', '\t'}), 1, 4, -1).Draw(t, "blank")
		case k == 17:
			p = rapid.SampledFrom([]string{"t", "tc", "-h", "a"}).Draw(t, "short")
		case k == 18:
			p = " tcp -h 127.0.0.1 -p 1"
		default:
			p = rapid.SampledFrom([]string{"tcp", "xyz -h a -p 1", "tcp -h", "tcp -p x -h b"}).Draw(t, "garbage")
		}
		c.Parts = append(c.Parts, p)
	}
	switch rapid.IntRange(0, 9).Draw(t, "tail") {
	case 0:
		c.Parts = append(c.Parts, "") // trailing separator
	case 1:
		c.Parts = append(c.Parts, "", "") // two trailing separators
	}
	return c
}

var (
	comm    *tars.Communicator
	listSeq int64
)

func newProxy(objName string) (eps []*endpoint.Endpoint, pan any) {
	defer func() {
		if r := recover(); r != nil {
			pan = r
		}
	}()
	sp := tars.NewServantProxy(comm, objName)
	return sp.Endpoints(), nil
}

func runList(c ListCase) *stat.Failure {
	// endpoint managers are cached process-wide by object name => fresh name per case
	objName := fmt.Sprintf("%sN%dObj@%s", c.Prefix, atomic.AddInt64(&listSeq, 1), strings.Join(c.Parts, ":"))
	// what the constructor will hand to Parse (endpointmanager.go: Index "@", Split ":")
	pos := strings.Index(objName, "@")
	ends := strings.Split(objName[pos+1:], ":")
	// failure messages must be identical for identical cases (rapid re-runs a shrunk case and
	// compares the messages), so they show the name without the sequence number
	shown := c.Prefix + "N<seq>Obj" + objName[pos:]
	nDef, allValid := 0, true
	wants := make([]Fields, 0, len(ends))
	for _, e := range ends {
		if defective(e) {
			nDef++
		}
		w, err := refParse(e)
		if err != nil {
			allValid = false
		}
		wants = append(wants, w)
	}
	if !assumeFixed && nDef > 0 {
		st.Excluded(knownKey + ":list-with-empty-or-short-part")
		return nil
	}
	classes := []string{"list"}
	if nDef > 0 {
		classes = append(classes, "list-with-empty-or-short-part")
	}
	if len(ends) > 0 && ends[len(ends)-1] == "" {
		classes = append(classes, "list-trailing-separator")
	}
	if allValid {
		classes = append(classes, "list-all-valid", fmt.Sprintf("list-all-valid-%d-endpoints", len(ends)))
	}
	st.CaseJSON(c, false, classes...)
	eps, p := newProxy(objName)
	if p != nil {
		return stat.Failf("panic", "NewServantProxy(comm, %q) panicked: %v", shown, p)
	}
	if allValid {
		for i, w := range wants {
			found := false
			for _, e := range eps {
				if fieldsOf(*e) == w {
					found = true
					break
				}
			}
			if !found {
				var got []string
				for _, e := range eps {
					got = append(got, fmt.Sprintf("%+v", *e))
				}
				return stat.Failf("list-endpoint", "proxy %q: endpoint %d (%q => %+v) is not among Endpoints() = %v", shown, i, ends[i], w, got)
			}
		}
	}
	return nil
}

// ------------------------------------------------------------------ exhaustive + pinned

func enumerate(alphabet string, maxLen int, f func(idx int, s string) bool) {
	idx := 0
	buf := make([]byte, 0, maxLen)
	var rec func(depth, n int) bool
	rec = func(depth, n int) bool {
		if depth == n {
			idx++
			return f(idx-1, string(buf))
		}
		for i := 0; i < len(alphabet); i++ {
			buf = append(buf, alphabet[i])
			ok := rec(depth+1, n)
			buf = buf[:len(buf)-1]
			if !ok {
				return false
			}
		}
		return true
	}
	for n := 0; n <= maxLen; n++ {
		if !rec(0, n) {
			return
		}
	}
}

func exhaustive(t *testing.T) {
	thorough := stat.Tier() == "thorough"
	shard, shards := stat.Shard()
	type space struct {
		class, prefix, alphabet string
		maxLen                  int
	}
	spaces := []space{
		{"malformed-exhaustive-short", "", "tcp-h 1:", 4},
		{"malformed-exhaustive-tcp-suffix", "tcp", " \t-hp1=x", 4},
	}
	if thorough {
		spaces[0].maxLen, spaces[1].maxLen = 6, 5
	}
	for _, sp := range spaces {
		var n, excl int64
		failed := false
		enumerate(sp.alphabet, sp.maxLen, func(idx int, suffix string) bool {
			if idx%shards != shard {
				return true
			}
			s := sp.prefix + suffix
			if !assumeFixed && defective(s) {
				excl++
				return true
			}
			n++
			if _, p := safeParse(s); p != nil {
				f := stat.Failf("panic", "Parse(%q) panicked: %v", s, p)
				st.Report(sp.class, f, BadCase{Kind: sp.class, S: []byte(s)})
				t.Errorf("%s: %v", sp.class, f)
				failed = true
				return false
			}
			return true
		})
		st.Bulk(n, 0, sp.class)
		st.Class("malformed-exhaustive", n)
		for i := int64(0); i < excl; i++ {
			st.Excluded(knownKey + ":" + sp.class)
		}
		if !failed {
			st.Extra(sp.class, fmt.Sprintf("all strings %q+w, w over %q, |w| <= %d", sp.prefix, sp.alphabet, sp.maxLen))
		}
	}
}

func pinned(t *testing.T) {
	var repro []string
	for _, s := range []string{"", "t", "tc", "   ", "\t\t\t\t"} {
		if _, p := safeParse(s); p != nil {
			repro = append(repro, fmt.Sprintf("Parse(%q): %v", s, p))
		}
	}
	for _, name := range []string{"V.C18.PinnedAObj@tcp -h 127.0.0.1 -p 10015:", "V.C18.PinnedBObj@tcp -h 127.0.0.1 -p 10015::tcp -h 127.0.0.2 -p 10015"} {
		if _, p := newProxy(name); p != nil {
			repro = append(repro, fmt.Sprintf("NewServantProxy(comm, %q): %v", name, p))
		}
	}
	st.Class("pinned-short-and-blank", 7)
	if len(repro) == 0 {
		if !assumeFixed {
			st.Extra("note", "D-C18-short does not reproduce on this tree; run with VERIF_C18_ASSUME_FIXED=1 to drop the exclusions")
		}
		return
	}
	msg := "endpoint.Parse panics (slice bounds out of range) on strings shorter than 3 bytes and on blank-only strings, e.g. an address list with a trailing ':' crashes the direct-proxy constructor: " + strings.Join(repro, "; ")
	if assumeFixed {
		f := stat.Failf("panic", "%s", msg)
		st.Report("pinned", f, map[string]any{"reproduced": repro})
		t.Errorf("pinned: %v", f)
		return
	}
	st.Known(knownKey, msg)
}

// ------------------------------------------------------------------ top level

func TestC18(t *testing.T) {
	defer st.Emit()
	// the flag package prints a usage text for every malformed option list
	if devnull, err := os.OpenFile(os.DevNull, os.O_WRONLY, 0); err == nil {
		os.Stderr = devnull
	}
	comm = tars.NewCommunicator()
	st.Extra("assume_fixed", assumeFixed)

	if stat.ReplayPath() == "" && os.Getenv("VERIF_ONLY") == "" {
		exhaustive(t)
		pinned(t)
		st.AddSample(map[string]any{"check": "malformed-exhaustive", "string": "tcp -h", "note": "one point of the exhaustive sub-space"})
	}
	stat.Check(t, st, "parse", stat.N(50000, 300000), drawParse, runParse)
	stat.Check(t, st, "registry", stat.N(15000, 100000), drawReg, runReg)
	stat.Check(t, st, "malformed", stat.N(30000, 300000), drawBad, runBad)
	stat.Check(t, st, "list", stat.N(3000, 12000), drawList, runList)

	// self-check of the evidence: every mandatory class must have been reached
	if stat.ReplayPath() == "" && os.Getenv("VERIF_ONLY") == "" && os.Getenv("VERIF_SCALE") == "" {
		for _, c := range []string{"options>=5-noncanonical-order", "weight-normalised", "weight-clamped(>100)", "weight-default(-1)->100",
			"proto-ssl", "proto-udp", "repeated-option", "registry-roundtrip", "registry-setid-nonempty", "malformed-exhaustive",
			"default-timeout", "list-all-valid", "key-neighbour-port"} {
			if st.ClassCount(c) == 0 {
				fmt.Printf("\nVERIF-INFRA mandatory class %q is empty\n", c)
			}
		}
	}
}
