// C06 over freshly generated IDL programs.
package c06p

import (
	"testing"

	"verif/harness/codecprops"
	"verif/harness/gen/regp"
	"verif/harness/stat"
)

var st = stat.New("C06", codecprops.C06Rule)

func TestC06P(t *testing.T) {
	defer st.Emit()
	r, err := codecprops.Load("programs", regp.SchemaJSON, regp.New)
	if err != nil {
		t.Fatalf("VERIF-INFRA registry: %v", err)
	}
	r.RunC06(t, st, 20000, 2000000)
}
