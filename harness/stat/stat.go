// Package stat is the evidence / failure-reporting engine (E5) shared by all
// property checks. A check draws a plain serialisable case from rapid, runs it through
// a pure(ish) run function and labels it; this package counts evaluations, distinct
// non-trivial cases (by fingerprint), per-class histograms, keeps a few samples and
// prints machine-readable VERIF-STAT / VERIF-FAIL lines which the ./check driver turns
// into evidence files, replay files and VIOLATION / KNOWN-FINDING lines.
package stat

import (
	"encoding/json"
	"flag"
	"fmt"
	"hash/fnv"
	"os"
	"runtime"
	"sort"
	"strconv"
	"sync"
	"sync/atomic"
	"testing"

	"pgregory.net/rapid"
)

// Failure describes one violated case. Sig is a short stable signature of the *kind* of
// failure (used to match KNOWN_FINDINGS.txt); Msg is free text for humans.
type Failure struct {
	Sig string `json:"sig"`
	Msg string `json:"msg"`
}

func Failf(sig, format string, args ...any) *Failure {
	return &Failure{Sig: sig, Msg: fmt.Sprintf(format, args...)}
}

func (f *Failure) Error() string { return f.Sig + ": " + f.Msg }

// Stats accumulates coverage information for one property.
type Stats struct {
	mu           sync.Mutex
	Property     string
	Rule         string
	Assumptions  []string
	evaluations  int64
	nontrivial   map[uint64]struct{}
	classes      map[string]int64
	excluded     map[string]int64
	samples      []any
	ntSamples    []any
	inconclusive int64
	exhaustive   bool
	extra        map[string]any
}

func New(property, rule string, assumptions ...string) *Stats {
	return &Stats{Property: property, Rule: rule, Assumptions: assumptions,
		nontrivial: map[uint64]struct{}{}, classes: map[string]int64{}, excluded: map[string]int64{}, extra: map[string]any{}}
}

func hash(b []byte) uint64 { h := fnv.New64a(); h.Write(b); return h.Sum64() }

// Case records one evaluated case. fingerprint identifies the case (distinctness);
// nontrivial says whether it satisfies the property's non-trivial rule.
func (s *Stats) Case(fingerprint []byte, nontrivial bool, sample func() any, classes ...string) {
	s.mu.Lock()
	defer s.mu.Unlock()
	s.evaluations++
	for _, c := range classes {
		s.classes[c]++
	}
	if nontrivial {
		h := hash(fingerprint)
		if _, ok := s.nontrivial[h]; !ok {
			s.nontrivial[h] = struct{}{}
			if len(s.ntSamples) < 3 && sample != nil {
				s.ntSamples = append(s.ntSamples, sample())
			}
		}
	} else if len(s.samples) < 2 && sample != nil {
		s.samples = append(s.samples, sample())
	}
}

// CaseJSON is Case with the fingerprint and the sample both derived from v's JSON.
func (s *Stats) CaseJSON(v any, nontrivial bool, classes ...string) {
	b, _ := json.Marshal(v)
	s.Case(b, nontrivial, func() any { return Trunc(json.RawMessage(b)) }, classes...)
}

// Bulk adds n evaluations of which nt distinct non-trivial ones, for exhaustive loops
// where every enumerated point is distinct by construction.
func (s *Stats) Bulk(n, nt int64, class string) {
	s.mu.Lock()
	defer s.mu.Unlock()
	s.evaluations += n
	s.classes[class] += n
	base := uint64(len(s.nontrivial))
	_ = base
	s.extra["bulk_nontrivial"] = asInt(s.extra["bulk_nontrivial"]) + nt
}

func asInt(v any) int64 {
	if v == nil {
		return 0
	}
	return v.(int64)
}

func (s *Stats) AddSample(v any) {
	s.mu.Lock()
	defer s.mu.Unlock()
	if len(s.ntSamples) < 6 {
		s.ntSamples = append(s.ntSamples, v)
	}
}

func (s *Stats) Class(c string, n int64) {
	s.mu.Lock()
	s.classes[c] += n
	s.mu.Unlock()
}
func (s *Stats) Excluded(c string) { s.mu.Lock(); s.excluded[c]++; s.mu.Unlock() }
func (s *Stats) Inconclusive()     { s.mu.Lock(); s.inconclusive++; s.mu.Unlock() }
func (s *Stats) SetExhaustive()    { s.mu.Lock(); s.exhaustive = true; s.mu.Unlock() }
func (s *Stats) Extra(k string, v any) {
	s.mu.Lock()
	s.extra[k] = v
	s.mu.Unlock()
}
func (s *Stats) ClassCount(c string) int64 { s.mu.Lock(); defer s.mu.Unlock(); return s.classes[c] }

// Trunc shortens long JSON samples so evidence files stay readable.
func Trunc(v json.RawMessage) any {
	if len(v) <= 1500 {
		return v
	}
	return string(v[:1500]) + "...(truncated)"
}

// Emit prints the VERIF-STAT line. Call once per test process (from TestMain or the
// end of the top-level test).
func (s *Stats) Emit() {
	s.mu.Lock()
	defer s.mu.Unlock()
	out := map[string]any{
		"property":            s.Property,
		"rule":                s.Rule,
		"assumptions":         s.Assumptions,
		"evaluations":         s.evaluations,
		"distinct_nontrivial": int64(len(s.nontrivial)) + asInt(s.extra["bulk_nontrivial"]),
		"classes":             s.classes,
		"excluded":            s.excluded,
		"inconclusive":        s.inconclusive,
		"exhaustive":          s.exhaustive,
		"samples":             append(append([]any{}, s.ntSamples...), s.samples...),
		"extra":               s.extra,
	}
	b, _ := json.Marshal(out)
	fmt.Printf("\nVERIF-STAT %s\n", b)
}

// ---------------------------------------------------------------------------------

// Tier returns "quick" or "thorough".
func Tier() string {
	if os.Getenv("VERIF_TIER") == "thorough" {
		return "thorough"
	}
	return "quick"
}

// N picks a budget by tier; VERIF_SCALE (float) scales both.
func N(quick, thorough int) int {
	n := quick
	if Tier() == "thorough" {
		n = thorough
	}
	if sc := os.Getenv("VERIF_SCALE"); sc != "" {
		if f, err := strconv.ParseFloat(sc, 64); err == nil && f > 0 {
			n = int(float64(n) * f)
			if n < 1 {
				n = 1
			}
		}
	}
	return n
}

// Shard returns (index, count) of this process among thorough-tier shards.
func Shard() (int, int) {
	i, _ := strconv.Atoi(os.Getenv("VERIF_SHARD"))
	n, _ := strconv.Atoi(os.Getenv("VERIF_SHARDS"))
	if n <= 0 {
		return 0, 1
	}
	return i, n
}

// Seed is the remapped, shard-derived, non-zero rapid seed for this process.
func Seed() uint64 {
	v, _ := strconv.ParseUint(os.Getenv("VERIF_SEED"), 10, 64)
	if v == 0 {
		v = 20260927
	}
	i, _ := Shard()
	s := v*1000 + uint64(i) + 1
	if s == 0 {
		s = 1
	}
	return s
}

// ReplayPath returns the replay file requested through VERIF_REPLAY (or "").
func ReplayPath() string { return os.Getenv("VERIF_REPLAY") }

// ReplayCase is the on-disk format of a replay file.
type ReplayCase struct {
	Property string          `json:"property"`
	Check    string          `json:"check"`
	Sig      string          `json:"sig"`
	Msg      string          `json:"msg"`
	Case     json.RawMessage `json:"case"`
}

func emitFail(property, check string, f *Failure, c any) {
	cb, err := json.Marshal(c)
	if err != nil {
		cb, _ = json.Marshal(fmt.Sprintf("%+v", c))
	}
	b, _ := json.Marshal(ReplayCase{Property: property, Check: check, Sig: f.Sig, Msg: f.Msg, Case: cb})
	fmt.Printf("\nVERIF-FAIL %s\n", b)
}

// Report prints a VERIF-FAIL line for a failure found outside rapid (exhaustive loops,
// pinned cases).
func (s *Stats) Report(check string, f *Failure, c any) { emitFail(s.Property, check, f, c) }

// Known prints a VERIF-KNOWN line: a pinned known finding that still reproduces.
func (s *Stats) Known(key string, msg string) {
	b, _ := json.Marshal(map[string]string{"property": s.Property, "key": key, "msg": msg})
	fmt.Printf("\nVERIF-KNOWN %s\n", b)
}

// Check runs one rapid-driven sub-check: draw produces a plain case, run executes it.
// With VERIF_REPLAY set and the replay file naming this check, the stored case is run
// instead (no rapid involved). Failures are reported as VERIF-FAIL lines carrying the
// shrunk case; the Go test fails as well.
func Check[C any](t *testing.T, s *Stats, name string, checks int, draw func(*rapid.T) C, run func(C) *Failure) {
	t.Helper()
	if rp := ReplayPath(); rp != "" {
		var rc ReplayCase
		b, err := os.ReadFile(rp)
		if err != nil {
			t.Fatalf("replay: %v", err)
		}
		if err := json.Unmarshal(b, &rc); err != nil {
			t.Fatalf("replay: %v", err)
		}
		if rc.Check != name {
			return
		}
		var c C
		if err := json.Unmarshal(rc.Case, &c); err != nil {
			t.Fatalf("replay case: %v", err)
		}
		if f := guarded(run, c); f != nil {
			emitFail(s.Property, name, f, c)
			t.Errorf("replay %s: %v", name, f)
		} else {
			fmt.Printf("\nVERIF-REPLAY-PASS %s\n", name)
		}
		return
	}
	if only := os.Getenv("VERIF_ONLY"); only != "" && only != name {
		return
	}
	flag.Set("rapid.checks", strconv.Itoa(checks))
	flag.Set("rapid.seed", strconv.FormatUint(Seed(), 10))
	flag.Set("rapid.nofailfile", "true")
	var mu sync.Mutex
	var lastC C
	var lastF *Failure
	var done int64
	ok := t.Run(name, func(t *testing.T) {
		rapid.Check(t, func(rt *rapid.T) {
			c := draw(rt)
			atomic.AddInt64(&done, 1)
			if f := guarded(run, c); f != nil {
				mu.Lock()
				lastC, lastF = c, f
				mu.Unlock()
				rt.Fatalf("%v", f)
			}
		})
	})
	if n := atomic.LoadInt64(&done); ok && n < int64(checks) {
		// rapid stops at the test deadline and still reports success: the remainder of the
		// budget was not explored (inconclusive, not a pass of the full budget)
		s.Extra("time_budget_hit:"+name, fmt.Sprintf("%d of %d cases run before the deadline", n, checks))
	}
	if !ok {
		mu.Lock()
		defer mu.Unlock()
		if lastF == nil {
			lastF = &Failure{Sig: "harness-failure", Msg: "sub-check failed without a recorded case (panic in generator or flaky)"}
		}
		emitFail(s.Property, name, lastF, lastC)
	}
}

// Pinned runs a fixed list of named cases through run (no rapid); used for regression
// replays of fixed defects and hostile constants.
func Pinned[C any](t *testing.T, s *Stats, name string, cases map[string]C, run func(C) *Failure) {
	keys := make([]string, 0, len(cases))
	for k := range cases {
		keys = append(keys, k)
	}
	sort.Strings(keys)
	for _, k := range keys {
		if f := run(cases[k]); f != nil {
			emitFail(s.Property, name, f, cases[k])
			t.Errorf("pinned %s/%s: %v", name, k, f)
		}
	}
}

// guarded runs one case and turns a panic of the code under test (or of the oracle) into
// a reported failure that carries the case.
func guarded[C any](run func(C) *Failure, c C) (f *Failure) {
	defer func() {
		if p := recover(); p != nil {
			buf := make([]byte, 4096)
			n := runtime.Stack(buf, false)
			f = &Failure{Sig: "panic", Msg: fmt.Sprintf("panic: %v\n%s", p, buf[:n])}
		}
	}()
	return run(c)
}
