// C19 (transport part) — the worker pool behind a server adapter: with MaxInvoke = N at most
// N requests are handled at the same time and every request is handled exactly once, over
// TCP and over UDP, also when more requests arrive than workers and queue can hold.
//
// A real transport.TarsServer with a recording ServerProtocol (handlers sleep and count
// their own concurrency) is hit by a raw client with a burst of framed requests.
package c19t

import (
	"context"
	"encoding/binary"
	"fmt"
	"net"
	"sync"
	"sync/atomic"
	"testing"
	"time"

	"github.com/TarsCloud/TarsGo/tars/protocol"
	"github.com/TarsCloud/TarsGo/tars/transport"
	"github.com/TarsCloud/TarsGo/tars/util/rogger"
	"pgregory.net/rapid"

	"verif/harness/stat"
)

var st = stat.New("C19",
	"Transport part. Case = {tcp | udp adapter, MaxInvoke 1..4, queue capacity 1..8 or 10000, 1..3 client connections (tcp), a burst of MaxInvoke+1 .. MaxInvoke+QueueCap+14 requests written back to back - while serving or (tcp) 30 ms after a graceful Shutdown was started on the established connections -, handler duration 15..120 ms}. Oracle (recorded by the handlers themselves): the high-water mark of handlers running at the same time never exceeds MaxInvoke; every request is handled exactly once (awaited: burst * duration / MaxInvoke + 3 s) and, over tcp, answered exactly once. Non-trivial = burst larger than workers + queue (the receive loop has to block on a full queue). Distinct = distinct case JSON.",
	"UDP datagrams that do not fit the socket buffer would be dropped by the kernel; bursts are far below that (<= 30 datagrams of 12 bytes)")

func init() { rogger.SetLevel(rogger.OFF) }

type Case struct {
	Proto     string `json:"proto"`
	MaxInvoke int32  `json:"max_invoke"`
	QueueCap  int    `json:"queue_cap"`
	NConns    int    `json:"n_conns"`
	Burst     int    `json:"burst"`
	HandlerMs int    `json:"handler_ms"`
	// DuringShutdown (tcp): a graceful Shutdown is started 30 ms before the burst is written on
	// the already established connections; the pool is still in place while the server drains,
	// so the bound holds; which requests are still read is not asserted (at most once each)
	DuringShutdown bool `json:"during_shutdown,omitempty"`
}

func draw(rt *rapid.T) Case {
	c := Case{Proto: rapid.SampledFrom([]string{"tcp", "udp", "udp"}).Draw(rt, "proto"), MaxInvoke: int32(rapid.IntRange(1, 4).Draw(rt, "maxInvoke"))}
	c.QueueCap = rapid.SampledFrom([]int{1, 1, 2, 4, 8, 10000}).Draw(rt, "queueCap")
	c.NConns = rapid.IntRange(1, 3).Draw(rt, "nconns")
	qc := c.QueueCap
	if qc > 8 {
		qc = 8
	}
	c.Burst = int(c.MaxInvoke) + rapid.IntRange(1, qc+14).Draw(rt, "extra")
	c.HandlerMs = rapid.SampledFrom([]int{15, 40, 120}).Draw(rt, "handlerMs")
	if c.Burst*c.HandlerMs/int(c.MaxInvoke) > 2500 {
		c.HandlerMs = 15
	}
	c.DuringShutdown = c.Proto == "tcp" && rapid.Bool().Draw(rt, "duringShutdown")
	return c
}

type recorder struct {
	sleep   time.Duration
	running int32
	high    int32
	mu      sync.Mutex
	handled map[uint32]int
}

func (r *recorder) ParsePackage(buff []byte) (int, int) { return protocol.TarsRequest(buff) }
func (r *recorder) Invoke(ctx context.Context, pkg []byte) []byte {
	n := atomic.AddInt32(&r.running, 1)
	for {
		h := atomic.LoadInt32(&r.high)
		if n <= h || atomic.CompareAndSwapInt32(&r.high, h, n) {
			break
		}
	}
	var id uint32
	if len(pkg) >= 8 {
		id = binary.BigEndian.Uint32(pkg[4:])
	}
	time.Sleep(r.sleep)
	r.mu.Lock()
	r.handled[id]++
	r.mu.Unlock()
	atomic.AddInt32(&r.running, -1)
	out := make([]byte, 8)
	binary.BigEndian.PutUint32(out, 8)
	binary.BigEndian.PutUint32(out[4:], id)
	return out
}
func (r *recorder) InvokeTimeout(pkg []byte) []byte { return nil }
func (r *recorder) GetCloseMsg() []byte             { return []byte{0, 0, 0, 8, 0, 0, 0, 0} }
func (r *recorder) DoClose(ctx context.Context)     {}

func run(c Case) *stat.Failure {
	rec := &recorder{sleep: time.Duration(c.HandlerMs) * time.Millisecond, handled: map[uint32]int{}}
	conf := &transport.TarsServerConf{Proto: c.Proto, Address: "127.0.0.1:0", MaxInvoke: c.MaxInvoke, QueueCap: c.QueueCap,
		AcceptTimeout: 500 * time.Millisecond, IdleTimeout: 600 * time.Second, TCPNoDelay: true, TCPReadBuffer: 128 << 10, TCPWriteBuffer: 128 << 10}
	srv := transport.NewTarsServer(rec, conf)
	if err := srv.Listen(); err != nil {
		return stat.Failf("harness-failure", "listen: %v", err)
	}
	addr := srv.VerifAddr()
	conf.Address = addr
	go func() { _ = srv.Serve() }()
	if !c.DuringShutdown {
		defer func() {
			ctx, cancel := context.WithTimeout(context.Background(), 2*time.Second)
			go func() { _ = srv.Shutdown(ctx); cancel() }()
		}()
	}
	req := func(id uint32) []byte {
		b := make([]byte, 12)
		binary.BigEndian.PutUint32(b, 12)
		binary.BigEndian.PutUint32(b[4:], id)
		return b
	}
	var replies sync.Map // id -> count (tcp)
	var conns []net.Conn
	nc := c.NConns
	if c.Proto == "udp" {
		nc = 1
	}
	for i := 0; i < nc; i++ {
		cn, err := net.DialTimeout(c.Proto, addr, 2*time.Second)
		if err != nil {
			return stat.Failf("harness-failure", "dial: %v", err)
		}
		conns = append(conns, cn)
		defer cn.Close()
		go func(cn net.Conn) {
			buf := make([]byte, 65536)
			var acc []byte
			for {
				n, err := cn.Read(buf)
				if err != nil {
					return
				}
				acc = append(acc, buf[:n]...)
				for len(acc) >= 8 {
					id := binary.BigEndian.Uint32(acc[4:])
					v, _ := replies.LoadOrStore(id, new(int32))
					atomic.AddInt32(v.(*int32), 1)
					acc = acc[8:]
				}
			}
		}(cn)
	}
	if c.Proto == "tcp" {
		time.Sleep(20 * time.Millisecond) // all connections accepted
	}
	if c.DuringShutdown {
		ctx, cancel := context.WithTimeout(context.Background(), 6*time.Second)
		defer cancel()
		go func() { _ = srv.Shutdown(ctx) }()
		time.Sleep(30 * time.Millisecond)
	}
	for i := 0; i < c.Burst; i++ {
		cn := conns[i%len(conns)]
		if _, err := cn.Write(req(uint32(i + 1))); err != nil {
			if c.DuringShutdown {
				break // the server may already have closed this connection
			}
			return stat.Failf("harness-failure", "write: %v", err)
		}
	}
	deadline := time.Now().Add(time.Duration(c.Burst*c.HandlerMs/int(c.MaxInvoke))*time.Millisecond + 3*time.Second)
	quietSince := time.Now()
	for time.Now().Before(deadline) {
		rec.mu.Lock()
		n := len(rec.handled)
		rec.mu.Unlock()
		if n >= c.Burst && atomic.LoadInt32(&rec.running) == 0 {
			break
		}
		if atomic.LoadInt32(&rec.running) != 0 {
			quietSince = time.Now()
		} else if c.DuringShutdown && time.Since(quietSince) > 700*time.Millisecond {
			break // draining server: nothing running for a while, the rest was not read
		}
		time.Sleep(2 * time.Millisecond)
	}
	time.Sleep(time.Duration(c.HandlerMs)*time.Millisecond + 30*time.Millisecond) // a duplicate execution would still be running
	if h := atomic.LoadInt32(&rec.high); h > c.MaxInvoke {
		return stat.Failf("parallelism-bound", "%s adapter with MaxInvoke=%d, queue capacity %d, burst of %d requests (%d ms each): %d handlers ran at the same time", c.Proto, c.MaxInvoke, c.QueueCap, c.Burst, c.HandlerMs, h)
	}
	rec.mu.Lock()
	defer rec.mu.Unlock()
	for i := 1; i <= c.Burst; i++ {
		if c.DuringShutdown {
			if k := rec.handled[uint32(i)]; k > 1 {
				return stat.Failf("exactly-once", "tcp adapter during shutdown: request %d was handled %d times", i, k)
			}
			continue
		}
		if k := rec.handled[uint32(i)]; k != 1 {
			return stat.Failf("exactly-once", "%s adapter with MaxInvoke=%d, queue capacity %d: request %d of a burst of %d was handled %d times (%d distinct requests handled)", c.Proto, c.MaxInvoke, c.QueueCap, i, c.Burst, k, len(rec.handled))
		}
		if c.Proto == "tcp" {
			v, ok := replies.Load(uint32(i))
			if !ok || atomic.LoadInt32(v.(*int32)) != 1 {
				n := int32(0)
				if ok {
					n = atomic.LoadInt32(v.(*int32))
				}
				return stat.Failf("exactly-once", "tcp adapter: request %d was handled once but answered %d times", i, n)
			}
		}
	}
	return nil
}

func TestC19Transport(t *testing.T) {
	defer st.Emit()
	stat.Check(t, st, "adapter-pool", stat.N(40, 1200), draw, func(c Case) *stat.Failure {
		qc := c.QueueCap
		st.CaseJSON(c, c.Burst > int(c.MaxInvoke)+qc, "adapter-"+c.Proto, fmt.Sprintf("adapter-maxinvoke-%d", c.MaxInvoke), map[bool]string{true: "burst-during-graceful-shutdown", false: "burst-while-serving"}[c.DuringShutdown])
		return run(c)
	})
}
