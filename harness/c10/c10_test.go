// C10 — the server answers each well-formed request exactly once with matching identity.
package c10

import (
	"testing"

	"verif/harness/gen/regp"
	rc "verif/harness/refcodec"
	"verif/harness/rpcprops"
	"verif/harness/stat"
)

var st = stat.New("C10", rpcprops.C10Rule,
	"requests/replies are encoded and strictly decoded with the reference codec; JSON payloads are produced/parsed with encoding/json over the generated Go types (JSON cases use ASCII strings and finite floats only, no bool-keyed maps)",
	"timing-dependent scenarios (queue timeout, handle timeout) and UDP cases are re-run twice before a failure counts; unconfirmed ones are counted as inconclusive",
	"servers run on the transport path bound to the default application (overlay accessor)")

func TestC10(t *testing.T) {
	defer st.Emit()
	schema, err := rc.ParseSchema([]byte(regp.SchemaJSON))
	if err != nil {
		t.Fatalf("VERIF-INFRA schema: %v", err)
	}
	env := rpcprops.NewEnv(schema, regp.NewProxy, func(key string, h *rpcprops.Hub, wc bool) any { return regp.NewServant[key](h, wc) })
	if len(env.Ifaces) == 0 {
		t.Fatalf("VERIF-INFRA no generated interface in this program sample")
	}
	env.RunC10(t, st, "c10", 150, 4000)
}
