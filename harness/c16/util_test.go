package c16

import (
	"encoding/json"
	"os"

	"verif/harness/gen/regp"
	rc "verif/harness/refcodec"
	"verif/harness/stat"
)

func jsonUnmarshal(b []byte, v any) error { return json.Unmarshal(b, v) }

// replayCheck returns the name of the sub-check a replay file addresses ("" if none).
func replayCheck() string {
	p := stat.ReplayPath()
	if p == "" {
		return ""
	}
	b, err := os.ReadFile(p)
	if err != nil {
		return ""
	}
	var rc stat.ReplayCase
	if json.Unmarshal(b, &rc) != nil {
		return ""
	}
	return rc.Check
}

// regSchemaJ is the generated programs' model in its JSON form (enums with their members).
func regSchemaJ() *rc.SchemaJ {
	var sj rc.SchemaJ
	if err := json.Unmarshal([]byte(regp.SchemaJSON), &sj); err != nil {
		panic(err)
	}
	return &sj
}
