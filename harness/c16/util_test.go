package c16

import (
	"encoding/json"
	"os"

	"verif/harness/stat"
)

func jsonUnmarshal(b []byte, v any) error { return json.Unmarshal(b, v) }

// replayCheck returns the name of the sub-check a replay file addresses ("" if none).
func replayCheck() string {
	p := stat.ReplayPath()
	if p == "" {
		return ""
	}
	b, err := os.ReadFile(p)
	if err != nil {
		return ""
	}
	var rc stat.ReplayCase
	if json.Unmarshal(b, &rc) != nil {
		return ""
	}
	return rc.Check
}
