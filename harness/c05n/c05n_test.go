// C05 (network part) — no single packet or datagram can terminate a server or client.
//
// The server runs in a CHILD process (this test binary in worker mode), because the
// framework turns every panic on the request path into os.Exit. The parent generates
// hostile TCP packets and UDP datagrams, sends them, and after every case checks liveness
// with a valid ping on a fresh connection. The client path is exercised in-process against a
// scripted peer that answers real calls with hostile packets.
package c05n

import (
	"bufio"
	"context"
	"encoding/binary"
	"fmt"
	"net"
	"os"
	"os/exec"
	"strings"
	"sync/atomic"
	"testing"
	"time"

	"github.com/TarsCloud/TarsGo/tars"
	"github.com/TarsCloud/TarsGo/tars/protocol/res/requestf"
	"pgregory.net/rapid"

	"verif/harness/gen/regp"
	"verif/harness/peer"
	rc "verif/harness/refcodec"
	"verif/harness/rpcprops"
	"verif/harness/stat"
)

var st = stat.New("C05",
	"Network part. Server in a child process (generated dispatcher, TCP and UDP): case = 1..12 hostile packets from {valid request of version TARS/TUP/JSON with bit flips / truncation / length rewrites / type-nibble rewrites, random bytes behind a correct length prefix, nesting bombs behind a correct prefix, arbitrary bytes}, sent over TCP (one connection per packet or pipelined) or as UDP datagrams; pinned: UDP datagrams of every length 0..64 (zero-filled, 0xff-filled, random). Oracle: after each case a valid ping on a fresh TCP connection and over UDP is answered (the process is alive and serving). Client: a real proxy calls a scripted peer that answers with hostile packets addressed to the call (mutated valid responses, random bodies, bombs); oracle: the call returns, the process survives, and a following valid exchange succeeds. Non-trivial = packet whose length prefix is consistent (so that it reaches the decoder). Distinct = distinct case JSON.",
	"the child server runs the dispatcher of the first generated interface with a default-outcome servant",
	"liveness is the oracle for the child (panics become os.Exit in the framework); a crash of the test process itself inside repository code is reported by the driver as process-crash")

type Pkt struct {
	Kind string `json:"kind"`
	Via  string `json:"via"` // tcp | tcp-pipelined | udp
	B    []byte `json:"b"`
}

type Case struct {
	Pkts []Pkt `json:"pkts"`
}

// ------------------------------------------------------------------ child (worker mode)

func TestC05NetChild(t *testing.T) {
	if os.Getenv("VERIF_C05_CHILD") != "1" {
		return
	}
	schema, err := rc.ParseSchema([]byte(regp.SchemaJSON))
	if err != nil {
		fmt.Println("CHILD-ERROR schema", err)
		return
	}
	env := rpcprops.NewEnv(schema, regp.NewProxy, func(key string, h *rpcprops.Hub, wc bool) any { return regp.NewServant[key](h, wc) })
	if len(env.Ifaces) == 0 {
		fmt.Println("CHILD-ERROR no interface")
		return
	}
	env.Hub.Default = func(f *rc.Func) *rpcprops.Outcome {
		o := &rpcprops.Outcome{}
		if f.Ret != nil {
			o.Ret = rc.CanonBytes(f.Ret, rc.Zero(f.Ret))
		}
		for _, a := range f.Args {
			if a.Out {
				o.Outs = append(o.Outs, rc.CanonBytes(a.Type, rc.Zero(a.Type)))
			}
		}
		return o
	}
	ts, _, err := env.Endpoint(env.Ifaces[0], true, rpcprops.ServerOpts{Proto: "tcp"})
	if err != nil {
		fmt.Println("CHILD-ERROR", err)
		return
	}
	us, _, err := env.Endpoint(env.Ifaces[0], true, rpcprops.ServerOpts{Proto: "udp"})
	if err != nil {
		fmt.Println("CHILD-ERROR", err)
		return
	}
	fmt.Printf("CHILD-READY %s %s %s\n", ts.Addr, us.Addr, env.Ifaces[0])
	// live until the parent closes our stdin
	bufio.NewReader(os.Stdin).ReadString(0)
}

type child struct {
	cmd      *exec.Cmd
	tcp, udp string
	iface    string
	stdin    interface{ Close() error }
	exited   chan struct{}
}

func startChild() (*child, error) {
	cmd := exec.Command(os.Args[0], "-test.run", "^TestC05NetChild$", "-test.timeout", "0")
	cmd.Env = append(os.Environ(), "VERIF_C05_CHILD=1")
	in, err := cmd.StdinPipe()
	if err != nil {
		return nil, err
	}
	out, err := cmd.StdoutPipe()
	if err != nil {
		return nil, err
	}
	cmd.Stderr = nil
	if err := cmd.Start(); err != nil {
		return nil, err
	}
	c := &child{cmd: cmd, stdin: in, exited: make(chan struct{})}
	rd := bufio.NewReader(out)
	ready := make(chan error, 1)
	go func() {
		for {
			line, err := rd.ReadString('\n')
			if strings.HasPrefix(line, "CHILD-READY ") {
				f := strings.Fields(line)
				c.tcp, c.udp, c.iface = f[1], f[2], f[3]
				ready <- nil
				break
			}
			if strings.HasPrefix(line, "CHILD-ERROR") {
				ready <- fmt.Errorf("%s", line)
				return
			}
			if err != nil {
				ready <- fmt.Errorf("child ended before it was ready")
				return
			}
		}
		for {
			if _, err := rd.ReadString('\n'); err != nil {
				return
			}
		}
	}()
	go func() { cmd.Wait(); close(c.exited) }()
	select {
	case err := <-ready:
		if err != nil {
			return nil, err
		}
	case <-time.After(20 * time.Second):
		cmd.Process.Kill()
		return nil, fmt.Errorf("child did not become ready")
	}
	return c, nil
}

func (c *child) stop() {
	c.stdin.Close()
	select {
	case <-c.exited:
	case <-time.After(2 * time.Second):
		c.cmd.Process.Kill()
	}
}

func (c *child) alive() bool {
	select {
	case <-c.exited:
		return false
	default:
		return true
	}
}

var pingID int32

func pingPacket() ([]byte, int32) {
	id := atomic.AddInt32(&pingID, 1)
	r := rpcprops.RawReq{Version: rpcprops.VerTars, ReqID: id, Servant: "Verif.Obj", Func: "tars_ping", Context: map[string]string{}, Status: map[string]string{}}
	return r.Encode(), id
}

// live: a valid ping is answered over a fresh TCP connection and over UDP.
func (c *child) live() string {
	if !c.alive() {
		return "the server process exited"
	}
	for _, proto := range []string{"tcp", "udp"} {
		addr := c.tcp
		if proto == "udp" {
			addr = c.udp
		}
		ok := false
		for attempt := 0; attempt < 3 && !ok; attempt++ {
			conn, err := rpcprops.DialRaw(proto, addr)
			if err != nil {
				if !c.alive() {
					return "the server process exited"
				}
				time.Sleep(50 * time.Millisecond)
				continue
			}
			pkt, id := pingPacket()
			_ = conn.Write(pkt, nil)
			conn.WaitPackets(1, 1500*time.Millisecond)
			pk, _, _ := conn.Packets()
			conn.Close()
			for _, b := range pk {
				if r, err := rpcprops.DecodeResp(b); err == nil && r.ReqID == id && r.Ret == 0 {
					ok = true
				}
			}
		}
		if !ok {
			if !c.alive() {
				return "the server process exited"
			}
			return "a valid ping over " + proto + " is no longer answered"
		}
	}
	return ""
}

var theChild *child

func ensureChild() error {
	if theChild != nil && theChild.alive() {
		return nil
	}
	c, err := startChild()
	if err != nil {
		return err
	}
	theChild = c
	return nil
}

func send(c *child, pkts []Pkt) {
	var pipe net.Conn
	for _, p := range pkts {
		switch p.Via {
		case "udp":
			if conn, err := net.Dial("udp", c.udp); err == nil {
				conn.Write(p.B)
				conn.Close()
			}
		case "tcp-pipelined":
			if pipe == nil {
				pipe, _ = net.DialTimeout("tcp", c.tcp, time.Second)
			}
			if pipe != nil {
				pipe.SetWriteDeadline(time.Now().Add(time.Second))
				if _, err := pipe.Write(p.B); err != nil {
					pipe.Close()
					pipe = nil
				}
			}
		default:
			if conn, err := net.DialTimeout("tcp", c.tcp, time.Second); err == nil {
				conn.SetWriteDeadline(time.Now().Add(time.Second))
				conn.Write(p.B)
				time.Sleep(time.Millisecond)
				conn.Close()
			}
		}
	}
	if pipe != nil {
		time.Sleep(2 * time.Millisecond)
		pipe.Close()
	}
	time.Sleep(5 * time.Millisecond)
}

func runServerCase(cs Case) *stat.Failure {
	if err := ensureChild(); err != nil {
		return stat.Failf("harness-failure", "child server: %v", err)
	}
	send(theChild, cs.Pkts)
	if why := theChild.live(); why != "" {
		var kinds []string
		for _, p := range cs.Pkts {
			kinds = append(kinds, fmt.Sprintf("%s/%s/%dB", p.Kind, p.Via, len(p.B)))
		}
		theChild.stop()
		theChild = nil
		return stat.Failf("server-killed", "after %d hostile packet(s) %v: %s", len(cs.Pkts), kinds, why)
	}
	return nil
}

// ------------------------------------------------------------------ generators

func framed(body []byte) []byte {
	out := make([]byte, 4, 4+len(body))
	binary.BigEndian.PutUint32(out, uint32(4+len(body)))
	return append(out, body...)
}

// servedFuncs are the functions of the interface the child serves (the first interface of
// the generated programs, as in TestC05NetChild).
var servedFuncs = func() []*rc.Func {
	schema, err := rc.ParseSchema([]byte(regp.SchemaJSON))
	if err != nil {
		return nil
	}
	best := ""
	var fs []*rc.Func
	for _, it := range schema.Ifaces {
		if k := it.Module + "." + it.Name; len(it.Funcs) > 0 && (best == "" || k < best) {
			best, fs = k, it.Funcs
		}
	}
	return fs
}()

var jsonValues = []string{"7", "-1", "1.5", "1e400", "\"s\"", "\"\"", "null", "true", "false", "[]", "[1,\"a\",null]", "[[[]]]", "{}", "{\"a\":1}", "{\"a\":{\"b\":[]}}", "\"\\u0000\"", "12345678901234567890"}

func validRequest(rt *rapid.T) []byte {
	ver := rapid.SampledFrom([]int16{1, 3, 5}).Draw(rt, "ver")
	var buf []byte
	fnOverride := ""
	if ver == 5 && len(servedFuncs) > 0 && rapid.IntRange(0, 3).Draw(rt, "typedJSON") > 0 {
		// a JSON-version request for a function the child really serves: a well-formed JSON
		// object under the function's parameter names, each with a JSON value of an arbitrary
		// type (number where a string is declared, null, arrays, objects ...)
		f := servedFuncs[rapid.IntRange(0, len(servedFuncs)-1).Draw(rt, "servedFn")]
		fnOverride = f.Name
		var parts []string
		for _, a := range f.Args {
			if rapid.IntRange(0, 4).Draw(rt, "hasArg") == 0 {
				continue
			}
			parts = append(parts, fmt.Sprintf("%q:%s", a.Name, rapid.SampledFrom(jsonValues).Draw(rt, "jsonVal")))
		}
		ver = 50 // marker, reset below
		buf = []byte("{" + strings.Join(parts, ",") + "}")
	}
	switch ver {
	case 50:
		ver = 5
	case 3:
		var e rc.Enc
		e.Head(rc.WMap, 0)
		e.Int(1, 0)
		e.Str("p0", 0)
		e.Bytes([]byte{0x0c}, 1)
		buf = e.Buf
	case 5:
		buf = []byte(`{"p0":1,"p1":"x"}`)
	default:
		var e rc.Enc
		rc.DrawField(rt, &e, 1, 2, "arg1")
		rc.DrawField(rt, &e, 2, 2, "arg2")
		buf = e.Buf
	}
	fn := rapid.SampledFrom([]string{"fn0", "fn1", "Fn2", "tars_ping", "nope"}).Draw(rt, "fn")
	if fnOverride != "" {
		fn = fnOverride
	}
	r := rpcprops.RawReq{Version: ver, PacketType: int8(rapid.IntRange(0, 1).Draw(rt, "pt")), ReqID: rapid.Int32().Draw(rt, "id"), Servant: "Verif.Obj", Func: fn, Buffer: buf,
		Timeout: rapid.SampledFrom([]int32{0, 1, 60000, -1}).Draw(rt, "to"), Context: map[string]string{"k": "v"}, Status: map[string]string{}}
	// message-type flags and the status / context entries the framework itself interprets
	// (dyeing, tracing, hash, set name, result code ...), with arbitrary values
	if rapid.Bool().Draw(rt, "meta") {
		r.MsgType = metaFlags(rt)
		for _, k := range []string{"STATUS_DYED_KEY", "STATUS_TRACE_KEY", "STATUS_RESULT_CODE", "STATUS_RESULT_DESC", "STATUS_GRID_KEY", "STATUS_SETNAME_VALUE", "STATUS_SAMPLE_KEY"} {
			if rapid.IntRange(0, 2).Draw(rt, "has."+k) == 0 {
				r.Status[k] = metaValue(rt, k)
			}
		}
		if rapid.IntRange(0, 3).Draw(rt, "ctxmeta") == 0 {
			r.Context["TARS_HASH"] = metaValue(rt, "ctx")
		}
	}
	return r.Encode()
}

func metaFlags(rt *rapid.T) int32 {
	var f int32
	for _, bit := range []int32{0x01, 0x02, 0x04, 0x08, 0x10, 0x80, 0x100} {
		if rapid.IntRange(0, 2).Draw(rt, "flag") == 0 {
			f |= bit
		}
	}
	if rapid.IntRange(0, 7).Draw(rt, "wildflags") == 0 {
		f = rapid.Int32().Draw(rt, "flags")
	}
	return f
}

func metaValue(rt *rapid.T, label string) string {
	return rapid.SampledFrom([]string{"", "|", "||", "a", "a|b", "a|b|c", "a|b|c|d|e", "-1", "0", "4294967296", "12345678901234567890", "x|", "|y",
		"00-0af7651916cd43dd8448eb211c80319c-b7ad6b7169203331-01", "\x00", strings.Repeat("z", 300)}).Draw(rt, "metaval."+label)
}

func mutate(rt *rapid.T, b []byte, keepPrefix bool) []byte {
	b = append([]byte{}, b...)
	n := rapid.IntRange(1, 4).Draw(rt, "nmut")
	for i := 0; i < n && len(b) > 5; i++ {
		lo := 0
		if keepPrefix {
			lo = 4
		}
		p := rapid.IntRange(lo, len(b)-1).Draw(rt, "pos")
		switch rapid.IntRange(0, 3).Draw(rt, "m") {
		case 0:
			b[p] ^= 1 << rapid.IntRange(0, 7).Draw(rt, "bit")
		case 1:
			b[p] = rapid.SampledFrom([]byte{0, 0xff, 0x7f, 0x80, 0x0a, 0x0b, 0x09, 0x08, 0x0d}).Draw(rt, "val")
		case 2:
			b = b[:p]
		case 3:
			b[p] = b[p]&0xf0 | byte(rapid.IntRange(0, 15).Draw(rt, "ty"))
		}
	}
	if keepPrefix && len(b) >= 4 {
		binary.BigEndian.PutUint32(b, uint32(len(b)))
	}
	return b
}

func drawPkt(rt *rapid.T) Pkt {
	p := Pkt{Via: rapid.SampledFrom([]string{"tcp", "tcp-pipelined", "udp", "udp"}).Draw(rt, "via")}
	p.Kind = rapid.SampledFrom([]string{"mutant", "mutant", "mutant-raw", "random-framed", "bomb", "arbitrary", "short", "wellformed-meta", "wellformed-meta"}).Draw(rt, "kind")
	switch p.Kind {
	case "wellformed-meta":
		p.B = validRequest(rt) // not mutated: the hostile part is what the fields say
	case "mutant":
		p.B = mutate(rt, validRequest(rt), true)
	case "mutant-raw":
		p.B = mutate(rt, validRequest(rt), false)
	case "random-framed":
		p.B = framed(rapid.SliceOfN(rapid.Byte(), 0, 200).Draw(rt, "body"))
	case "bomb":
		unit := rapid.SampledFrom([][]byte{{0x0a}, {0x09, 0x00, 0x01}, {0x0c, 0x18, 0x00, 0x01}, {0x0b}}).Draw(rt, "unit")
		rep := rapid.SampledFrom([]int{100, 2000, 20000}).Draw(rt, "rep")
		if p.Via == "udp" && rep*len(unit) > 60000 {
			rep = 60000 / len(unit)
		}
		var body []byte
		for i := 0; i < rep; i++ {
			body = append(body, unit...)
		}
		p.B = framed(body)
	case "arbitrary":
		p.B = rapid.SliceOfN(rapid.Byte(), 0, 80).Draw(rt, "bytes")
	case "short":
		n := rapid.IntRange(0, 8).Draw(rt, "n")
		p.B = rapid.SliceOfN(rapid.Byte(), n, n).Draw(rt, "bytes")
	}
	return p
}

func drawCase(rt *rapid.T) Case {
	var c Case
	n := rapid.IntRange(1, 12).Draw(rt, "n")
	for i := 0; i < n; i++ {
		c.Pkts = append(c.Pkts, drawPkt(rt))
	}
	return c
}

// ------------------------------------------------------------------ client path

type ClientCase struct {
	Kind string `json:"kind"`
	Body []byte `json:"body"` // reply body (after the length prefix); the id is patched in when Kind says so
}

var (
	cliSrv  *peer.Server
	cliComm *tars.Communicator
	cliSeq  int64
)

func runClientCase(c ClientCase) *stat.Failure {
	if cliSrv == nil {
		s, err := peer.Listen("127.0.0.1")
		if err != nil {
			return stat.Failf("harness-failure", "listen: %v", err)
		}
		cliSrv, cliComm = s, tars.NewCommunicator()
	}
	hostile := int32(1)
	cliSrv.Handler = func(s *peer.Server, r *peer.Req) {
		if atomic.LoadInt32(&hostile) == 1 {
			var body []byte
			switch c.Kind {
			case "addressed-mutant":
				// a valid response to this very request, then mutated behind its id field
				body = peer.EncodeReply(r.Version, 0, r.ID, 0, "", 1, c.Body)[4:]
				for i := 0; i+1 < len(c.Body) && i < 6; i += 2 {
					p := 12 + int(c.Body[i])%maxInt(1, len(body)-12)
					if p < len(body) {
						body[p] = c.Body[i+1]
					}
				}
			default:
				body = c.Body
			}
			s.WriteRaw(r.Conn, framed(body), r.ID, 0, "hostile")
			return
		}
		s.Reply(r.Conn, r.Version, r.ID, 0, "", "own", 0)
	}
	sp := tars.NewServantProxy(cliComm, fmt.Sprintf("Verif.C05.Obj%d@tcp -h 127.0.0.1 -p %d -t 60000", atomic.AddInt64(&cliSeq, 1), cliSrv.Port))
	call := func(ms int) error {
		ctx, cancel := context.WithTimeout(context.Background(), time.Duration(ms)*time.Millisecond)
		defer cancel()
		return sp.TarsInvoke(ctx, 0, "echo", []byte{1, 2, 3, 4}, nil, nil, &requestf.ResponsePacket{})
	}
	done := make(chan struct{})
	go func() { _ = call(150); close(done) }()
	select {
	case <-done:
	case <-time.After(10 * time.Second):
		return stat.Failf("client-call-hangs", "a call answered with a hostile packet (%s, %d bytes) did not return within 10 s", c.Kind, len(c.Body))
	}
	atomic.StoreInt32(&hostile, 0)
	// the client must still work: a valid exchange succeeds (allow one reconnect attempt)
	var err error
	for i := 0; i < 3; i++ {
		if err = call(1000); err == nil {
			break
		}
		time.Sleep(20 * time.Millisecond)
	}
	cliSrv.CloseAllConns()
	if err != nil {
		return stat.Failf("client-broken", "after a hostile reply (%s, %d bytes) valid calls keep failing: %v", c.Kind, len(c.Body), err)
	}
	return nil
}

func maxInt(a, b int) int {
	if a > b {
		return a
	}
	return b
}

func drawClientCase(rt *rapid.T) ClientCase {
	c := ClientCase{Kind: rapid.SampledFrom([]string{"addressed-mutant", "addressed-mutant", "random", "bomb", "short"}).Draw(rt, "kind")}
	switch c.Kind {
	case "addressed-mutant":
		c.Body = rapid.SliceOfN(rapid.Byte(), 0, 12).Draw(rt, "mut")
	case "random":
		c.Body = rapid.SliceOfN(rapid.Byte(), 0, 120).Draw(rt, "body")
	case "bomb":
		unit := rapid.SampledFrom([][]byte{{0x0a}, {0x09, 0x00, 0x01}, {0x0c, 0x18, 0x00, 0x01}}).Draw(rt, "unit")
		for i := rapid.SampledFrom([]int{50, 3000, 100000}).Draw(rt, "rep"); i > 0; i-- {
			c.Body = append(c.Body, unit...)
		}
	case "short":
		c.Body = rapid.SliceOfN(rapid.Byte(), 0, 3).Draw(rt, "body")
	}
	return c
}

func TestC05Net(t *testing.T) {
	if os.Getenv("VERIF_C05_CHILD") == "1" {
		return
	}
	defer st.Emit()
	defer func() {
		if theChild != nil {
			theChild.stop()
		}
	}()
	if stat.ReplayPath() == "" {
		// pinned: UDP datagrams of every length 0..64
		pinned := map[string]Case{}
		for n := 0; n <= 64; n++ {
			for name, fill := range map[string]byte{"zero": 0, "ff": 0xff, "structbegin": 0x0a} {
				b := make([]byte, n)
				for i := range b {
					b[i] = fill
				}
				pinned[fmt.Sprintf("udp-len-%02d-%s", n, name)] = Case{Pkts: []Pkt{{Kind: "udp-every-length", Via: "udp", B: b}}}
				st.Case([]byte(fmt.Sprintf("udp|%d|%s", n, name)), n >= 4, nil, "udp-every-length")
			}
		}
		stat.Pinned(t, st, "c05n-udp-lengths", pinned, runServerCase)
	}
	stat.Check(t, st, "c05n-server", stat.N(250, 20000), drawCase, func(c Case) *stat.Failure {
		nt := false
		var cls []string
		for _, p := range c.Pkts {
			if len(p.B) >= 4 && int(binary.BigEndian.Uint32(p.B)) == len(p.B) {
				nt = true
			}
			cls = append(cls, "pkt-"+p.Kind, "via-"+p.Via)
		}
		st.CaseJSON(c, nt, cls...)
		return runServerCase(c)
	})
	stat.Check(t, st, "c05n-client", stat.N(120, 8000), drawClientCase, func(c ClientCase) *stat.Failure {
		st.CaseJSON(c, len(c.Body) >= 4, "client-"+c.Kind)
		return runClientCase(c)
	})
}
