// C12 — graceful shutdown answers every request already received.
package c12

import (
	"context"
	"encoding/binary"
	"fmt"
	"net"
	"os"
	"runtime"
	"sync"
	"testing"
	"time"

	"github.com/TarsCloud/TarsGo/tars"
	"github.com/TarsCloud/TarsGo/tars/protocol/res/requestf"
	"github.com/TarsCloud/TarsGo/tars/transport"
	"github.com/TarsCloud/TarsGo/tars/util/rogger"
	"pgregory.net/rapid"

	"verif/harness/rpcprops"
	"verif/harness/stat"
)

var st = stat.New("C12",
	"Case = 1..3 scenarios run concurrently, scenario = {server on the IPv4 or (a quarter) the IPv6 loopback address, worker pool 0 or 1..4, queue capacity 1..64 or large, 1..4 raw client connections, per connection 0..10 pipelined requests whose handlers sleep 0..3000 ms, Shutdown(ctx) called 0..250 ms after the requests were written, ctx timeout 4..8 s, handle timeout 0 / 1 s / 2.5 s, write timeout 0 / 200 ms / 3 s}. The obligated set is measured, not assumed: per connection the first (replies already received + the server's read-but-unanswered counter, read just before Shutdown through an overlay accessor) requests in FIFO order. Oracle: every obligated request is answered (matching id) before the connection is closed; every connection receives the reconnect notification (id 0, _reconnect_) and is then closed by the server; Shutdown returns within ctx timeout + 1 s; when it returned before its context expired every obligated request must have been answered and every connection notified and closed, and it must not have waited longer than last handler end + 2 s idle rule + 1.5 s (when it ran into its context, unanswered requests are legitimate). Non-trivial = pool > 0 with more accepted requests than workers at shutdown, or >= 2 handlers mid-flight at shutdown. Distinct = distinct case JSON.",
	"requests still in the socket buffer because the accept/queue path was blocked are not obligated (the property speaks of requests already read)",
	"interleavings of accept loop, receive loops, handlers and the shutdown poller are sampled through generated handler durations and shutdown moments")

func init() { rogger.SetLevel(rogger.OFF) }

type Conn struct {
	SleepMs []int `json:"sleep_ms"` // one entry per request, in send order
	// BigReply: index of a request whose reply is 12 MB (-1: none); together with
	// SlowReaderMs > 0 (the client starts draining its socket only that long after Shutdown
	// was called) the server's response write is still blocked while the shutdown pollers run.
	BigReply     int `json:"big_reply"`
	SlowReaderMs int `json:"slow_reader_ms,omitempty"`
}

// stalledMs as SlowReaderMs: the client never drains its socket (it stopped reading for
// good). Nothing can be delivered to it; what remains of the property is that Shutdown
// returns when its context expires.
const stalledMs = 60000

type Scenario struct {
	MaxInvoke   int32  `json:"max_invoke"`
	QueueCap    int    `json:"queue_cap"`
	Conns       []Conn `json:"conns"`
	ShutdownMs  int    `json:"shutdown_after_ms"`
	CtxTimeoutS int    `json:"ctx_timeout_s"`
	// HandleTimeoutMs > 0: the adapter's handle timeout (a handler running longer is answered
	// with a timeout reply, which is a reply)
	HandleTimeoutMs int `json:"handle_timeout_ms,omitempty"`
	// WriteTimeoutMs > 0: the adapter's <writetimeout> setting
	WriteTimeoutMs int `json:"write_timeout_ms,omitempty"`
	// IPv6: the server listens on, and the clients connect from, the IPv6 loopback address
	IPv6 bool `json:"ipv6,omitempty"`
}

// ipv6OK: the machine has an IPv6 loopback (otherwise IPv6 scenarios run over IPv4)
var ipv6OK = func() bool {
	l, err := net.Listen("tcp", "[::1]:0")
	if err != nil {
		return false
	}
	l.Close()
	return true
}()

type Case struct {
	Scenarios []Scenario `json:"scenarios"`
}

func draw(rt *rapid.T) Case {
	var c Case
	n := rapid.IntRange(1, 3).Draw(rt, "nscen")
	for i := 0; i < n; i++ {
		s := Scenario{MaxInvoke: rapid.SampledFrom([]int32{0, 0, 1, 2, 4}).Draw(rt, "pool")}
		s.QueueCap = rapid.SampledFrom([]int{1, 2, 8, 64, 10000}).Draw(rt, "queuecap")
		s.ShutdownMs = rapid.SampledFrom([]int{0, 5, 20, 60, 120, 250, 450}).Draw(rt, "shutdownAfter")
		s.CtxTimeoutS = rapid.IntRange(4, 8).Draw(rt, "ctxTimeout")
		s.HandleTimeoutMs = rapid.SampledFrom([]int{0, 0, 0, 1000, 2500}).Draw(rt, "handleTimeout")
		s.WriteTimeoutMs = rapid.SampledFrom([]int{0, 0, 200, 3000}).Draw(rt, "writeTimeout")
		s.IPv6 = rapid.IntRange(0, 3).Draw(rt, "ipv6") == 0
		nc := rapid.IntRange(1, 4).Draw(rt, "nconns")
		for j := 0; j < nc; j++ {
			cn := Conn{BigReply: -1}
			nr := rapid.IntRange(0, 10).Draw(rt, "nreqs")
			for k := 0; k < nr; k++ {
				cn.SleepMs = append(cn.SleepMs, rapid.SampledFrom([]int{0, 0, 10, 50, 150, 400, 400, 1500, 3000}).Draw(rt, "sleep"))
			}
			if nr > 0 && rapid.IntRange(0, 3).Draw(rt, "slowReader") == 0 {
				cn.BigReply = rapid.IntRange(0, nr-1).Draw(rt, "bigAt")
				cn.SlowReaderMs = rapid.SampledFrom([]int{700, 1300, 1300, 2500, 2500, stalledMs}).Draw(rt, "slowReaderMs")
			}
			s.Conns = append(s.Conns, cn)
		}
		c.Scenarios = append(c.Scenarios, s)
	}
	return c
}

// sleeper is a hand-written dispatcher: the request buffer carries the handler's sleep.
type sleeper struct {
	mu      sync.Mutex
	last    time.Time
	started map[int32]time.Time // request id -> moment its handler was entered
	active  int                 // handlers currently running
}

func (d *sleeper) Dispatch(ctx context.Context, imp interface{}, req *requestf.RequestPacket, resp *requestf.ResponsePacket, withContext bool) error {
	ms := 0
	if len(req.SBuffer) >= 4 {
		ms = int(binary.BigEndian.Uint32([]byte{byte(req.SBuffer[0]), byte(req.SBuffer[1]), byte(req.SBuffer[2]), byte(req.SBuffer[3])}))
	}
	d.mu.Lock()
	if d.started == nil {
		d.started = map[int32]time.Time{}
	}
	d.started[req.IRequestId] = time.Now()
	d.active++
	d.mu.Unlock()
	time.Sleep(time.Duration(ms) * time.Millisecond)
	d.mu.Lock()
	d.last = time.Now()
	d.active--
	d.mu.Unlock()
	*resp = requestf.ResponsePacket{IVersion: req.IVersion, IRequestId: req.IRequestId, SBuffer: req.SBuffer}
	if len(req.SBuffer) >= 8 {
		if n := int(binary.BigEndian.Uint32([]byte{byte(req.SBuffer[4]), byte(req.SBuffer[5]), byte(req.SBuffer[6]), byte(req.SBuffer[7])})); n > 0 {
			resp.SBuffer = make([]int8, n)
		}
	}
	return nil
}

type scenResult struct {
	f *stat.Failure
	// for the non-trivial rule
	midFlight int
	queued    int
}

func runScenario(si int, s Scenario) scenResult {
	d := &sleeper{}
	p := tars.VerifBindDefaultApp(tars.NewTarsProtocol(d, nil, false))
	listenOn := "127.0.0.1:0"
	if s.IPv6 && ipv6OK {
		listenOn = "[::1]:0"
	}
	conf := &transport.TarsServerConf{Proto: "tcp", Address: listenOn, MaxInvoke: s.MaxInvoke, QueueCap: s.QueueCap,
		AcceptTimeout: 500 * time.Millisecond, IdleTimeout: 600 * time.Second, TCPNoDelay: true, HandleTimeout: time.Duration(s.HandleTimeoutMs) * time.Millisecond, WriteTimeout: time.Duration(s.WriteTimeoutMs) * time.Millisecond,
		TCPReadBuffer: 128 * 1024 * 1024, TCPWriteBuffer: 128 * 1024 * 1024} // the framework defaults (tars/setting.go)
	srv := transport.NewTarsServer(p, conf)
	if err := srv.Listen(); err != nil {
		return scenResult{f: stat.Failf("harness-failure", "listen: %v", err)}
	}
	conf.Address = srv.VerifAddr()
	served := make(chan struct{})
	go func() { _ = srv.Serve(); close(served) }()

	conns := make([]*rpcprops.RawConn, len(s.Conns))
	local := make([]string, len(s.Conns))
	gates := make([]chan struct{}, len(s.Conns))
	for i := range conns {
		if s.Conns[i].SlowReaderMs > 0 {
			gates[i] = make(chan struct{})
		}
		c, err := rpcprops.DialRawGated("tcp", conf.Address, gates[i])
		if err != nil {
			return scenResult{f: stat.Failf("harness-failure", "dial: %v", err)}
		}
		conns[i] = c
		local[i] = c.C.LocalAddr().String()
		defer c.Close()
	}
	// make sure every connection has been accepted before anything else happens
	time.Sleep(30 * time.Millisecond)
	for i, cn := range s.Conns {
		var stream []byte
		for k, ms := range cn.SleepMs {
			buf := make([]byte, 8)
			binary.BigEndian.PutUint32(buf, uint32(ms))
			if k == cn.BigReply {
				binary.BigEndian.PutUint32(buf[4:], 12<<20)
			}
			req := rpcprops.RawReq{Version: rpcprops.VerTars, ReqID: int32(1000*(i+1) + k), Servant: "Verif.C12", Func: "sleep", Buffer: buf, Context: map[string]string{}, Status: map[string]string{}}
			stream = append(stream, req.Encode()...)
		}
		if len(stream) > 0 {
			if err := conns[i].Write(stream, nil); err != nil {
				return scenResult{f: stat.Failf("harness-failure", "write: %v", err)}
			}
		}
	}
	time.Sleep(time.Duration(s.ShutdownMs) * time.Millisecond)
	// obligated set: replies already received (read first) + read-but-unanswered counter
	obligated := make([]int, len(s.Conns))
	res := scenResult{}
	for i := range conns {
		pk, _, _ := conns[i].Packets()
		obligated[i] = len(pk)
		if gates[i] != nil {
			// a gated reader has received nothing yet: only the server's counter is known, so
			// the obligation is limited to what is provably unanswered AND was read (conservative:
			// requests answered into the socket buffer are not counted)
			obligated[i] = 0
		}
	}
	inv := srv.VerifConnInvokes()
	for i := range conns {
		n := int(inv[local[i]])
		obligated[i] += n
		if obligated[i] > len(s.Conns[i].SleepMs) {
			obligated[i] = len(s.Conns[i].SleepMs)
		}
		res.midFlight += n
	}
	if s.MaxInvoke > 0 && res.midFlight > int(s.MaxInvoke) {
		res.queued = res.midFlight - int(s.MaxInvoke)
	}
	// third measurement, independent of the server's own counter: requests written at least
	// 120 ms before Shutdown on a connection whose receive loop cannot have been held up (the
	// pool's queue has room for every request of the scenario) have been read
	total := 0
	for _, cn := range s.Conns {
		total += len(cn.SleepMs)
	}
	writtenEarly := make([]bool, len(s.Conns))
	if s.ShutdownMs >= 120 && (s.MaxInvoke == 0 || s.QueueCap >= total) {
		for i := range s.Conns {
			if gates[i] == nil && obligated[i] < len(s.Conns[i].SleepMs) {
				writtenEarly[i] = true
				obligated[i] = len(s.Conns[i].SleepMs)
			}
		}
	}
	// second, independent measurement of "already read": a request whose handler had been
	// entered before Shutdown was called has certainly been read (this does not depend on the
	// server's own counter)
	handlerStarted := map[int32]bool{}
	d.mu.Lock()
	for id := range d.started {
		handlerStarted[id] = true
	}
	d.mu.Unlock()
	ctx, cancel := context.WithTimeout(context.Background(), time.Duration(s.CtxTimeoutS)*time.Second)
	defer cancel()
	t0 := time.Now()
	done := make(chan struct{})
	go func() { _ = srv.Shutdown(ctx); close(done) }()
	if os.Getenv("VERIF_C12_DEBUG") != "" {
		go func() {
			time.Sleep(3 * time.Second)
			buf := make([]byte, 1<<20)
			n := runtime.Stack(buf, true)
			fmt.Printf("GOROUTINES-AT-3S\n%s\n", buf[:n])
		}()
	}
	stalled := false
	for i, g := range gates {
		if g != nil && s.Conns[i].SlowReaderMs >= stalledMs {
			stalled = true
			continue
		}
		if g != nil {
			go func(g chan struct{}, ms int) { time.Sleep(time.Duration(ms) * time.Millisecond); close(g) }(g, s.Conns[i].SlowReaderMs)
		}
	}
	select {
	case <-done:
	case <-time.After(time.Duration(s.CtxTimeoutS)*time.Second + 5*time.Second):
		res.f = stat.Failf("shutdown-hangs", "scenario %d: Shutdown did not return %d s after its context expired", si, 5)
		return res
	}
	took := time.Since(t0)
	d.mu.Lock()
	activeAtReturn := d.active
	d.mu.Unlock()
	if stalled {
		// a client that never drains: the only obligation left is the bound on Shutdown
		if limit := time.Duration(s.CtxTimeoutS)*time.Second + time.Second; took > limit {
			res.f = stat.Failf("shutdown-too-slow", "scenario %d: Shutdown took %v with a %d s context while one client had stopped reading", si, took.Round(10*time.Millisecond), s.CtxTimeoutS)
		}
		return res
	}
	// "... or when its context expires, whichever is first": when Shutdown ran into its
	// context, unanswered requests and open connections are legitimate
	expired := took >= time.Duration(s.CtxTimeoutS)*time.Second-300*time.Millisecond
	if expired {
		// ... but only when the server really was busy until then: if the last handler
		// finished well before the context expired, nothing legitimate was left to wait for
		d.mu.Lock()
		busyUntilEnd := activeAtReturn > 0 || (!d.last.IsZero() && d.last.After(t0.Add(time.Duration(s.CtxTimeoutS)*time.Second-time.Second)))
		d.mu.Unlock()
		if !busyUntilEnd {
			expired = false
		}
	}
	// give the connections a moment to deliver what was written before the close; a gated
	// (slow) reader must have started draining its socket before anything is judged
	for i := range s.Conns {
		if w := time.Until(t0.Add(time.Duration(s.Conns[i].SlowReaderMs+400) * time.Millisecond)); gates[i] != nil && w > 0 {
			time.Sleep(w)
		}
	}
	time.Sleep(150 * time.Millisecond)
	if !expired {
		// the readers may lag behind on a busy machine: what the server wrote before closing
		// is in the socket; give every reader up to 3 s to reach the end of its stream
		dl := time.Now().Add(3 * time.Second)
		for time.Now().Before(dl) {
			all := true
			for _, c := range conns {
				if _, _, closed := c.Packets(); !closed {
					all = false
				}
			}
			if all {
				break
			}
			time.Sleep(5 * time.Millisecond)
		}
	}
	d.mu.Lock()
	lastHandler := d.last
	d.mu.Unlock()
	for i, c := range conns {
		pk, errs, closed := c.Packets()
		if os.Getenv("VERIF_C12_DEBUG") != "" {
			fmt.Printf("C12-DEBUG scenario %d conn %d: %d packets, errs %v, closed %v, took %v, obligated %d, started %v\n", si, i, len(pk), errs, closed, took, obligated[i], handlerStarted)
		}
		if len(errs) > 0 {
			res.f = stat.Failf("reply-stream-corrupt", "scenario %d conn %d: %s", si, i, errs[0])
			return res
		}
		answered := map[int32]int{}
		push := 0
		for _, b := range pk {
			r, err := rpcprops.DecodeResp(b)
			if err != nil {
				res.f = stat.Failf("reply-not-wellformed", "scenario %d conn %d: %v", si, i, err)
				return res
			}
			if r.ReqID == 0 {
				if r.ResultDesc == "_reconnect_" {
					push++
				}
				continue
			}
			answered[r.ReqID]++
		}
		for k := 0; k < obligated[i] && !expired; k++ {
			id := int32(1000*(i+1) + k)
			if answered[id] != 1 {
				sig := "request-not-answered"
				if writtenEarly[i] {
					sig = "request-not-answered-written-early" // rests on the 120 ms head start: confirmed by re-runs
				}
				res.f = stat.Failf(sig, "scenario %d (pool %d, queue cap %d, shutdown after %d ms) conn %d: request #%d (handler %d ms) had been read by the server before Shutdown but received %d replies; %d of %d requests were obligated, %d replies arrived, connection closed by server: %v, Shutdown took %v", si, s.MaxInvoke, s.QueueCap, s.ShutdownMs, i, k, s.Conns[i].SleepMs[k], answered[id], obligated[i], len(s.Conns[i].SleepMs), len(answered), closed, took.Round(10*time.Millisecond))
				return res
			}
		}
		for k := range s.Conns[i].SleepMs {
			id := int32(1000*(i+1) + k)
			if handlerStarted[id] && answered[id] != 1 && !expired {
				res.f = stat.Failf("request-not-answered", "scenario %d (pool %d, queue cap %d, shutdown after %d ms) conn %d: the handler of request #%d (%d ms) had been entered before Shutdown was called, but the request received %d replies (connection closed by server: %v, Shutdown took %v)", si, s.MaxInvoke, s.QueueCap, s.ShutdownMs, i, k, s.Conns[i].SleepMs[k], answered[id], closed, took.Round(10*time.Millisecond))
				return res
			}
		}
		for id, n := range answered {
			if n > 1 {
				res.f = stat.Failf("duplicate-reply", "scenario %d conn %d: request id %d answered %d times", si, i, id, n)
				return res
			}
		}
		if expired {
			continue
		}
		if push < 1 {
			res.f = stat.Failf("no-reconnect-notification", "scenario %d conn %d: the client never received the reconnect notification (id 0, _reconnect_)", si, i)
			return res
		}
		if !closed {
			res.f = stat.Failf("connection-not-closed", "scenario %d conn %d: Shutdown returned after %v but the server did not close the connection", si, i, took.Round(10*time.Millisecond))
			return res
		}
	}
	limit := time.Duration(s.CtxTimeoutS)*time.Second + time.Second
	if took > limit {
		res.f = stat.Failf("shutdown-too-slow", "scenario %d: Shutdown took %v with a %d s context (read-but-unanswered counters afterwards: %v)", si, took.Round(10*time.Millisecond), s.CtxTimeoutS, srv.VerifConnInvokes())
		return res
	}
	// all handlers finish within ~0.4 s * queue; the drain rule: idle 2 s + polling
	if !lastHandler.IsZero() {
		// (handlers still running when Shutdown returned were given up by the framework after
		// the handle timeout; the last *finished* handler says nothing about the drain then)
		if late := took - (lastHandler.Sub(t0) + 2*time.Second + 1500*time.Millisecond); late > 0 && lastHandler.After(t0) && !expired && activeAtReturn == 0 {
			res.f = stat.Failf("shutdown-waits-for-context", "scenario %d: all handlers had finished %v after Shutdown was called, yet Shutdown returned only after %v (context %d s; read-but-unanswered counters afterwards: %v)", si, lastHandler.Sub(t0).Round(10*time.Millisecond), took.Round(10*time.Millisecond), s.CtxTimeoutS, srv.VerifConnInvokes())
			return res
		}
	}
	_ = net.IPv4len
	return res
}

// run executes the case; complaints about how long Shutdown took are confirmed by running
// the case alone twice more (on an overloaded machine a second is not a second).
func run(c Case) (*stat.Failure, bool) {
	f, nt := runOnce(c)
	if f == nil {
		return nil, nt
	}
	switch f.Sig {
	case "shutdown-hangs", "shutdown-too-slow", "shutdown-waits-for-context", "request-not-answered-written-early":
		for i := 0; i < 2; i++ {
			time.Sleep(500 * time.Millisecond)
			g, _ := runOnce(c)
			if g == nil {
				st.Inconclusive()
				return nil, nt
			}
			switch g.Sig {
			case "shutdown-hangs", "shutdown-too-slow", "shutdown-waits-for-context", "request-not-answered-written-early":
			default:
				return g, nt
			}
		}
	}
	return f, nt
}

func runOnce(c Case) (*stat.Failure, bool) {
	results := make([]scenResult, len(c.Scenarios))
	var wg sync.WaitGroup
	for i, s := range c.Scenarios {
		wg.Add(1)
		go func(i int, s Scenario) {
			defer wg.Done()
			results[i] = runScenario(i, s)
		}(i, s)
	}
	wg.Wait()
	nt := false
	for i, r := range results {
		if r.queued > 0 || r.midFlight >= 2 {
			nt = true
		}
		_ = i
	}
	for _, r := range results {
		if r.f != nil {
			return r.f, nt
		}
	}
	return nil, nt
}

// pinnedCases: the response write is still blocked (12 MB reply, client not draining yet)
// while the shutdown pollers run, the handler itself having returned before Shutdown.
var pinnedCases = map[string]Case{
	"blocked-write-at-shutdown": {Scenarios: []Scenario{
		{MaxInvoke: 0, QueueCap: 10000, ShutdownMs: 120, CtxTimeoutS: 6, Conns: []Conn{{SleepMs: []int{0}, BigReply: 0, SlowReaderMs: 2500}}},
		{MaxInvoke: 2, QueueCap: 64, ShutdownMs: 120, CtxTimeoutS: 6, Conns: []Conn{{SleepMs: []int{0}, BigReply: 0, SlowReaderMs: 2500}, {SleepMs: []int{10, 400}, BigReply: -1}}},
		{MaxInvoke: 1, QueueCap: 8, ShutdownMs: 60, CtxTimeoutS: 6, Conns: []Conn{{SleepMs: []int{0, 0, 0}, BigReply: 2, SlowReaderMs: 2000}}},
	}},
	// a queue that takes longer to drain than the handle timeout: every queued request has
	// been read and must still be answered
	// a client that stops reading with a large response pending: Shutdown must still return
	// when its context expires
	"client-stops-reading": {Scenarios: []Scenario{
		{MaxInvoke: 0, QueueCap: 64, ShutdownMs: 120, CtxTimeoutS: 4, Conns: []Conn{{SleepMs: []int{0}, BigReply: 0, SlowReaderMs: stalledMs}, {SleepMs: []int{50, 50}, BigReply: -1}}},
		{MaxInvoke: 2, QueueCap: 8, ShutdownMs: 60, CtxTimeoutS: 4, Conns: []Conn{{SleepMs: []int{0, 0}, BigReply: 1, SlowReaderMs: stalledMs}}},
	}},
	// a configured write timeout and connections whose last response is older than it when
	// the shutdown begins: they still have to get the reconnect notification
	"write-timeout-configured": {Scenarios: []Scenario{
		{MaxInvoke: 0, QueueCap: 64, ShutdownMs: 450, CtxTimeoutS: 6, WriteTimeoutMs: 200, Conns: []Conn{{SleepMs: []int{0}, BigReply: -1}, {SleepMs: []int{0, 900}, BigReply: -1}}},
		{MaxInvoke: 4, QueueCap: 64, ShutdownMs: 450, CtxTimeoutS: 6, WriteTimeoutMs: 200, Conns: []Conn{{SleepMs: []int{0, 0}, BigReply: -1}}},
	}},
	// every worker is busy with another connection's request: what was read from this one is
	// waiting in the pool's queue when the shutdown begins
	"queued-behind-another-connection": {Scenarios: []Scenario{
		{MaxInvoke: 1, QueueCap: 64, ShutdownMs: 250, CtxTimeoutS: 8, Conns: []Conn{{SleepMs: []int{1800}, BigReply: -1}, {SleepMs: []int{0}, BigReply: -1}}},
		{MaxInvoke: 2, QueueCap: 64, ShutdownMs: 120, CtxTimeoutS: 8, Conns: []Conn{{SleepMs: []int{1500}, BigReply: -1}, {SleepMs: []int{1500}, BigReply: -1}, {SleepMs: []int{10, 10}, BigReply: -1}}},
	}},
	"deep-queue-with-handle-timeout": {Scenarios: []Scenario{
		{MaxInvoke: 1, QueueCap: 64, ShutdownMs: 100, CtxTimeoutS: 8, HandleTimeoutMs: 1000, Conns: []Conn{{SleepMs: []int{600, 600, 600, 600, 600, 600}, BigReply: -1}}},
		{MaxInvoke: 2, QueueCap: 64, ShutdownMs: 50, CtxTimeoutS: 8, HandleTimeoutMs: 1000, Conns: []Conn{{SleepMs: []int{700, 700, 700, 700}, BigReply: -1}, {SleepMs: []int{700, 700, 700, 700}, BigReply: -1}}},
	}},
}

func TestC12(t *testing.T) {
	defer st.Emit()
	if o := os.Getenv("VERIF_ONLY"); stat.ReplayPath() == "" && (o == "" || o == "pinned") {
		stat.Pinned(t, st, "shutdown", pinnedCases, func(c Case) *stat.Failure {
			f, nt := run(c)
			st.CaseJSON(c, nt, "pinned-blocked-write")
			return f
		})
	}
	stat.Check(t, st, "shutdown", stat.N(14, 400), draw, func(c Case) *stat.Failure {
		f, nt := run(c)
		var cls []string
		for _, s := range c.Scenarios {
			cls = append(cls, fmt.Sprintf("pool-%d", s.MaxInvoke))
			switch {
			case s.IPv6 && ipv6OK:
				cls = append(cls, "ipv6-loopback")
			case s.IPv6:
				cls = append(cls, "ipv6-unavailable-ran-over-ipv4")
			}
		}
		st.CaseJSON(c, nt, cls...)
		st.Class("scenarios", int64(len(c.Scenarios)))
		return f
	})
}
