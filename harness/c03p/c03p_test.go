// C03 over freshly generated IDL programs compiled by the tars2go of the working tree.
package c03p

import (
	"testing"

	"verif/harness/codecprops"
	"verif/harness/gen/regp"
	"verif/harness/stat"
)

var st = stat.New("C03", codecprops.C03Rule)

func TestC03P(t *testing.T) {
	defer st.Emit()
	r, err := codecprops.Load("programs", regp.SchemaJSON, regp.New)
	if err != nil {
		t.Fatalf("VERIF-INFRA registry: %v", err)
	}
	st.Extra("generated_structs", len(r.Keys))
	r.RunC03(t, st, 6000, 400000)
}
