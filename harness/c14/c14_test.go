// C14 (selector level) — hash routing is deterministic, history-independent and minimally
// disruptive. The manager-level part (calls routed through a ServantProxy to scripted
// servers) is a separate unit to be added to this package as a second test file with its
// own top-level test; conf.json selects this one with -test.run ^TestC14$.
//
// Sub-checks
//
//	ring   consistenthash.ConsistentHash (Ketama as used by the endpoint manager, and the
//	       Default algorithm; weighted and unweighted). A universe of 1..16 distinct hosts,
//	       history A (Refresh/Add/Remove incl. no-op Add/Remove) observed after EVERY
//	       operation, history B (different operations / order) reaching the same final set,
//	       instance C = one Refresh of the final set, then a tail (Remove of a present,
//	       Add of an absent endpoint, ...) on instance A. Probed codes: every ring point of
//	       every endpoint of the universe (present or not) and its +-1 neighbours, 0, 1,
//	       2^31-1, 2^31, 2^32-2, 2^32-1, random codes.
//	       (a) implementation == independent reference ring (refring_test.go) on every code,
//	           after every operation;
//	       (b) A, B and C agree on every code;
//	       (c) after any operation a code whose previous owner is still installed either
//	           keeps its owner or moved onto an endpoint installed by that very operation
//	           (Remove(e): only codes of e change; Add(e): changed codes now map to e; no-op
//	           Add/Remove and Refresh to the same set change nothing); no code is ever routed
//	           to an endpoint that is not installed; Select fails iff nothing is installed;
//	       (d) selecting the same code again (Select and FindInt32, other order) gives the
//	           same endpoint; Find(stringKey) == successor of the documented key hash.
//	mod    modhash.ModHash with and without static weights, same kind of histories; after
//	       every operation: h -> element (h mod N) of the installed list (order given to
//	       Refresh/Add, Remove closes the gap); with static weights: the observed cycle
//	       over h = 0..P-1 has period P = sum c_i, multiplicities c_i = max(1,
//	       floor(W_i*R/W_max)), R = min(100, max(10, floor(W_max/W_min))), every other probed
//	       code h maps like h mod P, and cycle[h] == list[BuildStaticWeightList(list)[h]].
//
// Sensitivity (scratch worktree, quick tier, VERIF_REPO=/tmp/wt_c14 ./check C14 -> exit 1):
// see the list at the end of this file.
package c14

import (
	"fmt"
	"math"
	"os"
	"sort"
	"strconv"
	"testing"

	"github.com/TarsCloud/TarsGo/tars/selector"
	"github.com/TarsCloud/TarsGo/tars/selector/consistenthash"
	"github.com/TarsCloud/TarsGo/tars/selector/modhash"
	"github.com/TarsCloud/TarsGo/tars/util/endpoint"
	"pgregory.net/rapid"

	"verif/harness/stat"
)

var st = stat.New("C14",
	"selector level. ring: universe of 1..16 endpoints with pairwise distinct hosts (IPv4-like, host names, suffix look-alikes such as h/h_1/h_1_0), weighted universes have static weight type and weights 1..200 (>0), unweighted ones arbitrary weights/types that must be ignored; history A (Refresh of arbitrary sub-lists in arbitrary order, Add, Remove, including Add of a present and Remove of an absent endpoint) is checked after every operation, history B reaches the same final set by other operations (random prefix, then either one Refresh of a permutation, incremental Add/Remove in a drawn order, or Refresh of a superset followed by Removes), instance C is one Refresh; a tail with at least one effective Remove and one effective Add follows. Codes probed: ALL ring points of ALL universe endpoints (reference-computed), each point-1 and point+1, 0, 1, 2^31-1, 2^31, 2^32-2, 2^32-1 and random codes. mod: universe 1..16 distinct hosts, enableWeight=true only with all-static positive weights (as the endpoint manager does), histories as above, codes 0..2P+2, top-of-range codes, random. Non-trivial = universe >= 3 endpoints and >= 1 effective removal in the histories (ring: codes at ring points are always probed). Distinct = distinct case JSON.",
	"a host has one fixed weight/weight-type for the lifetime of a selector (the endpoint manager passes the identical Endpoint value to Refresh/Add/Remove); hosts are pairwise distinct (selectors key endpoints by Host)",
	"static weights are kept > 0: weights <= 0 make BuildStaticWeightList divide by zero / give an endpoint no ring points; that input class belongs to C13",
	"32-bit virtual-node collisions (two virtual nodes on the same ring point, which makes Remove history-dependent) are NOT targeted: a universe whose reference ring contains a duplicate point is counted as excluded 'ring-collision' and not asserted",
	"the reference ring (refring_test.go) is derived from the documented ketama scheme: md5(host+\"_\"+i), four little-endian 32-bit points per digest (Default algorithm: XOR of the four words, little-endian as on the supported platforms), max(1,W/4) rounds, W=100 when unweighted, successor lookup with wrap; its md5/byte-order decoding is self-checked against constants computed outside Go",
	"with static weights the order inside one period is taken from selector.BuildStaticWeightList (whose own correctness is C13); period and multiplicities are checked from the formula independently of it")

// ------------------------------------------------------------------------ case types

type EP struct {
	Host   string `json:"h"`
	Port   int32  `json:"p"`
	Weight int32  `json:"w"`
	WType  int32  `json:"wt"`
}

// Op is one selector operation; indices refer to the universe.
type Op struct {
	K string `json:"k"` // refresh | add | remove
	L []int  `json:"l,omitempty"`
	I int    `json:"i"`
}

func (o Op) String() string {
	if o.K == "refresh" {
		return fmt.Sprintf("Refresh%v", o.L)
	}
	return fmt.Sprintf("%s(%d)", o.K, o.I)
}

type RingCase struct {
	Weighted bool     `json:"weighted"`
	Alg      int      `json:"alg"`
	U        []EP     `json:"u"`
	HistA    []Op     `json:"a"`
	HistB    []Op     `json:"b"`
	Tail     []Op     `json:"tail"`
	Rand     []uint32 `json:"rand"`
	Keys     []string `json:"keys"`
}

type ModCase struct {
	EnableWeight bool     `json:"enable_weight"`
	U            []EP     `json:"u"`
	Hist         []Op     `json:"hist"`
	Rand         []uint32 `json:"rand"`
}

type hashMsg struct {
	code uint32
	typ  selector.HashType
}

func (m hashMsg) HashCode() uint32            { return m.code }
func (m hashMsg) HashType() selector.HashType { return m.typ }
func (m hashMsg) IsHash() bool                { return true }

// mkEndpoint builds the Endpoint the way endpoint.Tars2endpoint does for a registry entry.
func mkEndpoint(e EP) endpoint.Endpoint {
	ep := endpoint.Endpoint{Host: e.Host, Port: e.Port, Timeout: 3000, Istcp: endpoint.TCP,
		Weight: e.Weight, WeightType: e.WType, Proto: "tcp"}
	ep.Key = ep.String()
	return ep
}

func validate(u []EP, hists ...[]Op) *stat.Failure {
	if len(u) == 0 || len(u) > 64 {
		return stat.Failf("harness-case", "universe size %d", len(u))
	}
	seen := map[string]bool{}
	for _, e := range u {
		if seen[e.Host] {
			return stat.Failf("harness-case", "duplicate host %q", e.Host)
		}
		seen[e.Host] = true
	}
	for _, h := range hists {
		for _, o := range h {
			switch o.K {
			case "refresh":
				for _, i := range o.L {
					if i < 0 || i >= len(u) {
						return stat.Failf("harness-case", "index %d", i)
					}
				}
			case "add", "remove":
				if o.I < 0 || o.I >= len(u) {
					return stat.Failf("harness-case", "index %d", o.I)
				}
			default:
				return stat.Failf("harness-case", "op %q", o.K)
			}
		}
	}
	return nil
}

// applySet: set model (consistent hash). Returns whether the op changed the set.
func applySet(in []bool, o Op) bool {
	changed := false
	switch o.K {
	case "refresh":
		n := make([]bool, len(in))
		for _, i := range o.L {
			n[i] = true
		}
		for i := range in {
			if in[i] != n[i] {
				changed = true
			}
			in[i] = n[i]
		}
	case "add":
		changed = !in[o.I]
		in[o.I] = true
	case "remove":
		changed = in[o.I]
		in[o.I] = false
	}
	return changed
}

// applyList: installed-list model (mod hash): order given to Refresh/Add, first
// occurrence wins, Remove closes the gap.
func applyList(list []int, o Op) []int {
	has := func(l []int, i int) bool {
		for _, x := range l {
			if x == i {
				return true
			}
		}
		return false
	}
	switch o.K {
	case "refresh":
		var n []int
		for _, i := range o.L {
			if !has(n, i) {
				n = append(n, i)
			}
		}
		return n
	case "add":
		if !has(list, o.I) {
			return append(append([]int{}, list...), o.I)
		}
	case "remove":
		var n []int
		for _, x := range list {
			if x != o.I {
				n = append(n, x)
			}
		}
		return n
	}
	return list
}

func applyImpl(s selector.Selector, eps []endpoint.Endpoint, o Op) {
	switch o.K {
	case "refresh":
		l := make([]endpoint.Endpoint, len(o.L))
		for j, i := range o.L {
			l[j] = eps[i]
		}
		s.Refresh(l)
	case "add":
		_ = s.Add(eps[o.I]) // real callers ignore the error as well
	case "remove":
		_ = s.Remove(eps[o.I])
	}
}

func cloneB(b []bool) []bool { return append([]bool(nil), b...) }
func count(b []bool) int {
	n := 0
	for _, x := range b {
		if x {
			n++
		}
	}
	return n
}
func setStr(b []bool) string {
	var l []int
	for i, x := range b {
		if x {
			l = append(l, i)
		}
	}
	return fmt.Sprint(l)
}

// ------------------------------------------------------------------------ ring check

type ringEnv struct {
	c      RingCase
	eps    []endpoint.Endpoint
	idx    map[string]int
	points [][]uint32
	codes  []uint32 // ascending, distinct
	nPoint int
	// backwards: per selector, the direction of the next sweep over the codes
	backwards map[*consistenthash.ConsistentHash]bool
}

func newRingEnv(c RingCase) *ringEnv {
	e := &ringEnv{c: c, idx: map[string]int{}, backwards: map[*consistenthash.ConsistentHash]bool{}}
	set := map[uint32]struct{}{}
	add := func(x uint32) { set[x] = struct{}{} }
	for i, u := range c.U {
		e.eps = append(e.eps, mkEndpoint(u))
		e.idx[u.Host] = i
		ps := refHostPoints(u.Host, refRounds(c.Weighted, u.Weight), c.Alg)
		e.points = append(e.points, ps)
		e.nPoint += len(ps)
		for _, p := range ps {
			add(p)
			if p != 0 {
				add(p - 1)
			}
			if p != math.MaxUint32 {
				add(p + 1)
			}
		}
	}
	for _, x := range []uint32{0, 1, 1<<31 - 1, 1 << 31, math.MaxUint32 - 1, math.MaxUint32} {
		add(x)
	}
	for _, x := range c.Rand {
		add(x)
	}
	for x := range set {
		e.codes = append(e.codes, x)
	}
	sort.Slice(e.codes, func(a, b int) bool { return e.codes[a] < e.codes[b] })
	return e
}

func (e *ringEnv) host(i int16) string {
	if i < 0 {
		return "<error: no endpoint>"
	}
	return fmt.Sprintf("#%d(%s)", i, e.c.U[i].Host)
}

// describe a code relative to the reference ring of set `in`.
func (e *ringEnv) describe(code uint32, in []bool) string {
	ring := refRing(e.points, in)
	s := fmt.Sprintf("code %d", code)
	for i, ps := range e.points {
		for r, p := range ps {
			switch {
			case p == code:
				s += fmt.Sprintf(" [= ring point %d of %s, installed=%v]", r, e.host(int16(i)), in[i])
			case p == code+1 && code != math.MaxUint32:
				s += fmt.Sprintf(" [= (ring point %d of %s)-1, installed=%v]", r, e.host(int16(i)), in[i])
			case p+1 == code && p != math.MaxUint32:
				s += fmt.Sprintf(" [= (ring point %d of %s)+1, installed=%v]", r, e.host(int16(i)), in[i])
			}
		}
	}
	if len(ring) > 0 {
		s += fmt.Sprintf(" (installed ring: %d points, lowest %d, highest %d)", len(ring), ring[0].P, ring[len(ring)-1].P)
	}
	return s
}

// noRef (C14_NO_REF=1) switches oracle (a) off; used ONLY in sensitivity experiments to show
// that the metamorphic oracles (b), (c), (d) have teeth of their own.
var noRef = os.Getenv("C14_NO_REF") == "1"

// observe routes every probed code through Select and compares with the reference ring.
func (e *ringEnv) observe(ch *consistenthash.ConsistentHash, in []bool, where string) ([]int16, *stat.Failure) {
	empty := count(in) == 0
	got := make([]int16, len(e.codes))
	// the codes are looked up alternately in ascending and descending order, so that the
	// first lookup after an operation repeats the last lookup before it (a caller that sticks
	// to one code across a membership change)
	e.backwards[ch] = !e.backwards[ch]
	for j := range e.codes {
		i := j
		if !e.backwards[ch] {
			i = len(e.codes) - 1 - j
		}
		code := e.codes[i]
		ep, err := ch.Select(hashMsg{code, selector.ConsistentHash})
		if err != nil {
			if !empty {
				return nil, stat.Failf("select-error", "%s: installed set %s but Select(%d) failed: %v", where, setStr(in), code, err)
			}
			got[i] = -1
			continue
		}
		if empty {
			return nil, stat.Failf("empty-set-routed", "%s: nothing installed but Select(%d) returned %+v", where, code, ep)
		}
		k, ok := e.idx[ep.Host]
		if !ok || ep != e.eps[k] {
			return nil, stat.Failf("foreign-endpoint", "%s: Select(%d) returned %+v which is not an endpoint given to the selector", where, code, ep)
		}
		if !in[k] {
			return nil, stat.Failf("routed-to-absent", "%s: %s routed to %s which is not installed (installed %s)", where, e.describe(code, in), e.host(int16(k)), setStr(in))
		}
		got[i] = int16(k)
	}
	if noRef {
		return got, nil
	}
	want := refLookupSorted(refRing(e.points, in), e.codes)
	for i := range got {
		if got[i] != want[i] {
			return nil, stat.Failf("ring-mismatch", "%s: %s routed to %s, the reference ring (md5(host_i), 4 LE points per digest, successor with wrap) gives %s; installed %s", where, e.describe(e.codes[i], in), e.host(got[i]), e.host(want[i]), setStr(in))
		}
	}
	return got, nil
}

// stepCheck: minimal disruption between two consecutive states.
func (e *ringEnv) stepCheck(o Op, before, after []bool, prev, cur []int16, where string) *stat.Failure {
	sig := "refresh-disruption"
	switch {
	case o.K == "add" && before[o.I], o.K == "remove" && !before[o.I]:
		sig = "noop-changed-mapping"
	case o.K == "add":
		sig = "add-moved-to-old-endpoint"
	case o.K == "remove":
		sig = "remove-disturbed-others"
	}
	for i := range cur {
		p, c := prev[i], cur[i]
		if p == c || p < 0 || !after[p] {
			continue
		}
		// previous owner still installed and the code moved: only legal onto an endpoint
		// installed by this very operation
		if c >= 0 && after[c] && !before[c] {
			continue
		}
		return stat.Failf(sig, "%s: %s was routed to %s (still installed) and is now routed to %s which was not installed by this operation; before %s after %s", where, e.describe(e.codes[i], after), e.host(p), e.host(c), setStr(before), setStr(after))
	}
	return nil
}

func same(a, b []int16) int {
	for i := range a {
		if a[i] != b[i] {
			return i
		}
	}
	return -1
}

type ringInfo struct {
	final, removalsA, removalsB, removalsTail, addsTail, noops, refreshes, sameSetRefresh int
	bFinisher                                                                             string
}

func analyseRing(c RingCase) ringInfo {
	var inf ringInfo
	n := len(c.U)
	walk := func(h []Op, in []bool, rem *int, adds *int) {
		for _, o := range h {
			b := cloneB(in)
			ch := applySet(in, o)
			switch o.K {
			case "refresh":
				inf.refreshes++
				if !ch && count(in) > 0 {
					inf.sameSetRefresh++
				}
				for i := range in {
					if b[i] && !in[i] {
						*rem++
					}
				}
			case "add":
				if !ch {
					inf.noops++
				} else if adds != nil {
					*adds++
				}
			case "remove":
				if !ch {
					inf.noops++
				} else {
					*rem++
				}
			}
		}
	}
	in := make([]bool, n)
	walk(c.HistA, in, &inf.removalsA, nil)
	inf.final = count(in)
	walk(c.Tail, in, &inf.removalsTail, &inf.addsTail)
	inB := make([]bool, n)
	walk(c.HistB, inB, &inf.removalsB, nil)
	if k := len(c.HistB); k > 0 && c.HistB[k-1].K == "refresh" {
		inf.bFinisher = "histB:ends-with-refresh"
	} else {
		inf.bFinisher = "histB:ends-incremental"
	}
	return inf
}

func sizeClass(prefix string, n int) string {
	switch {
	case n == 0:
		return prefix + ":0"
	case n <= 2:
		return prefix + ":" + strconv.Itoa(n)
	case n <= 7:
		return prefix + ":3-7"
	default:
		return prefix + ":8-16"
	}
}

func runRing(c RingCase) (fail *stat.Failure) {
	defer func() {
		if r := recover(); r != nil {
			fail = stat.Failf("panic", "panic in selector code: %v", r)
		}
	}()
	if f := validate(c.U, c.HistA, c.HistB, c.Tail); f != nil {
		return f
	}
	if c.Alg != algKetama && c.Alg != algDefault {
		return stat.Failf("harness-case", "alg %d", c.Alg)
	}
	e := newRingEnv(c)
	if refCollision(e.points) {
		st.Excluded("ring-collision")
		return nil
	}
	inf := analyseRing(c)
	n := len(c.U)
	algName := map[int]string{algKetama: "ketama", algDefault: "default"}[c.Alg]
	wName := map[bool]string{true: "weighted", false: "unweighted"}[c.Weighted]
	classes := []string{"ring", "ring:" + algName + "-" + wName, sizeClass("ring:universe", n), sizeClass("ring:final-set", inf.final), inf.bFinisher}
	if inf.removalsA > 0 {
		classes = append(classes, "ring:histA-has-removal")
	}
	if inf.removalsB > 0 {
		classes = append(classes, "ring:histB-has-removal")
	}
	if inf.removalsTail > 0 {
		classes = append(classes, "ring:tail-remove")
	}
	if inf.addsTail > 0 {
		classes = append(classes, "ring:tail-add")
	}
	if inf.noops > 0 {
		classes = append(classes, "ring:has-noop-add/remove")
	}
	if inf.sameSetRefresh > 0 {
		classes = append(classes, "ring:refresh-to-same-set")
	}
	nt := n >= 3 && inf.removalsA+inf.removalsB+inf.removalsTail > 0
	st.CaseJSON(c, nt, classes...)
	st.Class("ring:probe at ring point", int64(e.nPoint))
	st.Class("ring:probe at ring point +-1", int64(2*e.nPoint))
	st.Class("ring:probe total codes", int64(len(e.codes)))

	alg := consistenthash.KetamaHash
	if c.Alg == algDefault {
		alg = consistenthash.DefaultHash
	}
	// ---- history A, observed after every operation
	chA := consistenthash.New(c.Weighted, alg)
	in := make([]bool, n)
	prev, f := e.observe(chA, in, "new selector")
	if f != nil {
		return f
	}
	step := func(o Op, where string) *stat.Failure {
		before := cloneB(in)
		applySet(in, o)
		applyImpl(chA, e.eps, o)
		cur, f := e.observe(chA, in, where)
		if f != nil {
			return f
		}
		if f := e.stepCheck(o, before, in, prev, cur, where); f != nil {
			return f
		}
		prev = cur
		return nil
	}
	for k, o := range c.HistA {
		if f := step(o, fmt.Sprintf("history A after op %d %v", k, o)); f != nil {
			return f
		}
	}
	final := cloneB(in)
	if ring := refRing(e.points, final); len(ring) > 0 {
		hi := ring[len(ring)-1].P
		w := 0
		for j := len(e.codes) - 1; j >= 0 && e.codes[j] > hi; j-- {
			w++
		}
		st.Class("ring:probe above highest installed point (wrap)", int64(w))
		lo := 0
		for j := 0; j < len(e.codes) && e.codes[j] <= ring[0].P; j++ {
			lo++
		}
		st.Class("ring:probe at/below lowest installed point", int64(lo))
	}
	// ---- history B: other operations, same final set
	chB := consistenthash.New(c.Weighted, alg)
	inB := make([]bool, n)
	for _, o := range c.HistB {
		applySet(inB, o)
		applyImpl(chB, e.eps, o)
	}
	for i := range final {
		if final[i] != inB[i] {
			return stat.Failf("harness-case", "histories end in different sets %s / %s", setStr(final), setStr(inB))
		}
	}
	mB, f := e.observe(chB, inB, "history B final state")
	if f != nil {
		return f
	}
	if i := same(prev, mB); i >= 0 {
		return stat.Failf("history-dependence", "same installed set %s reached by two histories: %s is routed to %s after history A and to %s after history B", setStr(final), e.describe(e.codes[i], final), e.host(prev[i]), e.host(mB[i]))
	}
	// ---- instance C: one Refresh in universe order
	chC := consistenthash.New(c.Weighted, alg)
	var l []int
	for i, x := range final {
		if x {
			l = append(l, i)
		}
	}
	applyImpl(chC, e.eps, Op{K: "refresh", L: l})
	mC, f := e.observe(chC, final, "single Refresh of the final set")
	if f != nil {
		return f
	}
	if i := same(prev, mC); i >= 0 {
		return stat.Failf("history-dependence", "same installed set %s: %s is routed to %s after history A and to %s after one Refresh", setStr(final), e.describe(e.codes[i], final), e.host(prev[i]), e.host(mC[i]))
	}
	// ---- repeated selection: other order, both entry points
	for i := len(e.codes) - 1; i >= 0; i-- {
		ep, ok := chA.FindInt32(e.codes[i])
		g := int16(-1)
		if ok {
			if k, known := e.idx[ep.Host]; known && ep == e.eps[k] {
				g = int16(k)
			} else {
				g = -2
			}
		}
		if g != prev[i] {
			return stat.Failf("not-constant", "set %s unchanged: %s first routed to %s, FindInt32 now gives %s (%+v)", setStr(final), e.describe(e.codes[i], final), e.host(prev[i]), e.host(maxI16(g, -1)), ep)
		}
	}
	again, f := e.observe(chA, final, "second selection round on history A's selector")
	if f != nil {
		return f
	}
	if i := same(prev, again); i >= 0 {
		return stat.Failf("not-constant", "set %s unchanged: %s first routed to %s then to %s", setStr(final), e.describe(e.codes[i], final), e.host(prev[i]), e.host(again[i]))
	}
	// ---- string keys
	ring := refRing(e.points, final)
	for _, key := range c.Keys {
		ep, ok := chA.Find(key)
		want := refSuccessor(ring, refKeyHash(key, c.Alg))
		g := -1
		if ok {
			if k, known := e.idx[ep.Host]; known && ep == e.eps[k] {
				g = k
			} else {
				g = -2
			}
		}
		if g != want {
			return stat.Failf("find-string", "Find(%q): key hash %d, got %s (%+v) want %s; installed %s", key, refKeyHash(key, c.Alg), e.host(int16(maxInt(g, -1))), ep, e.host(int16(want)), setStr(final))
		}
		st.Class("ring:Find(string key)", 1)
	}
	// ---- tail on history A's selector: effective Remove / Add
	for k, o := range c.Tail {
		if f := step(o, fmt.Sprintf("tail op %d %v (after history A)", k, o)); f != nil {
			return f
		}
	}
	return nil
}

func maxI16(a, b int16) int16 {
	if a > b {
		return a
	}
	return b
}
func maxInt(a, b int) int {
	if a > b {
		return a
	}
	return b
}

// ------------------------------------------------------------------------ mod check

func runMod(c ModCase) (fail *stat.Failure) {
	defer func() {
		if r := recover(); r != nil {
			fail = stat.Failf("panic", "panic in selector code: %v", r)
		}
	}()
	if f := validate(c.U, c.Hist); f != nil {
		return f
	}
	n := len(c.U)
	if c.EnableWeight {
		for _, u := range c.U {
			if u.WType != int32(endpoint.EStaticWeight) || u.Weight <= 0 {
				return stat.Failf("harness-case", "enableWeight needs static positive weights (precondition), got %+v", u)
			}
		}
	}
	eps := make([]endpoint.Endpoint, n)
	idx := map[string]int{}
	for i, u := range c.U {
		eps[i] = mkEndpoint(u)
		idx[u.Host] = i
	}
	// classes from the model
	removals, noops, maxLen := 0, 0, 0
	{
		var l []int
		for _, o := range c.Hist {
			nl := applyList(l, o)
			switch o.K {
			case "remove":
				if len(nl) < len(l) {
					removals++
				} else {
					noops++
				}
			case "add":
				if len(nl) == len(l) {
					noops++
				}
			case "refresh":
				for _, x := range l {
					gone := true
					for _, y := range nl {
						if x == y {
							gone = false
						}
					}
					if gone {
						removals++
					}
				}
			}
			l = nl
			if len(l) > maxLen {
				maxLen = len(l)
			}
		}
	}
	mode := "mod:plain (enableWeight=false)"
	if c.EnableWeight {
		mode = "mod:static-weights"
	}
	classes := []string{"mod", mode, sizeClass("mod:universe", n), sizeClass("mod:max-installed", maxLen)}
	if removals > 0 {
		classes = append(classes, "mod:history-has-removal")
	}
	if noops > 0 {
		classes = append(classes, "mod:has-noop-add/remove")
	}
	st.CaseJSON(c, n >= 3 && maxLen >= 3 && removals > 0, classes...)

	m := modhash.New(c.EnableWeight)
	sel := func(h uint32) (int, *stat.Failure) {
		ep, err := m.Select(hashMsg{h, selector.ModHash})
		if err != nil {
			return -1, nil
		}
		k, ok := idx[ep.Host]
		if !ok || ep != eps[k] {
			return 0, stat.Failf("foreign-endpoint", "Select(%d) returned %+v which is not an endpoint given to the selector", h, ep)
		}
		return k, nil
	}
	var list []int
	check := func(where string) *stat.Failure {
		N := len(list)
		if N == 0 {
			for _, h := range []uint32{0, 1, math.MaxUint32} {
				k, f := sel(h)
				if f != nil {
					return f
				}
				if k != -1 {
					return stat.Failf("empty-set-routed", "%s: nothing installed but Select(%d) returned endpoint #%d", where, h, k)
				}
			}
			return nil
		}
		names := func(l []int) string {
			s := "["
			for j, i := range l {
				if j > 0 {
					s += " "
				}
				s += fmt.Sprintf("#%d(%s,w=%d)", i, c.U[i].Host, c.U[i].Weight)
			}
			return s + "]"
		}
		P := N
		var cycle []int // expected endpoint (universe index) for h mod P; nil for plain
		if c.EnableWeight {
			ws := make([]int32, N)
			le := make([]endpoint.Endpoint, N)
			for j, i := range list {
				ws[j] = c.U[i].Weight
				le[j] = eps[i]
			}
			counts, period := refStaticCounts(ws)
			P = period
			obs := make([]int, P)
			mult := map[int]int{}
			for h := 0; h < P; h++ {
				k, f := sel(uint32(h))
				if f != nil {
					return f
				}
				if k < 0 {
					return stat.Failf("select-error", "%s: installed %s but Select(%d) failed", where, names(list), h)
				}
				obs[h] = k
				mult[k]++
			}
			for j, i := range list {
				if mult[i] != counts[j] {
					return stat.Failf("weighted-multiplicity", "%s: installed %s: over one period h=0..%d endpoint #%d (weight %d) is selected %d times, formula max(1,floor(W*R/Wmax)) gives %d (period %d)", where, names(list), P-1, i, ws[j], mult[i], counts[j], P)
				}
			}
			if len(mult) != N {
				return stat.Failf("weighted-multiplicity", "%s: installed %s: %d distinct endpoints selected over one period, %d installed", where, names(list), len(mult), N)
			}
			bl := selector.BuildStaticWeightList(le)
			if len(bl) != P {
				return stat.Failf("weighted-period", "%s: installed %s: BuildStaticWeightList has length %d, formula gives period %d", where, names(list), len(bl), P)
			}
			for h := 0; h < P; h++ {
				if bl[h] < 0 || bl[h] >= N || list[bl[h]] != obs[h] {
					return stat.Failf("weighted-indexing", "%s: installed %s: code %d routed to #%d, slot %d of the weighted cycle (BuildStaticWeightList of the installed list) is list position %d", where, names(list), h, obs[h], h, bl[h])
				}
			}
			cycle = obs
			st.Class("mod:weighted period checked", 1)
			for j := range counts {
				if counts[j] == 1 {
					st.Class("mod:weighted state with a multiplicity-1 endpoint (scaled weight floored to 0 or 1)", 1)
					break
				}
			}
			if N >= 3 {
				st.Class("mod:weighted state with >=3 installed", 1)
			}
		}
		want := func(h uint32) int {
			if cycle != nil {
				return cycle[h%uint32(P)]
			}
			return list[h%uint32(N)]
		}
		var probes []uint32
		for h := 0; h < 2*P+3; h++ {
			probes = append(probes, uint32(h))
		}
		top := uint32(math.MaxUint32) / uint32(P) * uint32(P) // largest multiple of P
		probes = append(probes, top-1, top, top+1, math.MaxUint32, math.MaxUint32-1, 1<<31-1, 1<<31, 1<<31+1, 1<<31+uint32(P))
		probes = append(probes, c.Rand...)
		for _, h := range probes {
			k, f := sel(h)
			if f != nil {
				return f
			}
			if k < 0 {
				return stat.Failf("select-error", "%s: installed %s but Select(%d) failed", where, names(list), h)
			}
			if w := want(h); k != w {
				if cycle != nil {
					return stat.Failf("weighted-period", "%s: installed %s: code %d routed to #%d but code %d mod period %d = %d is routed to #%d", where, names(list), h, k, h, P, h%uint32(P), w)
				}
				return stat.Failf("mod-slot", "%s: installed %s: code %d routed to #%d, slot %d mod %d = %d of the installed list holds #%d", where, names(list), h, k, h, N, h%uint32(N), w)
			}
			// repeated selection
			if k2, _ := sel(h); k2 != k {
				return stat.Failf("not-constant", "%s: code %d routed to #%d then #%d with unchanged list", where, h, k, k2)
			}
		}
		st.Class("mod:codes probed", int64(len(probes)))
		if cycle == nil && N >= 3 {
			st.Class("mod:plain state with >=3 installed", 1)
		}
		return nil
	}
	if f := check("new selector"); f != nil {
		return f
	}
	for k, o := range c.Hist {
		list = applyList(list, o)
		applyImpl(m, eps, o)
		if f := check(fmt.Sprintf("after op %d %v", k, o)); f != nil {
			return f
		}
	}
	return nil
}

// ------------------------------------------------------------------------ generators

var hostGen = rapid.OneOf(
	rapid.Custom(func(t *rapid.T) string {
		return fmt.Sprintf("10.%d.%d.%d", rapid.IntRange(0, 2).Draw(t, "b"), rapid.IntRange(0, 3).Draw(t, "c"), rapid.IntRange(1, 254).Draw(t, "d"))
	}),
	rapid.Custom(func(t *rapid.T) string { return fmt.Sprintf("127.0.0.%d", rapid.IntRange(1, 40).Draw(t, "d")) }),
	rapid.StringMatching(`[a-z]{1,6}(-[0-9]{1,2})?(\.[a-z]{2,4})?`),
	rapid.SampledFrom([]string{"h", "h_1", "h_1_0", "h_10", "h_0", "h_", "_0", "a", "b", "1.1.1.1", "2.2.2.2", "10.160.129.102", "10.160.129.105", "::1", "fe80::1"}),
)

var ringWeightGen = rapid.OneOf(
	rapid.Int32Range(1, 12),
	rapid.Int32Range(1, 130),
	rapid.SampledFrom([]int32{1, 3, 4, 5, 7, 8, 9, 99, 100, 101, 103, 104, 200}),
)

func drawHosts(rt *rapid.T, n int) []string {
	seen := map[string]bool{}
	out := make([]string, 0, n)
	for i := 0; i < n; i++ {
		h := hostGen.Draw(rt, "host")
		if seen[h] {
			h = h + "-" + strconv.Itoa(i)
		}
		for seen[h] {
			h += "x"
		}
		seen[h] = true
		out = append(out, h)
	}
	return out
}

func drawSize(rt *rapid.T) int {
	return rapid.OneOf(rapid.IntRange(1, 16), rapid.IntRange(3, 8), rapid.SampledFrom([]int{1, 2, 3, 16})).Draw(rt, "n")
}

// pick an index, preferably one whose membership equals want.
func pickIdx(rt *rapid.T, in []bool, want bool) int {
	var cand []int
	for i, x := range in {
		if x == want {
			cand = append(cand, i)
		}
	}
	if len(cand) == 0 || rapid.IntRange(0, 7).Draw(rt, "any") == 0 {
		return rapid.IntRange(0, len(in)-1).Draw(rt, "idx")
	}
	return rapid.SampledFrom(cand).Draw(rt, "idx")
}

func drawRefresh(rt *rapid.T, n int) Op {
	var l []int
	switch rapid.IntRange(0, 9).Draw(rt, "rmode") {
	case 0:
		// empty list
	case 1, 2:
		for i := 0; i < n; i++ {
			l = append(l, i)
		}
	default:
		for i := 0; i < n; i++ {
			if rapid.IntRange(0, 3).Draw(rt, "in") != 0 {
				l = append(l, i)
			}
		}
	}
	if len(l) > 1 {
		l = rapid.Permutation(l).Draw(rt, "order")
	}
	return Op{K: "refresh", L: l}
}

// drawOps draws k operations, tracking the set model in `in`.
func drawOps(rt *rapid.T, in []bool, k int) []Op {
	var ops []Op
	for j := 0; j < k; j++ {
		var o Op
		switch rapid.SampledFrom([]string{"add", "add", "add", "add", "remove", "remove", "remove", "remove", "refresh", "refresh"}).Draw(rt, "kind") {
		case "add":
			o = Op{K: "add", I: pickIdx(rt, in, false)}
		case "remove":
			o = Op{K: "remove", I: pickIdx(rt, in, true)}
		default:
			o = drawRefresh(rt, len(in))
		}
		applySet(in, o)
		ops = append(ops, o)
	}
	return ops
}

func drawHistory(rt *rapid.T, n, maxOps int) ([]Op, []bool) {
	in := make([]bool, n)
	var ops []Op
	if rapid.IntRange(0, 3).Draw(rt, "startRefresh") != 0 {
		o := drawRefresh(rt, n)
		applySet(in, o)
		ops = append(ops, o)
	}
	ops = append(ops, drawOps(rt, in, rapid.IntRange(1, maxOps).Draw(rt, "nops"))...)
	return ops, in
}

func drawRing(rt *rapid.T) RingCase {
	c := RingCase{}
	c.Weighted = rapid.Bool().Draw(rt, "weighted")
	if rapid.IntRange(0, 5).Draw(rt, "alg") == 0 {
		c.Alg = algDefault
	}
	n := drawSize(rt)
	for _, h := range drawHosts(rt, n) {
		e := EP{Host: h, Port: int32(rapid.IntRange(1, 65535).Draw(rt, "port"))}
		if c.Weighted {
			e.Weight = ringWeightGen.Draw(rt, "w")
			e.WType = int32(endpoint.EStaticWeight)
		} else {
			e.Weight = rapid.Int32Range(0, 200).Draw(rt, "w")
			e.WType = rapid.SampledFrom([]int32{0, 0, 1}).Draw(rt, "wt")
		}
		c.U = append(c.U, e)
	}
	var final []bool
	c.HistA, final = drawHistory(rt, n, 8)

	// history B: random prefix, then a finisher reaching `final`
	inB := make([]bool, n)
	c.HistB = drawOps(rt, inB, rapid.IntRange(0, 5).Draw(rt, "prefixB"))
	var members []int
	for i, x := range final {
		if x {
			members = append(members, i)
		}
	}
	order := make([]int, n)
	for i := range order {
		order[i] = i
	}
	if n > 1 {
		order = rapid.Permutation(order).Draw(rt, "orderB")
	}
	fix := func() {
		for _, i := range order {
			if inB[i] && !final[i] {
				c.HistB = append(c.HistB, Op{K: "remove", I: i})
				inB[i] = false
			} else if !inB[i] && final[i] {
				c.HistB = append(c.HistB, Op{K: "add", I: i})
				inB[i] = true
			}
		}
	}
	switch rapid.IntRange(0, 2).Draw(rt, "finisherB") {
	case 0: // one Refresh of a permutation of the final set
		l := members
		if len(l) > 1 {
			l = rapid.Permutation(l).Draw(rt, "permB")
		}
		c.HistB = append(c.HistB, Op{K: "refresh", L: l})
	case 1: // incremental, drawn order
		fix()
	default: // Refresh of a superset, then Removes
		var l []int
		for _, i := range order {
			if final[i] || rapid.Bool().Draw(rt, "extra") {
				l = append(l, i)
			}
		}
		o := Op{K: "refresh", L: l}
		applySet(inB, o)
		c.HistB = append(c.HistB, o)
		fix()
	}

	// tail on A: an effective Remove, an effective Add, a few more operations
	in := cloneB(final)
	if count(in) > 0 {
		o := Op{K: "remove", I: rapid.SampledFrom(members).Draw(rt, "tailRemove")}
		applySet(in, o)
		c.Tail = append(c.Tail, o)
	}
	if count(in) < n {
		var absent []int
		for i, x := range in {
			if !x {
				absent = append(absent, i)
			}
		}
		o := Op{K: "add", I: rapid.SampledFrom(absent).Draw(rt, "tailAdd")}
		applySet(in, o)
		c.Tail = append(c.Tail, o)
	}
	c.Tail = append(c.Tail, drawOps(rt, in, rapid.IntRange(0, 2).Draw(rt, "tailMore"))...)

	c.Rand = rapid.SliceOfN(rapid.Uint32(), 0, 12).Draw(rt, "rand")
	c.Keys = rapid.SliceOfN(rapid.StringMatching(`[#a-zA-Z0-9_.]{0,12}`), 0, 3).Draw(rt, "keys")
	return c
}

func drawMod(rt *rapid.T) ModCase {
	c := ModCase{EnableWeight: rapid.Bool().Draw(rt, "enableWeight")}
	n := drawSize(rt)
	profile := rapid.IntRange(0, 3).Draw(rt, "profile")
	if c.EnableWeight && profile == 1 && n > 6 {
		n = 1 + n%6
	}
	var equalW int32
	if c.EnableWeight && profile == 2 {
		equalW = rapid.Int32Range(1, 1000).Draw(rt, "equalW")
	}
	for _, h := range drawHosts(rt, n) {
		e := EP{Host: h, Port: int32(rapid.IntRange(1, 65535).Draw(rt, "port"))}
		if c.EnableWeight {
			e.WType = int32(endpoint.EStaticWeight)
			switch profile {
			case 1: // wide spread: R up to 100, scaled weights of 0 -> 1
				e.Weight = rapid.SampledFrom([]int32{1, 2, 3, 5, 10, 49, 50, 99, 100, 101, 500, 1000, 5000, 100000}).Draw(rt, "w")
			case 2:
				e.Weight = equalW
			default:
				e.Weight = rapid.Int32Range(1, 20).Draw(rt, "w")
			}
		} else {
			e.Weight = rapid.Int32Range(0, 100).Draw(rt, "w")
			e.WType = rapid.SampledFrom([]int32{0, 0, 1}).Draw(rt, "wt")
		}
		c.U = append(c.U, e)
	}
	c.Hist, _ = drawHistory(rt, n, 6)
	c.Rand = rapid.SliceOfN(rapid.Uint32(), 0, 12).Draw(rt, "rand")
	return c
}

// ------------------------------------------------------------------------ pinned cases

func ep(h string, w int32, wt int32) EP { return EP{Host: h, Port: 10000, Weight: w, WType: wt} }

var pinnedRing = map[string]RingCase{
	"3hosts-unweighted": {Weighted: false, Alg: algKetama,
		U:     []EP{ep("127.0.0.1", 0, 0), ep("127.0.0.2", 0, 0), ep("127.0.0.3", 0, 0)},
		HistA: []Op{{K: "add", I: 0}, {K: "add", I: 1}, {K: "add", I: 2}, {K: "remove", I: 1}, {K: "add", I: 1}, {K: "remove", I: 0}},
		HistB: []Op{{K: "refresh", L: []int{2, 1, 0}}, {K: "remove", I: 0}},
		Tail:  []Op{{K: "remove", I: 2}, {K: "add", I: 0}, {K: "remove", I: 1}, {K: "remove", I: 0}},
		Keys:  []string{"#12723353", "#12723353_native", ""}},
	"4hosts-weighted": {Weighted: true, Alg: algKetama,
		U:     []EP{ep("10.0.0.1", 1, 1), ep("10.0.0.2", 4, 1), ep("10.0.0.3", 7, 1), ep("10.0.0.4", 100, 1)},
		HistA: []Op{{K: "refresh", L: []int{3, 0, 2}}, {K: "add", I: 1}, {K: "remove", I: 3}, {K: "add", I: 3}, {K: "add", I: 3}},
		HistB: []Op{{K: "add", I: 1}, {K: "add", I: 3}, {K: "add", I: 2}, {K: "remove", I: 2}, {K: "add", I: 0}, {K: "add", I: 2}},
		Tail:  []Op{{K: "remove", I: 3}, {K: "remove", I: 0}, {K: "add", I: 3}}},
	"3hosts-default-alg": {Weighted: false, Alg: algDefault,
		U:     []EP{ep("10.160.129.102", 0, 0), ep("10.160.129.105", 0, 0), ep("h_1", 0, 0)},
		HistA: []Op{{K: "refresh", L: []int{0, 1, 2}}, {K: "remove", I: 2}},
		HistB: []Op{{K: "add", I: 1}, {K: "add", I: 0}},
		Tail:  []Op{{K: "remove", I: 0}, {K: "add", I: 2}},
		Keys:  []string{"#12723353"}},
}

// A universe with a genuine 32-bit collision (virtual node 22/word 2 of 10.0.6.144 and
// virtual node 13/word 0 of 10.0.6.157 both fall on 157481277): must be recognised by the
// reference ring and excluded (with the real code the owner of that point depends on the
// order of insertion; not targeted, see assumptions).
var pinnedCollision = RingCase{Weighted: false, Alg: algKetama,
	U:     []EP{ep("10.0.6.144", 0, 0), ep("10.0.6.157", 0, 0), ep("10.0.6.1", 0, 0)},
	HistA: []Op{{K: "refresh", L: []int{0, 1, 2}}},
	HistB: []Op{{K: "refresh", L: []int{1, 0, 2}}}}

var pinnedMod = map[string]ModCase{
	"plain-5": {EnableWeight: false,
		U:    []EP{ep("127.0.0.1", 0, 0), ep("127.0.0.2", 5, 1), ep("127.0.0.3", 0, 0), ep("127.0.0.4", 0, 0), ep("127.0.0.5", 0, 0)},
		Hist: []Op{{K: "refresh", L: []int{4, 2, 0, 1}}, {K: "add", I: 3}, {K: "remove", I: 2}, {K: "add", I: 2}, {K: "remove", I: 4}, {K: "remove", I: 4}}},
	"static-5-10-20": {EnableWeight: true,
		U:    []EP{ep("127.0.0.1", 5, 1), ep("127.0.0.2", 10, 1), ep("127.0.0.3", 20, 1)},
		Hist: []Op{{K: "refresh", L: []int{0, 1, 2}}, {K: "remove", I: 1}, {K: "add", I: 1}}},
	"static-1-1000": {EnableWeight: true,
		U:    []EP{ep("127.0.0.1", 1, 1), ep("127.0.0.2", 1000, 1), ep("127.0.0.3", 7, 1)},
		Hist: []Op{{K: "refresh", L: []int{1, 0}}, {K: "add", I: 2}, {K: "remove", I: 1}}},
}

// refSelfCheck: known answers computed outside Go (python hashlib/struct '<4I') and the
// agreement of the two reference lookups; a failure here is a harness problem.
func refSelfCheck() string {
	p := refHostPoints("1.1.1.1", 1, algKetama)
	if fmt.Sprint(p) != "[4259641794 1895514996 3865793901 936474269]" {
		return fmt.Sprint("md5(1.1.1.1_0) little-endian words: ", p)
	}
	if refKeyHash("1.1.1.1", algKetama) != 329942752 || refKeyHash("2.2.2.2", algKetama) != 2857797211 {
		return "key hash known answers"
	}
	if refKeyHash("2.2.2.2", algDefault) != 2857797211^3037443324^387821452^2835777007 {
		return "default key hash known answer"
	}
	pts := [][]uint32{{10, 20, 4000000000}, {15, 4294967295}, {0}}
	for _, in := range [][]bool{{true, true, false}, {true, false, false}, {true, true, true}, {false, false, false}} {
		ring := refRing(pts, in)
		codes := []uint32{0, 1, 9, 10, 11, 15, 16, 20, 21, 3999999999, 4000000000, 4000000001, 4294967294, 4294967295}
		sw := refLookupSorted(ring, codes)
		for i, c := range codes {
			if int(sw[i]) != refSuccessor(ring, c) {
				return fmt.Sprint("sweep/linear disagree at ", c, in)
			}
		}
	}
	ring := refRing(pts, []bool{true, true, false})
	for c, w := range map[uint32]int{0: 0, 10: 0, 11: 1, 15: 1, 16: 0, 21: 0, 4000000001: 1, 4294967295: 1} {
		if refSuccessor(ring, c) != w {
			return fmt.Sprint("successor of ", c)
		}
	}
	if refSuccessor(refRing(pts, []bool{true, false, false}), 4000000001) != 0 {
		return "wrap"
	}
	if c, p := refStaticCounts([]int32{5, 10, 20}); fmt.Sprint(c, p) != "[2 5 10] 17" {
		return fmt.Sprint("static counts ", c, p)
	}
	if c, p := refStaticCounts([]int32{1, 1000, 7}); fmt.Sprint(c, p) != "[1 100 1] 102" {
		return fmt.Sprint("static counts ", c, p)
	}
	return ""
}

func TestC14(t *testing.T) {
	defer st.Emit()
	if msg := refSelfCheck(); msg != "" {
		fmt.Printf("\nVERIF-INFRA reference ring self-check failed: %s\n", msg)
		t.Fatalf("reference self-check: %s", msg)
	}
	if stat.ReplayPath() == "" && os.Getenv("VERIF_ONLY") == "" {
		stat.Pinned(t, st, "ring", pinnedRing, runRing) // named like the rapid sub-check so that replay files route to it
		stat.Pinned(t, st, "mod", pinnedMod, runMod)
		if e := newRingEnv(pinnedCollision); !refCollision(e.points) {
			fmt.Printf("\nVERIF-INFRA reference ring did not detect the pinned 32-bit collision\n")
			t.Fatalf("collision detection")
		}
		_ = runRing(pinnedCollision) // counted as excluded "ring-collision"
	}
	stat.Check(t, st, "ring", stat.N(3000, 12500), drawRing, runRing)
	stat.Check(t, st, "mod", stat.N(2500, 10000), drawMod, runMod)
}

// Sensitivity record (2026-09-27, scratch worktree /tmp/wt_c14 of /repo HEAD, one mutant at a
// time, `VERIF_REPO=/tmp/wt_c14 ./check C14` quick tier; every run exited 1; sub-check:signature
// of the recorded violations in brackets):
//
//	consistenthash_new.go
//	 1 FindInt32: no wrap to index 0 (clamp to last index)            [ring:ring-mismatch]
//	 2 addLocked: md5(host) without the "_i" suffix                   [ring:ring-mismatch]
//	 3 sort(): ring sorted descending                                 [ring:ring-mismatch]
//	 4 FindInt32: successor `>` instead of `>=` on a ring point       [ring:ring-mismatch]
//	 5 Remove: loop `i < weight-1` (last virtual node stays)          [ring:routed-to-absent, ring:empty-set-routed]
//	 6 Remove: no reBuildHashRingLocked                               [ring:foreign-endpoint, ring:empty-set-routed]
//	 7 Add: no sort after addLocked                                   [ring:ring-mismatch]
//	 8 weight(): ceil(w/4) instead of floor                           [ring:ring-mismatch]
//	 9 addLocked: big-endian words                                    [ring:ring-mismatch]
//	10 addLocked: 3 points per digest                                 [ring:ring-mismatch]
//	11 weight(): ep.Weight used although enableWeight=false           [ring:ring-mismatch]
//	12 Refresh: mapValues not reset                                   [ring:select-error]
//	modhash.go
//	13 plain branch `(h+1) % n`                                       [mod:mod-slot]
//	14 weighted branch `(h+1) % len(cache)`                           [mod:weighted-indexing]
//	15 Remove: no reBuildLocked (stale weighted cache)                [mod:panic]
//	16 addLocked: prepend instead of append                           [mod:mod-slot, mod:weighted-indexing]
//	17 Refresh: mapValues not reset                                   [mod:mod-slot]
//	with oracle (a) switched off (C14_NO_REF=1) to test (b)/(c)/(d) alone:
//	18 mutant 7                                                        [ring:history-dependence, ring:remove-disturbed-others, ring:add-moved-to-old-endpoint]
//	19 virtual-node salt depends on the number of installed endpoints [ring:history-dependence, ring:routed-to-absent]
//	20 lookup index shifted by len(mapValues) (pure function of the
//	   set, deterministic, but not minimally disruptive)              [ring:add-moved-to-old-endpoint, ring:remove-disturbed-others]
//	21 every 4099th lookup answers index 0                            [ring:remove-disturbed-others, ring:history-dependence]
//	22 control: comment-only change, C14_NO_REF=1                      exit 0
