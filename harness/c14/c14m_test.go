// C14, manager level: a call made with a hash code in its context is routed by the hash
// rules. Real ServantProxy objects (direct address lists and registry-backed) call 3..5
// scripted servers on distinct loopback hosts with current.SetClientHash; the server that
// logs the request must be the one an independent computation predicts: mod-hash => slot
// code mod N of the installed (crc32-of-key ordered) list, consistent hash => successor on
// the reference ring (refring_test.go), weighted ring when all endpoints carry static weights.
package c14

import (
	"context"
	"encoding/binary"
	"fmt"
	"hash/crc32"
	"sort"
	"strings"
	"sync"
	"sync/atomic"
	"testing"
	"time"

	"github.com/TarsCloud/TarsGo/tars"
	"github.com/TarsCloud/TarsGo/tars/protocol/res/endpointf"
	"github.com/TarsCloud/TarsGo/tars/protocol/res/requestf"
	"github.com/TarsCloud/TarsGo/tars/registry"
	"github.com/TarsCloud/TarsGo/tars/util/current"
	"github.com/TarsCloud/TarsGo/tars/util/endpoint"
	"github.com/TarsCloud/TarsGo/tars/util/rogger"
	"pgregory.net/rapid"

	"verif/harness/peer"
	"verif/harness/stat"
)

type MCall struct {
	HashType int    `json:"hash_type"` // -1 none, 0 mod hash, 1 consistent hash
	Code     uint32 `json:"code"`
}

type MCase struct {
	// Block: index of an endpoint that is made to fail and taken out of rotation by a
	// status check between two batches of hash-routed calls (-1: none; registry only)
	Block    int     `json:"block"`
	NServers int     `json:"n_servers"`
	Registry bool    `json:"registry"`
	Weighted bool    `json:"weighted"` // registry only: all endpoints static-weighted
	Weights  []int32 `json:"weights"`
	Calls    []MCall `json:"calls"`
	// WTypes (registry only, non-empty = mixed): per endpoint weight type 0 (loop) / 1 (static),
	// not all equal - static weights only apply when every endpoint carries one, so the
	// routing is that of the unweighted set, whatever the order of the registry's list
	WTypes []int32 `json:"wtypes,omitempty"`
	// Reweigh (registry, all static): after the first batch of calls the registry publishes
	// these static weights for the same endpoints and the manager refreshes; the routing is
	// then that of the re-weighted set, also after an endpoint has left rotation
	Reweigh []int32 `json:"reweigh,omitempty"`
	// FlipWeightType (registry, uniform weight type): after the first batch of calls the
	// registry publishes the same endpoints with the other weight type (all static with the
	// case's weights <-> all loop) and the manager refreshes
	FlipWeightType bool `json:"flip_weight_type,omitempty"`
}

var (
	mModes   [5]int32 // 0 ok, 1 failing (silent)
	mServers []*peer.Server
	mOnce    sync.Once
	mSeq     int64
)

type mRegistry struct{ eps []endpointf.EndpointF }

func (r *mRegistry) Registry(ctx context.Context, s *registry.ServantInstance) error   { return nil }
func (r *mRegistry) Deregister(ctx context.Context, s *registry.ServantInstance) error { return nil }
func (r *mRegistry) QueryServant(ctx context.Context, id string) ([]registry.Endpoint, []registry.Endpoint, error) {
	return append([]endpointf.EndpointF{}, r.eps...), nil, nil
}
func (r *mRegistry) QueryServantBySet(ctx context.Context, id, set string) ([]registry.Endpoint, []registry.Endpoint, error) {
	return r.QueryServant(ctx, id)
}

func drawM(rt *rapid.T) MCase {
	c := MCase{NServers: rapid.IntRange(3, 5).Draw(rt, "nservers"), Registry: rapid.Bool().Draw(rt, "registry"), Block: -1}
	if c.Registry {
		switch rapid.SampledFrom([]string{"loop", "static", "static", "mixed", "mixed"}).Draw(rt, "weightMode") {
		case "static":
			c.Weighted = true
		case "mixed":
			// shapes: the same type at both ends of the list with the other type in between
			// (a check that only compares neighbours or the ends is fooled), or free
			shape := rapid.SampledFrom([]string{"ends-static", "ends-static", "ends-loop", "free"}).Draw(rt, "mixedShape")
			c.WTypes = make([]int32, c.NServers)
			switch shape {
			case "free":
				ones := 0
				for i := range c.WTypes {
					c.WTypes[i] = int32(rapid.IntRange(0, 1).Draw(rt, "wtype"))
					ones += int(c.WTypes[i])
				}
				if ones == 0 {
					c.WTypes[0] = 1
				} else if ones == c.NServers {
					c.WTypes[0] = 0
				}
			default:
				end, mid := int32(1), int32(0)
				if shape == "ends-loop" {
					end, mid = 0, 1
				}
				for i := range c.WTypes {
					c.WTypes[i] = end
				}
				k := 1 + rapid.IntRange(0, c.NServers-3).Draw(rt, "midAt")
				c.WTypes[k] = mid
				for i := 1; i < c.NServers-1; i++ {
					if i != k && rapid.Bool().Draw(rt, "midMore") {
						c.WTypes[i] = mid
					}
				}
			}
		}
		if rapid.Bool().Draw(rt, "withBlock") {
			c.Block = rapid.IntRange(0, c.NServers-1).Draw(rt, "block")
		}
	}
	for i := 0; i < c.NServers; i++ {
		c.Weights = append(c.Weights, int32(rapid.SampledFrom([]int{4, 8, 20, 40, 100}).Draw(rt, "weight")))
	}
	if c.Registry && len(c.WTypes) == 0 && rapid.IntRange(0, 2).Draw(rt, "flipType") == 0 {
		c.FlipWeightType = true
	}
	if c.Registry && c.Weighted && !c.FlipWeightType && rapid.IntRange(0, 1).Draw(rt, "reweigh") == 0 {
		for i := 0; i < c.NServers; i++ {
			c.Reweigh = append(c.Reweigh, int32(rapid.SampledFrom([]int{4, 8, 20, 40, 100}).Draw(rt, "newWeight")))
		}
	}
	// ring points of the hosts and their neighbours are the interesting codes
	var pts []uint32
	for i := 0; i < c.NServers; i++ {
		rounds := refRounds(c.Weighted, c.Weights[i])
		pts = append(pts, refHostPoints(fmt.Sprintf("127.0.0.%d", i+1), rounds, algKetama)...)
		if len(c.Reweigh) > 0 {
			pts = append(pts, refHostPoints(fmt.Sprintf("127.0.0.%d", i+1), refRounds(true, c.Reweigh[i]), algKetama)...)
		}
		if c.FlipWeightType {
			pts = append(pts, refHostPoints(fmt.Sprintf("127.0.0.%d", i+1), refRounds(!c.Weighted, c.Weights[i]), algKetama)...)
		}
	}
	n := rapid.IntRange(1, 24).Draw(rt, "ncalls")
	for i := 0; i < n; i++ {
		call := MCall{HashType: rapid.SampledFrom([]int{-1, 0, 0, 1, 1, 1}).Draw(rt, "hashType")}
		switch rapid.IntRange(0, 3).Draw(rt, "codeMode") {
		case 0:
			call.Code = rapid.Uint32().Draw(rt, "code")
		case 1:
			call.Code = rapid.SampledFrom([]uint32{0, 1, 1<<32 - 1, 1 << 31, uint32(c.NServers), uint32(c.NServers) - 1}).Draw(rt, "edge")
		default:
			p := pts[rapid.IntRange(0, len(pts)-1).Draw(rt, "pt")]
			call.Code = p + uint32(rapid.IntRange(-1, 1).Draw(rt, "delta"))
		}
		if i > 0 && rapid.IntRange(0, 4).Draw(rt, "repeat") == 0 {
			call = c.Calls[rapid.IntRange(0, i-1).Draw(rt, "of")]
		}
		c.Calls = append(c.Calls, call)
	}
	return c
}

func runM(c MCase) *stat.Failure {
	mOnce.Do(func() {
		rogger.SetLevel(rogger.OFF)
		cm := tars.NewCommunicator()
		cm.Client.CheckStatusInterval = 1000000000
		cm.Client.RefreshEndpointInterval = 1000000000
		for i := 0; i < 5; i++ {
			s, err := peer.Listen(fmt.Sprintf("127.0.0.%d", i+1))
			if err != nil {
				panic(err)
			}
			i := i
			s.Handler = func(s *peer.Server, r *peer.Req) {
				if atomic.LoadInt32(&mModes[i]) == 0 {
					s.Reply(r.Conn, r.Version, r.ID, 0, "", "own", 0)
				}
			}
			mServers = append(mServers, s)
		}
	})
	hosts := make([]string, c.NServers)
	keys := make([]string, c.NServers)
	var sp *tars.ServantProxy
	name := fmt.Sprintf("Verif.C14.Obj%d", atomic.AddInt64(&mSeq, 1))
	var mreg *mRegistry
	if c.Registry {
		reg := &mRegistry{}
		mreg = reg
		for i := 0; i < c.NServers; i++ {
			hosts[i] = mServers[i].Host
			ef := endpointf.EndpointF{Host: hosts[i], Port: int32(mServers[i].Port), Timeout: 60000, Istcp: 1, Weight: 100}
			if c.Weighted || (len(c.WTypes) > 0 && c.WTypes[i] == 1) {
				ef.WeightType, ef.Weight = 1, c.Weights[i]
			}
			reg.eps = append(reg.eps, ef)
			keys[i] = endpoint.Tars2endpoint(ef).Key
		}
		sp = tars.NewServantProxy(tars.NewCommunicator(tars.Registrar(reg)), name)
	} else {
		var parts []string
		for i := 0; i < c.NServers; i++ {
			hosts[i] = mServers[i].Host
			s := fmt.Sprintf("tcp -h %s -p %d -t 60000", hosts[i], mServers[i].Port)
			parts = append(parts, s)
			keys[i] = endpoint.Parse(s).Key
		}
		sp = tars.NewServantProxy(tars.NewCommunicator(), name+"@"+strings.Join(parts, ":"))
	}
	// reference: installed order = ascending crc32 of the endpoint key
	order := make([]int, c.NServers)
	for i := range order {
		order[i] = i
	}
	sort.SliceStable(order, func(a, b int) bool {
		return crc32.ChecksumIEEE([]byte(keys[order[a]])) < crc32.ChecksumIEEE([]byte(keys[order[b]]))
	})
	points := make([][]uint32, c.NServers)
	in := make([]bool, c.NServers)
	for i := range points {
		points[i] = refHostPoints(hosts[i], refRounds(c.Weighted, c.Weights[i]), algKetama)
		in[i] = true
	}
	if refCollision(points) {
		st.Excluded("ring-collision")
		return nil
	}
	for i := range mModes {
		atomic.StoreInt32(&mModes[i], 0)
	}
	for i := 0; i < c.NServers; i++ {
		mServers[i].ResetLog()
	}
	tokSeq := uint32(0)
	invoke := func(call MCall, timeout time.Duration) (int, error) {
		tokSeq++
		tok := tokSeq
		buf := make([]byte, 4)
		binary.BigEndian.PutUint32(buf, tok)
		ctx := current.ContextWithClientCurrent(context.Background())
		if call.HashType >= 0 {
			current.SetClientHash(ctx, call.HashType, call.Code)
		}
		ctx, cancel := context.WithTimeout(ctx, timeout)
		err := sp.TarsInvoke(ctx, 0, "echo", buf, nil, nil, &requestf.ResponsePacket{})
		cancel()
		got := -1
		for i := 0; i < c.NServers; i++ {
			reqs, _, _ := mServers[i].Snapshot()
			for j := len(reqs) - 1; j >= 0 && j >= len(reqs)-6; j-- {
				if len(reqs[j].Buffer) >= 4 && binary.BigEndian.Uint32(reqs[j].Buffer) == tok {
					got = i
				}
			}
		}
		return got, err
	}
	phase := func(name string, installed []int, in []bool) *stat.Failure {
		ring := refRing(points, in)
		routed := map[MCall]int{}
		for ci, call := range c.Calls {
			got, err := invoke(call, 2*time.Second)
			if err != nil {
				return stat.Failf("call-failed", "%s call %d (hash type %d code %d): %v", name, ci, call.HashType, call.Code, err)
			}
			if got < 0 {
				return stat.Failf("not-routed-to-member", "%s call %d succeeded but none of the %d endpoints received it", name, ci, c.NServers)
			}
			want := -1
			switch call.HashType {
			case 0:
				if !c.Weighted { // the order inside a weighted cycle is a selector-level matter
					want = installed[int(call.Code%uint32(len(installed)))]
				}
			case 1:
				want = refSuccessor(ring, call.Code)
			}
			if want >= 0 && got != want {
				kind := map[int]string{0: "mod-hash", 1: "consistent-hash"}[call.HashType]
				return stat.Failf("hash-routing", "%s call %d with %s code %d (registry=%v weighted=%v, installed %v) reached %s, the rule sends it to %s", name, ci, kind, call.Code, c.Registry, c.Weighted, installed, hosts[got], hosts[want])
			}
			if call.HashType >= 0 {
				if prev, ok := routed[call]; ok && prev != got {
					return stat.Failf("hash-not-deterministic", "%s: the same hash code %d (type %d) was routed to %s and then to %s with an unchanged endpoint set", name, call.Code, call.HashType, hosts[prev], hosts[got])
				}
				routed[call] = got
			}
		}
		return nil
	}
	if f := phase("initial set:", order, in); f != nil {
		return f
	}
	if c.FlipWeightType && mreg != nil {
		c.Weighted = !c.Weighted
		for i := 0; i < c.NServers; i++ {
			if c.Weighted {
				mreg.eps[i].WeightType, mreg.eps[i].Weight = 1, c.Weights[i]
			} else {
				mreg.eps[i].WeightType, mreg.eps[i].Weight = 0, 100
			}
			points[i] = refHostPoints(hosts[i], refRounds(c.Weighted, c.Weights[i]), algKetama)
		}
		if refCollision(points) {
			st.Excluded("ring-collision")
			return nil
		}
		if err := sp.VerifRefresh(); err != nil {
			return stat.Failf("harness-failure", "refresh: %v", err)
		}
		st.Class("manager-weight-type-flipped-by-refresh", 1)
		if f := phase(fmt.Sprintf("after the registry flipped the weight type of all endpoints (now static=%v):", c.Weighted), order, in); f != nil {
			return f
		}
	}
	if len(c.Reweigh) > 0 && mreg != nil {
		for i := 0; i < c.NServers; i++ {
			mreg.eps[i].Weight = c.Reweigh[i]
			points[i] = refHostPoints(hosts[i], refRounds(true, c.Reweigh[i]), algKetama)
		}
		if refCollision(points) {
			st.Excluded("ring-collision")
			return nil
		}
		if err := sp.VerifRefresh(); err != nil {
			return stat.Failf("harness-failure", "refresh: %v", err)
		}
		st.Class("manager-static-weights-changed-by-refresh", 1)
		if f := phase("after the registry changed the static weights:", order, in); f != nil {
			return f
		}
	}
	if c.Block >= 0 {
		// make one endpoint fail, let it collect >= 5 consecutive failures, advance the clock,
		// run a status check: it leaves rotation; hash routing must follow the reduced set
		atomic.StoreInt32(&mModes[c.Block], 1)
		for k := 0; k < 8*c.NServers; k++ {
			invoke(MCall{HashType: -1}, 40*time.Millisecond)
		}
		for _, a := range sp.VerifAdapters() {
			a.VerifShiftClock(10)
		}
		sp.VerifCheckStatus()
		out := true
		for _, h := range sp.VerifActiveHosts() {
			if h == hosts[c.Block] {
				out = false
			}
		}
		if !out {
			st.Class("manager-block-not-achieved", 1)
		} else {
			st.Class("manager-block-phase", 1)
			var installed []int
			in2 := make([]bool, c.NServers)
			for _, i := range order {
				if i != c.Block {
					installed = append(installed, i)
					in2[i] = true
				}
			}
			if f := phase("after endpoint "+hosts[c.Block]+" left rotation:", installed, in2); f != nil {
				return f
			}
			if mreg != nil {
				// the registry publishes a changed answer (a QoS value, no endpoint changes its
				// identity) and the manager refreshes while the endpoint is still out: the
				// routing stays that of the reduced set
				mreg.eps[(c.Block+1)%c.NServers].Qos++
				if err := sp.VerifRefresh(); err != nil {
					return stat.Failf("harness-failure", "refresh: %v", err)
				}
				st.Class("manager-refresh-while-blocked", 1)
				if f := phase("after a registry refresh while "+hosts[c.Block]+" is out of rotation:", installed, in2); f != nil {
					return f
				}
			}
		}
	}
	for i := 0; i < c.NServers; i++ {
		mServers[i].CloseAllConns()
	}
	return nil
}

// pinnedReweigh: the registry raises the static weight of an endpoint (8 -> 40, 4 -> 100)
// that later leaves rotation; the codes are the ring points the endpoint owns under its new
// weight and their neighbours.
func pinnedReweigh() map[string]MCase {
	out := map[string]MCase{}
	for name, w := range map[string][2]int32{"weight-8-to-40": {8, 40}, "weight-4-to-100": {4, 100}} {
		for blk := 0; blk < 2; blk++ {
			c := MCase{NServers: 3, Registry: true, Weighted: true, Block: blk, Weights: []int32{20, 20, 20}, Reweigh: []int32{20, 20, 20}}
			c.Weights[blk], c.Reweigh[blk] = w[0], w[1]
			pts := refHostPoints(fmt.Sprintf("127.0.0.%d", blk+1), refRounds(true, w[1]), algKetama)
			for i, p := range pts {
				if i%3 == 0 {
					c.Calls = append(c.Calls, MCall{HashType: 1, Code: p}, MCall{HashType: 1, Code: p - 1})
				}
			}
			out[fmt.Sprintf("%s-block-%d", name, blk)] = c
		}
	}
	return out
}

func TestC14Manager(t *testing.T) {
	defer st.Emit()
	if stat.ReplayPath() == "" {
		pin := pinnedReweigh()
		for name, c := range pin {
			st.CaseJSON(c, true, "manager-level", "manager-pinned-reweigh-then-block")
			_ = name
		}
		stat.Pinned(t, st, "manager-pinned-reweigh", pin, runM)
	}
	stat.Check(t, st, "manager", stat.N(60, 2500), drawM, func(c MCase) *stat.Failure {
		cls := []string{"manager-level", fmt.Sprintf("manager-servers-%d", c.NServers)}
		if c.Registry {
			cls = append(cls, "manager-registry")
		} else {
			cls = append(cls, "manager-direct")
		}
		if c.Weighted {
			cls = append(cls, "manager-weighted")
		}
		if len(c.WTypes) > 0 {
			cls = append(cls, "manager-mixed-weight-types")
		}
		st.CaseJSON(c, len(c.Calls) >= 3, cls...)
		return runM(c)
	})
}
