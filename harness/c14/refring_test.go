// Reference models for C14, written from the documented routing scheme and NOT from the
// implementation's data structures (shared by the selector-level check in c14_test.go and
// by any later manager-level unit of this package).
//
// Reference ring (ketama style):
//   - an endpoint is identified by its host string H (endpoint.HashKey() == Host);
//   - it owns `rounds` rounds of virtual nodes, rounds = max(1, floor(W/4)) where W is the
//     endpoint's static weight when weighting is enabled and the constant 100 otherwise
//     (so 25 rounds unweighted);
//   - round i (i = 0..rounds-1) hashes the string  H + "_" + decimal(i)  with MD5;
//     Ketama: the 16 digest bytes are read as four little-endian uint32 -> four ring points;
//     Default: the four little-endian words are XOR-ed -> one ring point;
//   - a code h is routed to the owner of the smallest ring point >= h, and to the owner of
//     the smallest ring point overall when no point is >= h (wrap-around).
//
// The reference keeps a flat slice of (point, owner) pairs rebuilt from the *set* of
// endpoints only (it has no notion of history), and answers lookups either by a linear
// scan (refSuccessor) or by a two-pointer sweep over ascending codes (refLookupSorted);
// neither shares code or structure with the implementation (map + sort.Search).
package c14

import (
	"crypto/md5"
	"encoding/binary"
	"sort"
	"strconv"
)

const (
	algKetama  = 0
	algDefault = 1
)

// refPoint is one virtual node: ring position and index of the owning endpoint.
type refPoint struct {
	P     uint32
	Owner int
}

// refRounds: number of hashing rounds of one endpoint.
func refRounds(weighted bool, weight int32) int {
	w := 100
	if weighted {
		w = int(weight)
	}
	r := w / 4
	if r < 1 {
		r = 1
	}
	return r
}

// refHostPoints: the ring points of one host.
func refHostPoints(host string, rounds int, alg int) []uint32 {
	out := make([]uint32, 0, rounds*4)
	for i := 0; i < rounds; i++ {
		d := md5.Sum([]byte(host + "_" + strconv.Itoa(i)))
		w0 := binary.LittleEndian.Uint32(d[0:4])
		w1 := binary.LittleEndian.Uint32(d[4:8])
		w2 := binary.LittleEndian.Uint32(d[8:12])
		w3 := binary.LittleEndian.Uint32(d[12:16])
		if alg == algKetama {
			out = append(out, w0, w1, w2, w3)
		} else {
			out = append(out, w0^w1^w2^w3)
		}
	}
	return out
}

// refKeyHash: the code a *string* key is routed by (ConsistentHash.Find): first
// little-endian word of md5(key) for Ketama, XOR of the four words for Default.
func refKeyHash(key string, alg int) uint32 {
	d := md5.Sum([]byte(key))
	w0 := binary.LittleEndian.Uint32(d[0:4])
	if alg == algKetama {
		return w0
	}
	return w0 ^ binary.LittleEndian.Uint32(d[4:8]) ^ binary.LittleEndian.Uint32(d[8:12]) ^ binary.LittleEndian.Uint32(d[12:16])
}

// refRing builds the ascending ring of the endpoints whose index is set in `in`;
// points[i] are the points of endpoint i.
func refRing(points [][]uint32, in []bool) []refPoint {
	var ring []refPoint
	for i, ps := range points {
		if !in[i] {
			continue
		}
		for _, p := range ps {
			ring = append(ring, refPoint{p, i})
		}
	}
	sort.Slice(ring, func(a, b int) bool {
		if ring[a].P != ring[b].P {
			return ring[a].P < ring[b].P
		}
		return ring[a].Owner < ring[b].Owner
	})
	return ring
}

// refCollision reports two virtual nodes of *different* endpoints, or of the same
// endpoint, falling on the same 32-bit point anywhere in the universe.
func refCollision(points [][]uint32) bool {
	seen := map[uint32]struct{}{}
	for _, ps := range points {
		for _, p := range ps {
			if _, dup := seen[p]; dup {
				return true
			}
			seen[p] = struct{}{}
		}
	}
	return false
}

// refSuccessor: linear scan; -1 for an empty ring.
func refSuccessor(ring []refPoint, code uint32) int {
	best, lowest := -1, -1
	for i, rp := range ring {
		if lowest < 0 || rp.P < ring[lowest].P {
			lowest = i
		}
		if rp.P >= code && (best < 0 || rp.P < ring[best].P) {
			best = i
		}
	}
	if best >= 0 {
		return ring[best].Owner
	}
	if lowest >= 0 {
		return ring[lowest].Owner
	}
	return -1
}

// refLookupSorted answers all codes (ascending) with one sweep over the ascending ring.
func refLookupSorted(ring []refPoint, codes []uint32) []int16 {
	out := make([]int16, len(codes))
	j := 0
	for i, c := range codes {
		if len(ring) == 0 {
			out[i] = -1
			continue
		}
		for j < len(ring) && ring[j].P < c {
			j++
		}
		if j == len(ring) {
			out[i] = int16(ring[0].Owner) // past the last point: wrap to the first
		} else {
			out[i] = int16(ring[j].Owner)
		}
	}
	return out
}

// ---------------------------------------------------------------- mod-hash reference

// refStaticCounts: per-period multiplicities of the static-weight cycle,
// c_i = max(1, floor(W_i*R/W_max)), R = min(100, max(10, floor(W_max/W_min))); all W_i > 0.
func refStaticCounts(weights []int32) (counts []int, period int) {
	wmax, wmin := int64(weights[0]), int64(weights[0])
	for _, w := range weights {
		if int64(w) > wmax {
			wmax = int64(w)
		}
		if int64(w) < wmin {
			wmin = int64(w)
		}
	}
	r := wmax / wmin
	if r < 10 {
		r = 10
	}
	if r > 100 {
		r = 100
	}
	counts = make([]int, len(weights))
	for i, w := range weights {
		c := int(int64(w) * r / wmax)
		if c < 1 {
			c = 1
		}
		counts[i] = c
		period += c
	}
	return counts, period
}
