package codecprops

import (
	"bytes"
	"fmt"
	"testing"

	"pgregory.net/rapid"

	rc "verif/harness/refcodec"
	"verif/harness/stat"
)

// C06Case: a valid canonical encoding of a value and one mutation of it.
//
//	Kind "prefix":  Mut = canonical[:Cut]
//	Kind "inflate": one embedded length/count rewritten to exceed what remains
//	Kind "subst":   one field (any depth) replaced by a well-formed field of a wire type
//	                that is not admissible for its schema type
type C06Case struct {
	ValueCase
	Kind   string `json:"kind"`
	Mut    []byte `json:"mut"`
	Detail string `json:"detail"`
	Inside bool   `json:"inside"` // cut/inflation strictly inside a field payload, or same-size substitution
	// Unknown > 0: the encoding carries that many spliced fields the reader's schema does not
	// declare (cuts / inflations may land inside fields that are skipped, not decoded)
	Unknown int `json:"unknown,omitempty"`
}

const C06Rule = "For every struct of the registry and generated value with reference encoding e (canonical, or - a third / a quarter of the cases - with unsigned-byte vectors in the simple-list form / byte vectors in the LIST form, which readers accept although the framework's writers do not produce them): (prefix) every/random proper prefix of e; (inflate) one embedded length (string1 byte, string4 word, simple-list/list/map count field) rewritten to remaining+1, remaining+255, 2^30, 3*2^29 or 2^31-1; for a third of the prefix/inflate cases e additionally carries well-formed unknown fields (all wire types, nested containers, as in C04) so that the cut or inflated length can lie inside a field the reader skips; (subst) one field at any depth replaced by a well-formed field of an inadmissible wire type with the same tag. Oracle: differential against the reference decoder: L = strict decode of the longest prefix made of complete well-formed top-level fields (later optional members at default). Accepted: error, or - only when L exists - success with exactly L. subst: must be an error. Non-trivial = cut/inflation strictly inside a field payload, or substituted type with the same payload size. Distinct = distinct (struct, mutated bytes)."

// lenient computes L for mutated bytes: (value, nil) or (nil, err) when no acceptable
// successful outcome exists.
func (r *Registry) lenient(key string, mut []byte) (*rc.SV, error) {
	n := rc.CompletePrefix(mut)
	sv, _, err := rc.DecodeStruct(r.Schema.Structs[key], mut[:n])
	return sv, err
}

func (r *Registry) RunC06Case(c C06Case) *stat.Failure {
	if _, f := r.value(c.ValueCase); f != nil {
		return f
	}
	t := r.structType(c.Struct)
	return guard("C06 "+c.Struct, func() *stat.Failure {
		got, err := r.decodeImpl(c.Struct, c.Mut)
		if err != nil {
			return nil // rejected: always acceptable
		}
		switch c.Kind {
		case "subst":
			if _, _, rerr := rc.DecodeStruct(t.Struct, c.Mut); rerr == nil {
				return stat.Failf("harness-failure", "reference decoder accepts a substituted encoding (%s)", c.Detail)
			}
			return stat.Failf("reinterpreted-type", "%s: %s: decoding succeeded although a present field has an inadmissible wire type; decoded %v; bytes % x", c.Struct, c.Detail, show(got), clip(c.Mut))
		default:
			l, lerr := r.lenient(c.Struct, c.Mut)
			if lerr != nil {
				return stat.Failf("accepted-incomplete", "%s: %s: decoding succeeded but the complete fields present do not determine a value (%v); decoded %v; bytes % x", c.Struct, c.Detail, lerr, show(got), clip(c.Mut))
			}
			if d := rc.Diff(t, l, got, c.Struct); d != "" {
				return stat.Failf("fabricated-data", "%s: %s: decoding succeeded with data that is not in the input: %s (expected the value of the complete fields present); bytes % x", c.Struct, c.Detail, d, clip(c.Mut))
			}
		}
		return nil
	})
}

func (r *Registry) drawC06(rt *rapid.T) C06Case {
	vc := r.drawValueCase(rt, rc.Limits{MaxStr: 24, MaxElems: 4, BigStr: rapid.IntRange(0, 5).Draw(rt, "big") == 0})
	st := r.Schema.Structs[vc.Struct]
	sv, _, err := rc.DecodeStruct(st, vc.Val)
	if err != nil {
		panic(err)
	}
	c := C06Case{ValueCase: vc}
	kind := rapid.SampledFrom([]string{"prefix", "prefix", "inflate", "subst"}).Draw(rt, "kind")
	// legal forms the framework's own writers do not produce, but its readers accept: byte
	// vectors as LIST, unsigned-byte vectors as simple list
	enc := rc.Enc{RecordSites: true, SimpleForU8: rapid.IntRange(0, 2).Draw(rt, "simpleForU8") == 0, ListForBytes: rapid.IntRange(0, 3).Draw(rt, "listForBytes") == 0}
	spans := enc.StructBodySpans(sv)
	e := enc.Buf
	if kind != "subst" && rapid.IntRange(0, 2).Draw(rt, "withUnknown") == 0 {
		// the same value as a newer peer would send it: unknown fields (all wire types, nested
		// containers) spliced between the known members, so that cuts and inflated lengths
		// also land inside fields the reader has to skip
		x := &extrasEnc{rt: rt}
		x.e.RecordSites, x.e.SimpleForU8, x.e.ListForBytes = true, enc.SimpleForU8, enc.ListForBytes
		x.body(sv, 0)
		if x.n > 0 {
			enc, e, spans = x.e, x.e.Buf, nil
			c.Unknown = x.n
		}
	}
	if len(e) == 0 {
		kind = "prefix"
	}
	switch kind {
	case "prefix":
		cut := 0
		if len(e) > 0 {
			cut = rapid.IntRange(0, len(e)-1).Draw(rt, "cut")
			// bias towards cuts around field/length boundaries
			if len(enc.Sites) > 0 && rapid.Bool().Draw(rt, "nearSite") {
				s := enc.Sites[rapid.IntRange(0, len(enc.Sites)-1).Draw(rt, "site")]
				cut = s.End + rapid.IntRange(-2, 2).Draw(rt, "d")
				if cut < 0 {
					cut = 0
				}
				if cut > len(e)-1 {
					cut = len(e) - 1
				}
			}
		}
		c.Kind, c.Mut, c.Detail = "prefix", append([]byte{}, e[:cut]...), fmt.Sprintf("cut at %d of %d", cut, len(e))
		c.Inside = true
		for _, sp := range spans {
			if cut == sp.Start || cut == sp.End {
				c.Inside = false
			}
		}
		if cut == 0 {
			c.Inside = false
		}
	case "inflate":
		if len(enc.Sites) == 0 {
			c.Kind, c.Mut, c.Detail = "prefix", append([]byte{}, e[:len(e)/2]...), "cut (no length site)"
			return c
		}
		s := enc.Sites[rapid.IntRange(0, len(enc.Sites)-1).Draw(rt, "site")]
		remaining := len(e) - s.End
		mode := rapid.IntRange(0, 4).Draw(rt, "mode")
		target := int64(remaining + 1)
		switch mode {
		case 1:
			target = int64(remaining + 255)
		case 2:
			target = 1<<31 - 1
		case 3:
			target = 1 << 30 // twice this no longer fits 32 bits (map entries are two fields each)
		case 4:
			target = 3 << 29
		}
		var repl []byte
		switch s.Kind {
		case 0:
			if remaining+1 > 255 {
				// a 1-byte length cannot exceed what remains here; fall back to a cut
				c.Kind, c.Mut, c.Detail = "prefix", append([]byte{}, e[:s.End]...), "cut after string1 length"
				c.Inside = true
				return c
			}
			if target > 255 {
				target = 255
			}
			repl = []byte{byte(target)}
		case 1:
			repl = []byte{byte(target >> 24), byte(target >> 16), byte(target >> 8), byte(target)}
		default:
			var le rc.Enc
			le.Int(target, 0)
			repl = le.Buf
		}
		mut := append([]byte{}, e[:s.Off]...)
		mut = append(mut, repl...)
		mut = append(mut, e[s.End:]...)
		c.Kind, c.Mut, c.Inside = "inflate", mut, true
		c.Detail = fmt.Sprintf("length at offset %d (kind %d) inflated to %d with %d bytes remaining", s.Off, s.Kind, target, remaining)
	case "subst":
		var probe rc.Enc
		probe.StructBody(sv)
		n := probe.NValues()
		if n == 0 {
			c.Kind, c.Mut, c.Detail = "prefix", nil, "empty"
			return c
		}
		target := rapid.IntRange(0, n-1).Draw(rt, "target")
		var detail string
		sameSize := false
		sub := rc.Enc{}
		sub.Replace = func(e *rc.Enc, idx int, t *rc.Type, tag int) bool {
			if idx != target {
				return false
			}
			var bad []int
			for ty := 0; ty <= rc.WSimpleList; ty++ {
				if ty != rc.WStructEnd && !rc.Admissible(t, ty) {
					bad = append(bad, ty)
				}
			}
			ty := rapid.SampledFrom(bad).Draw(rt, "badty")
			rc.DrawFieldOfType(rt, e, ty, tag, 3, "sub")
			detail = fmt.Sprintf("value #%d (%v, tag %d) replaced by a field of wire type %d", idx, t.Kind, tag, ty)
			sameSize = payloadSize(ty) >= 0 && payloadSize(ty) == kindPayload(t.Kind)
			return true
		}
		sub.StructBody(sv)
		c.Kind, c.Mut, c.Detail, c.Inside = "subst", sub.Buf, detail, sameSize
	}
	return c
}

func payloadSize(ty int) int {
	switch ty {
	case rc.WZero:
		return 0
	case rc.WByte:
		return 1
	case rc.WShort:
		return 2
	case rc.WInt, rc.WFloat:
		return 4
	case rc.WLong, rc.WDouble:
		return 8
	}
	return -1
}

func kindPayload(k rc.Kind) int {
	switch k {
	case rc.KBool, rc.KI8:
		return 1
	case rc.KU8, rc.KI16:
		return 2
	case rc.KU16, rc.KI32, rc.KEnum, rc.KF32:
		return 4
	case rc.KU32, rc.KI64, rc.KF64:
		return 8
	}
	return -2
}

// RunC06 registers the C06 sub-checks for one registry.
func (r *Registry) RunC06(t *testing.T, st *stat.Stats, quick, thorough int) {
	stat.Check(t, st, "c06-"+r.Name, stat.N(quick, thorough), r.drawC06, func(c C06Case) *stat.Failure {
		fp := append([]byte(c.Struct+"|"), c.Mut...)
		st.Case(fp, c.Inside, func() any {
			return map[string]any{"struct": c.Struct, "kind": c.Kind, "detail": c.Detail, "unknown_fields": c.Unknown, "mutated_bytes": fmt.Sprintf("% x", clip(c.Mut))}
		}, r.Name, c.Kind, map[bool]string{true: "with-unknown-fields", false: "known-fields-only"}[c.Unknown > 0])
		return r.RunC06Case(c)
	})
	// every proper prefix of a few encodings (exhaustive over cut points)
	stat.Check(t, st, "c06-allcuts-"+r.Name, stat.N(quick/40+1, thorough/40+1), func(rt *rapid.T) ValueCase {
		return r.drawValueCase(rt, rc.Limits{MaxStr: 12, MaxElems: 3})
	}, func(vc ValueCase) *stat.Failure {
		sv, f := r.value(vc)
		if f != nil {
			return f
		}
		canon := rc.EncodeStruct(sv)
		for vi, enc := range []rc.Enc{{}, {SimpleForU8: true}, {ListForBytes: true}} {
			enc.StructBody(sv)
			e := enc.Buf
			if vi > 0 && bytes.Equal(e, canon) {
				continue // the value has no member the variant encodes differently
			}
			if len(e) > 600 {
				e = e[:600]
			}
			form := []string{"canonical", "unsigned-byte vectors as simple list", "byte vectors as LIST"}[vi]
			for cut := 0; cut < len(e); cut++ {
				c := C06Case{ValueCase: vc, Kind: "prefix", Mut: e[:cut], Detail: fmt.Sprintf("cut at %d of %d (all cuts, %s)", cut, len(e), form)}
				st.Case(append([]byte(vc.Struct+"|"), c.Mut...), true, nil, r.Name, "prefix-allcuts")
				if f := r.RunC06Case(c); f != nil {
					return f
				}
			}
		}
		return nil
	})
}
