package codecprops

import (
	"fmt"
	"runtime/metrics"
	"sync/atomic"
	"testing"
	"time"

	"github.com/TarsCloud/TarsGo/tars/protocol/codec"
	"pgregory.net/rapid"

	rc "verif/harness/refcodec"
	"verif/harness/stat"
)

const C05Rule = "Byte strings fed to ReadFrom and ReadBlock of every struct of the registry (request/response packets included) and to tup.UniAttribute.Decode: (random) uniform bytes and head-biased bytes; (mutant) valid encodings with bit flips, truncation, embedded lengths rewritten to -1/0x7fffffff/0x80000000/remaining+-1, type-nibble rewrites, spliced foreign fields; (shape) nesting bombs of StructBegin / LIST-of-LIST / MAP-of-MAP of depth 10^2..10^6 as unknown and known members, giant announced counts with tiny bodies, array lists longer than the array; (pinned hostile-site) per struct the all-members-written encoding of its default value, canonical and with byte vectors in LIST form, with each embedded count in turn set to 2^31-1, 2^28, -1, -2^31, and with every fixed-size array member sent as a well-formed list of 1 or 4 more elements than the array holds; mutants are also derived from LIST-form-byte-vector and widened-integer encodings. Oracle: returns value or error - no panic, terminates (wall <= 5 s + 1 us/byte, re-run twice before it counts), bytes allocated <= 4096*len(input)+64 KiB (process-wide counter: an excess counts when it shows in three consecutive runs and again in two runs that each follow an idle window of the process). Non-trivial = input not rejected at its first head byte: decoding consumed >= 3 fields before the verdict (observed as: strict scanner finds >= 3 complete leading fields), or depth >= 8, or an announced length > remaining. Distinct = distinct (struct, entry point, bytes)."

// Seg is one run of a multi-segment hostile input: Head, then Unit repeated Rep times.
type Seg struct {
	Head []byte `json:"head,omitempty"`
	Unit []byte `json:"unit"`
	Rep  int    `json:"rep"`
}

type C05Case struct {
	Segs   []Seg  `json:"segs,omitempty"`
	Struct string `json:"struct"`
	Block  bool   `json:"block"` // ReadBlock(tag 0) instead of ReadFrom
	Kind   string `json:"kind"`
	In     []byte `json:"in"`
	// Shape cases are stored compactly: Unit repeated Rep times, then Tail.
	Unit []byte `json:"unit,omitempty"`
	Rep  int    `json:"rep,omitempty"`
	Tail []byte `json:"tail,omitempty"`
	NT   bool   `json:"nt"`
}

func (c C05Case) input() []byte {
	if len(c.Segs) > 0 {
		var b []byte
		for _, s := range c.Segs {
			b = append(b, s.Head...)
			for i := 0; i < s.Rep; i++ {
				b = append(b, s.Unit...)
			}
		}
		return b
	}
	if c.Rep == 0 {
		return c.In
	}
	b := make([]byte, 0, len(c.In)+len(c.Unit)*c.Rep+len(c.Tail))
	b = append(b, c.In...)
	for i := 0; i < c.Rep; i++ {
		b = append(b, c.Unit...)
	}
	return append(b, c.Tail...)
}

var allocSample = []metrics.Sample{{Name: "/gc/heap/allocs:bytes"}}

// NoisyAllocMeasurements counts inputs whose allocation excess did not show again after an
// idle window (reported in the evidence as an extra).
var NoisyAllocMeasurements int64

func heapAllocs() uint64 {
	metrics.Read(allocSample)
	return allocSample[0].Value.Uint64()
}

func (r *Registry) decodeRaw(key string, block bool, in []byte) error {
	if cu := r.Custom[key]; cu != nil {
		_, err := cu.Decode(in)
		return err
	}
	co, _, err := r.newCodec(key)
	if err != nil {
		return nil
	}
	rd := codec.NewReader(in)
	if block {
		return co.ReadBlock(rd, 0, true)
	}
	return co.ReadFrom(rd)
}

// decodeWatched runs one decode under a watchdog; false = it did not return in time (the
// decoding goroutine is left behind, spinning). A panic of the decoder is re-raised in the
// calling goroutine.
func (r *Registry) decodeWatched(key string, block bool, in []byte, limit time.Duration) bool {
	type outcome struct{ p any }
	done := make(chan outcome, 1)
	go func() {
		defer func() { done <- outcome{recover()} }()
		_ = r.decodeRaw(key, block, in)
	}()
	select {
	case o := <-done:
		if o.p != nil {
			panic(o.p)
		}
		return true
	case <-time.After(limit):
		return false
	}
}

// NegativeLengths: pinned family of small negative lengths/counts (-1..-12 in every integer
// width) on SimpleList / LIST / MAP / STRING4 fields at a tag the reader has to skip and at
// tag 0: a skipper that moves by a negative amount can land on the field's own head again.
func (r *Registry) NegativeLengths() map[string]C05Case {
	out := map[string]C05Case{}
	keys := r.Keys
	if len(keys) > 3 {
		keys = []string{keys[0], keys[len(keys)/2], keys[len(keys)-1]}
	}
	for _, key := range keys {
		st := r.Schema.Structs[key]
		tags := []int{0}
		// an undeclared tag below the highest declared one (skipped on the way to it)
		hi := -1
		for _, f := range st.Fields {
			if f.Tag > hi {
				hi = f.Tag
			}
		}
		for t := 0; t < hi; t++ {
			if !declared(st, t) {
				tags = append(tags, t)
				break
			}
		}
		if hi >= 16 {
			for t := 15; t < hi; t++ {
				if !declared(st, t) {
					tags = append(tags, t)
					break
				}
			}
		}
		for _, tag := range tags {
			for _, ty := range []int{rc.WSimpleList, rc.WList, rc.WMap, rc.WString4} {
				for neg := 1; neg <= 12; neg++ {
					for width := 0; width < 3; width++ {
						var h rc.Enc
						h.Head(ty, tag)
						if ty == rc.WSimpleList {
							h.Head(rc.WByte, 0)
						}
						v := int32(-neg)
						switch {
						case ty == rc.WString4:
							if width > 0 {
								continue
							}
							h.Buf = append(h.Buf, byte(v>>24), byte(v>>16), byte(v>>8), byte(v))
						case width == 0:
							h.Buf = append(h.Buf, 0x00, byte(v))
						case width == 1:
							h.Buf = append(h.Buf, 0x01, byte(v>>8), byte(v))
						default:
							h.Buf = append(h.Buf, 0x02, byte(v>>24), byte(v>>16), byte(v>>8), byte(v))
						}
						for _, block := range []bool{false, true} {
							in := append([]byte{}, h.Buf...)
							if block {
								in = append(in, 0x0B)
							}
							out[fmt.Sprintf("%s/tag%d/ty%d/len-%d/w%d/block=%v", key, tag, ty, neg, width, block)] = C05Case{Struct: key, Block: block, Kind: "negative-length", In: in, NT: true}
						}
					}
				}
			}
		}
	}
	return out
}

// HostileSites: pinned family over every struct of the registry (at most 80): the encoding
// of its default value with every member written (empty containers still announce a count)
// in canonical form and with byte vectors in LIST form, and every embedded length/count in
// turn rewritten to 2^31-1, 2^28, -1 and -2^31. Reaches each typed container reader of
// each struct - including legal forms the framework's writers never produce - with a
// hostile count.
func (r *Registry) HostileSites() map[string]C05Case {
	out := map[string]C05Case{}
	keys := r.Keys
	if len(keys) > 80 {
		keys = keys[:80]
	}
	for _, key := range keys {
		sv := rc.DefaultStruct(r.Schema.Structs[key])
		for _, lfb := range []bool{false, true} {
			enc := rc.Enc{RecordSites: true, KeepDefaults: true, ListForBytes: lfb}
			enc.StructBody(sv)
			if !lfb {
				// fixed-size array members sent with more elements than the array holds (the
				// announced count is honest, the elements are well-formed)
				for fi, f := range sv.St.Fields {
					if f.Type.Kind != rc.KArray {
						continue
					}
					for _, extra := range []int{1, 4} {
						long := &rc.SV{St: sv.St, Fields: append([]any{}, sv.Fields...)}
						l := append([]any{}, sv.Fields[fi].([]any)...)
						for k := 0; k < extra; k++ {
							l = append(l, rc.Zero(f.Type.Elem))
						}
						long.Fields[fi] = l
						le := rc.Enc{KeepDefaults: true}
						le.StructBody(long)
						for _, block := range []bool{false, true} {
							out[fmt.Sprintf("%s/array-%s-with-%d-extra-elements/block=%v", key, f.Name, extra, block)] = C05Case{Struct: key, Block: block, Kind: "hostile-site", In: le.Buf, NT: true}
						}
					}
				}
			}
			for si, s := range enc.Sites {
				for _, v := range []int64{0x7fffffff, 1 << 28, -1, -0x80000000} {
					var repl []byte
					switch s.Kind {
					case 0:
						continue
					case 1:
						repl = []byte{byte(v >> 24), byte(v >> 16), byte(v >> 8), byte(v)}
					default:
						var le rc.Enc
						le.Int(v, 0)
						repl = le.Buf
					}
					in := append([]byte{}, enc.Buf[:s.Off]...)
					in = append(in, repl...)
					in = append(in, enc.Buf[s.End:]...)
					for _, block := range []bool{false, true} {
						out[fmt.Sprintf("%s/listForBytes=%v/site%d/len=%d/block=%v", key, lfb, si, v, block)] = C05Case{Struct: key, Block: block, Kind: "hostile-site", In: in, NT: true}
					}
				}
			}
		}
	}
	return out
}

func (r *Registry) RunC05Case(c C05Case) *stat.Failure {
	in := c.input()
	return guard("C05 "+c.Struct, func() *stat.Failure {
		limit := uint64(4096*len(in) + 64<<10)
		minAlloc := ^uint64(0)
		for attempt := 0; attempt < 3; attempt++ {
			a0 := heapAllocs()
			t0 := time.Now()
			if !r.decodeWatched(c.Struct, c.Block, in, 60*time.Second+time.Duration(len(in))*time.Microsecond) {
				return stat.Failf("hang", "%s (%s, block=%v): decoding %d bytes did not terminate within %v; input head % x", c.Struct, c.Kind, c.Block, len(in), time.Since(t0).Round(time.Second), clip(in))
			}
			dt := time.Since(t0)
			alloc := heapAllocs() - a0
			if alloc < minAlloc {
				minAlloc = alloc
			}
			slow := dt > 5*time.Second+time.Duration(len(in))*time.Microsecond
			if slow && attempt == 2 {
				return stat.Failf("hang", "%s (%s): decoding %d bytes took %v three times", c.Struct, c.Kind, len(in), dt)
			}
			// the allocation counter is process-wide; an excess only counts when it shows
			// up in three consecutive measurements of the same decode
			if !slow && alloc <= limit {
				return nil
			}
		}
		if minAlloc > limit {
			// The counter is process-wide and three measurements in a row can be polluted by
			// something else that allocates at that moment (seen once in a thorough run on a
			// busy machine: 68 KB "for" an empty input that allocates 2 KB). An excess counts
			// only when it shows again in two measurements that each directly follow an idle
			// window in which the process allocated (almost) nothing.
			confirmed := 0
			for k := 0; k < 8 && confirmed < 2; k++ {
				q0 := heapAllocs()
				time.Sleep(3 * time.Millisecond)
				if idle := heapAllocs() - q0; idle > 8<<10 {
					time.Sleep(100 * time.Millisecond)
					continue
				}
				a0 := heapAllocs()
				r.decodeWatched(c.Struct, c.Block, in, 60*time.Second+time.Duration(len(in))*time.Microsecond)
				alloc := heapAllocs() - a0
				if alloc <= limit {
					atomic.AddInt64(&NoisyAllocMeasurements, 1)
					return nil
				}
				if alloc < minAlloc {
					minAlloc = alloc
				}
				confirmed++
			}
			if confirmed < 2 {
				atomic.AddInt64(&NoisyAllocMeasurements, 1)
				return nil // the process never went quiet: no verdict on this input
			}
			return stat.Failf("unbounded-allocation", "%s (%s, block=%v): decoding %d bytes allocated %d bytes (> %d) in each of three runs and in two runs that followed an idle window; input head % x", c.Struct, c.Kind, c.Block, len(in), minAlloc, limit, clip(in))
		}
		return nil
	})
}

func leadingFields(b []byte) int {
	d := &rc.Dec{B: b}
	n := 0
	for n < 3 {
		ty, _, err := d.Head()
		if err != nil || ty == rc.WStructEnd {
			break
		}
		if err := d.Scan(ty, 0); err != nil {
			break
		}
		n++
	}
	return n
}

func (r *Registry) drawC05(rt *rapid.T) C05Case {
	key := r.drawKey(rt)
	c := C05Case{Struct: key, Block: rapid.IntRange(0, 3).Draw(rt, "block") == 0}
	c.Kind = rapid.SampledFrom([]string{"random", "mutant", "mutant", "mutant", "shape"}).Draw(rt, "kind")
	st := r.Schema.Structs[key]
	switch c.Kind {
	case "random":
		n := rapid.OneOf(rapid.IntRange(0, 64), rapid.IntRange(0, 600)).Draw(rt, "n")
		if rapid.Bool().Draw(rt, "uniform") {
			c.In = rapid.SliceOfN(rapid.Byte(), n, n).Draw(rt, "bytes")
		} else {
			// bytes biased towards plausible heads / small lengths
			c.In = rapid.SliceOfN(rapid.OneOf(rapid.Byte(), rapid.SampledFrom([]byte{0x0A, 0x0B, 0x09, 0x08, 0x0D, 0x06, 0x07, 0x0C, 0x00, 0x01, 0x02, 0x1A, 0x19, 0x18, 0x1D, 0xFF, 0x7F, 0x80})), n, n).Draw(rt, "bytes")
		}
	case "mutant":
		sv := rc.DrawStruct(rt, st, rc.Limits{MaxStr: 20, MaxElems: 4}, 0, "v")
		enc := rc.Enc{RecordSites: true, KeepDefaults: rapid.Bool().Draw(rt, "keep")}
		// legal but never produced by the framework's own writers: byte vectors in LIST form
		// (their count is then a length site of its own) and integers wider than necessary
		enc.ListForBytes = rapid.IntRange(0, 2).Draw(rt, "listForBytes") == 0
		enc.Widen = rapid.IntRange(0, 4).Draw(rt, "widen") == 0
		enc.StructBody(sv)
		b := append([]byte{}, enc.Buf...)
		nm := rapid.IntRange(1, 3).Draw(rt, "nmut")
		for i := 0; i < nm && len(b) > 0; i++ {
			switch rapid.IntRange(0, 4).Draw(rt, "mut") {
			case 0: // bit flip
				p := rapid.IntRange(0, len(b)-1).Draw(rt, "pos")
				b[p] ^= 1 << rapid.IntRange(0, 7).Draw(rt, "bit")
			case 1: // truncation
				b = b[:rapid.IntRange(0, len(b)-1).Draw(rt, "cut")]
			case 2: // length rewrite
				if len(enc.Sites) == 0 || i > 0 {
					continue
				}
				s := enc.Sites[rapid.IntRange(0, len(enc.Sites)-1).Draw(rt, "site")]
				if s.End > len(b) {
					continue
				}
				rem := len(b) - s.End
				v := rapid.SampledFrom([]int64{-1, 0x7fffffff, -0x80000000, int64(rem + 1), int64(rem - 1), int64(rem), 255, 256, 65536}).Draw(rt, "len")
				var repl []byte
				switch s.Kind {
				case 0:
					repl = []byte{byte(v)}
				case 1:
					repl = []byte{byte(v >> 24), byte(v >> 16), byte(v >> 8), byte(v)}
				default:
					var le rc.Enc
					le.Int(v, 0)
					repl = le.Buf
				}
				nb := append([]byte{}, b[:s.Off]...)
				nb = append(nb, repl...)
				b = append(nb, b[s.End:]...)
				c.NT = c.NT || v < 0 || v > int64(rem)
			case 3: // type nibble rewrite
				p := rapid.IntRange(0, len(b)-1).Draw(rt, "pos")
				b[p] = b[p]&0xF0 | byte(rapid.IntRange(0, 15).Draw(rt, "ty"))
			case 4: // splice a foreign well-formed field
				var fe rc.Enc
				rc.DrawField(rt, &fe, rapid.IntRange(0, 255).Draw(rt, "ftag"), 2, "foreign")
				p := rapid.IntRange(0, len(b)).Draw(rt, "pos")
				nb := append([]byte{}, b[:p]...)
				nb = append(nb, fe.Buf...)
				b = append(nb, b[p:]...)
			}
		}
		c.In = b
	case "shape":
		// a known member's tag (so that typed readers are driven) or an unknown low tag
		tag := 0
		if len(st.Fields) > 0 && rapid.Bool().Draw(rt, "known") {
			tag = st.Fields[rapid.IntRange(0, len(st.Fields)-1).Draw(rt, "fld")].Tag
		}
		var h rc.Enc
		depth := rapid.SampledFrom([]int{8, 100, 1000, 1023, 1024, 1025, 5000, 100000, 1000000}).Draw(rt, "depth")
		if stat.Tier() != "thorough" && depth > 100000 {
			depth = 100000
		}
		switch rapid.IntRange(0, 5).Draw(rt, "shape") {
		case 0: // nested StructBegin
			h.Head(rc.WStructBegin, tag)
			c.In, c.Unit, c.Rep = nil, []byte{0x0A}, depth
			c.In = h.Buf
			c.NT = true
		case 1: // LIST of LIST ... each with one element
			h.Head(rc.WList, tag)
			h.Int(1, 0)
			c.In, c.Unit, c.Rep = h.Buf, []byte{0x09, 0x00, 0x01}, depth
			c.NT = true
		case 2: // MAP of MAP: key zero, value map
			h.Head(rc.WMap, tag)
			h.Int(1, 0)
			c.In, c.Unit, c.Rep = h.Buf, []byte{0x0C, 0x18, 0x00, 0x01}, depth
			c.NT = true
		case 3: // giant announced count, tiny body
			ty := rapid.SampledFrom([]int{rc.WList, rc.WMap, rc.WSimpleList}).Draw(rt, "ty")
			h.Head(ty, tag)
			if ty == rc.WSimpleList {
				h.Head(rc.WByte, 0)
			}
			h.Int(rapid.SampledFrom([]int64{0x7fffffff, -1, -0x80000000, 0x7ffffff0, 1 << 20, 65536, -2, -3, -4, -5, -6, -7, -8}).Draw(rt, "count"), 0)
			h.Buf = append(h.Buf, rapid.SliceOfN(rapid.Byte(), 0, 6).Draw(rt, "body")...)
			c.In, c.NT = h.Buf, true
		case 4: // string4 with giant length
			h.Head(rc.WString4, tag)
			h.Buf = append(h.Buf, 0x7f, 0xff, 0xff, 0xff, 'x')
			c.In, c.NT = h.Buf, true
		case 5: // list with many more elements than any fixed array holds
			n := rapid.SampledFrom([]int{5, 17, 300}).Draw(rt, "n")
			h.Head(rc.WList, tag)
			h.Int(int64(n), 0)
			for i := 0; i < n; i++ {
				h.Head(rc.WZero, 0)
			}
			c.In, c.NT = h.Buf, true
		}
	}
	if !c.NT {
		c.NT = leadingFields(c.In) >= 3
	}
	return c
}

// Bombs are the pinned maximum-size nesting inputs (10 MB, the default maximum packet
// length): without a depth bound in the skip recursion they kill the process.
func (r *Registry) Bombs() map[string]C05Case {
	key := r.Keys[0]
	return map[string]C05Case{
		"struct-bomb-10MB":  {Struct: key, Kind: "shape", In: []byte{0x0A}, Unit: []byte{0x0A}, Rep: 10 << 20, NT: true},
		"list-bomb-10MB":    {Struct: key, Kind: "shape", In: []byte{0x09, 0x00, 0x01}, Unit: []byte{0x09, 0x00, 0x01}, Rep: (10 << 20) / 3, NT: true},
		"map-bomb-10MB":     {Struct: key, Kind: "shape", In: []byte{0x08, 0x00, 0x01}, Unit: []byte{0x0C, 0x18, 0x00, 0x01}, Rep: (10 << 20) / 4, NT: true},
		"struct-bomb-block": {Struct: key, Block: true, Kind: "shape", In: []byte{0x0A, 0xFA, 0xFF}, Unit: []byte{0x0A}, Rep: 10 << 20, NT: true},
	}
}

// PairBombs enumerates all ordered pairs of maximum-size hostile runs (each half of the
// 10 MiB packet budget): runs of struct begins, struct ends, zero fields, nested lists,
// nested maps, and lists / maps whose elements are bare struct-end heads. Pairs matter
// because one run can put a decoder's bookkeeping (depth counters, positions) into a state
// that only the second run exploits.
func (r *Registry) PairBombs() map[string]C05Case {
	half := 5 << 20
	count := func(ty int, n int) []byte {
		var e rc.Enc
		e.Head(ty, 0)
		e.Int(int64(n), 0)
		return e.Buf
	}
	runs := map[string]Seg{
		"structbegin":       {Unit: []byte{0x0A}, Rep: half},
		"structend":         {Unit: []byte{0x0B}, Rep: half},
		"zero":              {Unit: []byte{0x0C}, Rep: half},
		"listnest":          {Unit: []byte{0x09, 0x00, 0x01}, Rep: half / 3},
		"mapnest":           {Head: []byte{0x08, 0x00, 0x01}, Unit: []byte{0x0C, 0x18, 0x00, 0x01}, Rep: half / 4},
		"list-of-structend": {Head: count(rc.WList, half), Unit: []byte{0x0B}, Rep: half},
		"map-of-structend":  {Head: count(rc.WMap, half/2), Unit: []byte{0x0B}, Rep: half},
	}
	out := map[string]C05Case{}
	key := r.Keys[0]
	for an, a := range runs {
		for bn, b := range runs {
			out[an+"+"+bn] = C05Case{Struct: key, Kind: "pair-bomb", Segs: []Seg{a, b}, NT: true}
		}
	}
	return out
}

// RunC05 registers the in-process C05 sub-checks for one registry.
func (r *Registry) RunC05(t *testing.T, st *stat.Stats, quick, thorough int) {
	defer func() {
		if n := atomic.LoadInt64(&NoisyAllocMeasurements); n > 0 {
			st.Extra("allocation_excess_not_confirmed_after_idle_window", n)
		}
	}()
	if stat.ReplayPath() == "" {
		bombs := r.Bombs()
		for name, c := range bombs {
			st.Case([]byte(name+r.Name), true, func() any { return map[string]any{"pinned": name, "len": len(c.input())} }, r.Name, "pinned-bomb")
		}
		stat.Pinned(t, st, "c05-bombs-"+r.Name, bombs, r.RunC05Case)
		pairs := r.PairBombs()
		for name := range pairs {
			st.Case([]byte("pair"+name+r.Name), true, nil, r.Name, "pinned-pair-bomb")
		}
		stat.Pinned(t, st, "c05-pairbombs-"+r.Name, pairs, r.RunC05Case)
		negs := r.NegativeLengths()
		for name, c := range negs {
			st.Case([]byte("neg"+name+r.Name), true, func() any {
				return map[string]any{"pinned": name, "bytes": fmt.Sprintf("% x", c.In)}
			}, r.Name, "pinned-negative-length")
		}
		stat.Pinned(t, st, "c05-negative-lengths-"+r.Name, negs, r.RunC05Case)
		sites := r.HostileSites()
		for name, c := range sites {
			st.Case([]byte("site"+name+r.Name), true, func() any {
				return map[string]any{"pinned": name, "bytes": fmt.Sprintf("% x", clip(c.In))}
			}, r.Name, "pinned-hostile-site")
		}
		stat.Pinned(t, st, "c05-hostile-sites-"+r.Name, sites, r.RunC05Case)
	}
	stat.Check(t, st, "c05-"+r.Name, stat.N(quick, thorough), r.drawC05, func(c C05Case) *stat.Failure {
		in := c.input()
		fp := append([]byte(fmt.Sprintf("%s|%v|", c.Struct, c.Block)), in...)
		st.Case(fp, c.NT, func() any {
			return map[string]any{"struct": c.Struct, "kind": c.Kind, "block": c.Block, "len": len(in), "head": fmt.Sprintf("% x", clip(in))}
		}, r.Name, c.Kind)
		return r.RunC05Case(c)
	})
}
