// Package codecprops holds the codec property checks (C03, C04, C05 in-process part, C06)
// in a form that is parameterised by a registry of generated struct types, so that the
// same checks run over the framework's checked-in bindings (registry regfw) and over
// freshly generated user programs (registry regp).
package codecprops

import (
	"fmt"
	"reflect"
	"runtime/debug"
	"sort"

	"github.com/TarsCloud/TarsGo/tars/protocol/codec"
	"github.com/TarsCloud/TarsGo/tars/protocol/tup"
	"pgregory.net/rapid"

	rc "verif/harness/refcodec"
	"verif/harness/stat"
)

// Codec is what tars2go emits for every struct.
type Codec interface {
	ReadFrom(*codec.Reader) error
	ReadBlock(*codec.Reader, byte, bool) error
	WriteTo(*codec.Buffer) error
	WriteBlock(*codec.Buffer, byte) error
	ResetDefault()
}

// Custom adapts a hand-written decoder (e.g. tup.UniAttribute) to the struct-oriented
// checks: it decodes bytes into a generic value of the virtual struct it is registered for.
type Custom struct {
	Decode func(b []byte) (*rc.SV, error)
}

type Registry struct {
	Custom map[string]*Custom
	Name   string
	Schema *rc.Schema
	New    map[string]func() any
	Keys   []string // struct keys, sorted
}

func Load(name, schemaJSON string, newFns map[string]func() any) (*Registry, error) {
	s, err := rc.ParseSchema([]byte(schemaJSON))
	if err != nil {
		return nil, err
	}
	r := &Registry{Name: name, Schema: s, New: newFns}
	for k := range s.Structs {
		if k == TupKey {
			continue
		}
		if _, ok := newFns[k]; !ok {
			return nil, fmt.Errorf("registry has no constructor for %s", k)
		}
		r.Keys = append(r.Keys, k)
	}
	sort.Strings(r.Keys)
	return r, nil
}

func (r *Registry) newCodec(key string) (Codec, reflect.Value, error) {
	o := r.New[key]()
	c, ok := o.(Codec)
	if !ok {
		return nil, reflect.Value{}, fmt.Errorf("generated type for %s does not implement ReadFrom/ReadBlock/WriteTo/WriteBlock/ResetDefault", key)
	}
	return c, reflect.ValueOf(o).Elem(), nil
}

func (r *Registry) structType(key string) *rc.Type {
	return &rc.Type{Kind: rc.KStruct, Struct: r.Schema.Structs[key]}
}

// guard runs f converting a panic into a Failure.
func guard(sig string, f func() *stat.Failure) (out *stat.Failure) {
	defer func() {
		if p := recover(); p != nil {
			out = stat.Failf("panic", "%s: panic: %v\n%s", sig, p, trimStack(debug.Stack()))
		}
	}()
	return f()
}

func trimStack(b []byte) string {
	if len(b) > 1800 {
		b = b[:1800]
	}
	return string(b)
}

// encodeImpl: value -> generated struct -> WriteTo bytes.
func (r *Registry) encodeImpl(key string, sv *rc.SV, nilEmpty bool) ([]byte, error) {
	c, v, err := r.newCodec(key)
	if err != nil {
		return nil, err
	}
	if err := rc.ToGo(r.structType(key), sv, v, nilEmpty); err != nil {
		return nil, fmt.Errorf("bridge: %w", err)
	}
	buf := codec.NewBuffer()
	if err := c.WriteTo(buf); err != nil {
		return nil, fmt.Errorf("WriteTo: %w", err)
	}
	return append([]byte(nil), buf.ToBytes()...), nil
}

// decodeImpl: bytes -> fresh generated struct via ReadFrom -> value.
func (r *Registry) decodeImpl(key string, b []byte) (*rc.SV, error) {
	if cu := r.Custom[key]; cu != nil {
		return cu.Decode(b)
	}
	c, v, err := r.newCodec(key)
	if err != nil {
		return nil, err
	}
	if err := c.ReadFrom(codec.NewReader(b)); err != nil {
		return nil, err
	}
	g, err := rc.FromGo(r.structType(key), v)
	if err != nil {
		return nil, fmt.Errorf("bridge: %w", err)
	}
	return g.(*rc.SV), nil
}

// drawKey picks a struct of the registry.
func (r *Registry) drawKey(rt *rapid.T) string {
	return r.Keys[rapid.IntRange(0, len(r.Keys)-1).Draw(rt, "struct")]
}

// ValueCase is the serialisable form of "a value of struct S": the reference encoding
// with all members present (lossless), decoded again by the reference decoder on replay.
type ValueCase struct {
	Struct string `json:"struct"`
	Val    []byte `json:"val"`
}

func (r *Registry) drawValueCase(rt *rapid.T, lim rc.Limits) ValueCase {
	key := r.drawKey(rt)
	sv := rc.DrawStruct(rt, r.Schema.Structs[key], lim, 0, "v")
	return ValueCase{Struct: key, Val: keepAll(sv)}
}

func keepAll(sv *rc.SV) []byte {
	e := rc.Enc{KeepDefaults: true}
	e.StructBody(sv)
	return e.Buf
}

func (r *Registry) value(c ValueCase) (*rc.SV, *stat.Failure) {
	st := r.Schema.Structs[c.Struct]
	if st == nil {
		return nil, stat.Failf("harness-failure", "unknown struct %s", c.Struct)
	}
	sv, _, err := rc.DecodeStruct(st, c.Val)
	if err != nil {
		return nil, stat.Failf("harness-failure", "reference decoder rejects a reference encoding of %s: %v", c.Struct, err)
	}
	return sv, nil
}

func show(sv *rc.SV) any {
	return rc.ToJSONish(&rc.Type{Kind: rc.KStruct, Struct: sv.St}, sv)
}

// TupKey is the virtual struct standing for tup.UniAttribute's wire form:
// struct { 0 require map<string, vector<byte>> data; }.
const TupKey = "tup.UniAttribute"

// AddTup registers tup.UniAttribute.Decode as a custom decoder under TupKey.
func (r *Registry) AddTup() {
	bytesT := &rc.Type{Kind: rc.KVector, Elem: &rc.Type{Kind: rc.KI8}}
	mt := &rc.Type{Kind: rc.KMap, Key: &rc.Type{Kind: rc.KString}, Elem: bytesT}
	st := &rc.Struct{Module: "tup", Name: "UniAttribute", Fields: []*rc.Field{{Name: "data", GoName: "Data", Tag: 0, Require: true, Type: mt}}}
	r.Schema.Structs[TupKey] = st
	r.Keys = append(r.Keys, TupKey)
	sort.Strings(r.Keys)
	if r.Custom == nil {
		r.Custom = map[string]*Custom{}
	}
	r.Custom[TupKey] = &Custom{Decode: func(b []byte) (*rc.SV, error) {
		u := tup.NewUniAttribute()
		if err := u.Decode(codec.NewReader(b)); err != nil {
			return nil, err
		}
		var m []rc.KV
		for k, v := range u.VerifData() {
			l := make([]any, len(v))
			for i, x := range v {
				l[i] = int64(int8(x))
			}
			m = append(m, rc.KV{K: k, V: l})
		}
		if m == nil {
			m = []rc.KV{}
		}
		return &rc.SV{St: st, Fields: []any{m}}, nil
	}}
}
