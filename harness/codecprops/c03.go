package codecprops

import (
	"bytes"
	"fmt"
	"testing"

	"github.com/TarsCloud/TarsGo/tars/protocol/codec"
	"pgregory.net/rapid"

	rc "verif/harness/refcodec"
	"verif/harness/stat"
)

// C03Case: one value of one struct, how empty containers are presented to the encoder,
// and the outer tag used for the block form.
type C03Case struct {
	ValueCase
	NilEmpty bool `json:"nil_empty"`
	BlockTag int  `json:"block_tag"`
}

const C03Rule = "For every struct of the registry: values drawn by refcodec.DrawStruct (boundary-dense scalars, strings around 0/255/256/65536, containers 0..5, each optional member at its default with p=1/3), nil-vs-empty container presentation, outer block tag 0..255. Oracles: WriteTo->ReadFrom(fresh) equality; strict reference decoder (ascending unique declared tags, admissible wire types, required present, narrowest integers, exact consumption) maps the bytes to the same value; WriteBlock/ReadBlock under the tag; reverse differential: reference encodings (canonical, optional-at-default present, LIST form for vector<byte>, widened integers) are read by the generated ReadFrom to the same value. Non-trivial = value has >=1 non-empty container or nested struct and >=1 optional member away from default and >=1 at default. Distinct = distinct (struct, value, presentation)."

func (r *Registry) RunC03Case(c C03Case) *stat.Failure {
	sv, f := r.value(c.ValueCase)
	if f != nil {
		return f
	}
	t := r.structType(c.Struct)
	return guard("C03 "+c.Struct, func() *stat.Failure {
		// (1) implementation round trip
		b, err := r.encodeImpl(c.Struct, sv, c.NilEmpty)
		if err != nil {
			return stat.Failf("encode-error", "%s: %v; value %v", c.Struct, err, show(sv))
		}
		got, err := r.decodeImpl(c.Struct, b)
		if err != nil {
			return stat.Failf("roundtrip", "%s: ReadFrom rejects WriteTo's own bytes: %v; value %v", c.Struct, err, show(sv))
		}
		if d := rc.Diff(t, sv, got, c.Struct); d != "" {
			return stat.Failf("roundtrip", "%s: WriteTo->ReadFrom changes the value at %s", c.Struct, d)
		}
		// (2) strict reference decoder on the implementation's bytes
		dec := &rc.Dec{B: b, RejectUnknown: true, RejectNonNarrow: true}
		ref, err := dec.StructBody(t.Struct, 0, false)
		if err != nil {
			return stat.Failf("wire-conformance", "%s: bytes are not a conformant encoding: %v; bytes % x", c.Struct, err, clip(b))
		}
		if d := rc.Diff(t, sv, ref, c.Struct); d != "" {
			return stat.Failf("wire-value", "%s: reference decoder reads a different value from the bytes at %s; bytes % x", c.Struct, d, clip(b))
		}
		// (3) block form
		co, v, _ := r.newCodec(c.Struct)
		if err := rc.ToGo(t, sv, v, c.NilEmpty); err != nil {
			return stat.Failf("harness-failure", "bridge: %v", err)
		}
		buf := codec.NewBuffer()
		if err := co.WriteBlock(buf, byte(c.BlockTag)); err != nil {
			return stat.Failf("encode-error", "%s: WriteBlock: %v", c.Struct, err)
		}
		// a sentinel after the block: must be the next field
		_ = buf.WriteInt8(0x5A, 255)
		bb := append([]byte(nil), buf.ToBytes()...)
		bd := &rc.Dec{B: bb, RejectUnknown: true, RejectNonNarrow: true}
		hty, htag, herr := bd.Head()
		if herr != nil || hty != rc.WStructBegin || htag != c.BlockTag {
			return stat.Failf("block-form", "%s: WriteBlock(tag %d) does not start with a StructBegin head of that tag: % x", c.Struct, c.BlockTag, clip(bb))
		}
		bsv, err := bd.StructBody(t.Struct, 1, true)
		if err != nil {
			return stat.Failf("block-form", "%s: block body is not a conformant encoding terminated by StructEnd: %v; % x", c.Struct, err, clip(bb))
		}
		if d := rc.Diff(t, sv, bsv, c.Struct); d != "" {
			return stat.Failf("wire-value", "%s: reference decoder reads a different value from the block at %s", c.Struct, d)
		}
		var se rc.Enc
		se.Int(0x5A, 255)
		if !bytes.Equal(bb[bd.Pos:], se.Buf) {
			return stat.Failf("block-form", "%s: bytes after the struct end are not exactly the next field: % x", c.Struct, clip(bb[bd.Pos:]))
		}
		co2, v2, _ := r.newCodec(c.Struct)
		rd := codec.NewReader(bb)
		if err := co2.ReadBlock(rd, byte(c.BlockTag), true); err != nil {
			return stat.Failf("roundtrip", "%s: ReadBlock rejects WriteBlock's bytes: %v", c.Struct, err)
		}
		g2, err := rc.FromGo(t, v2)
		if err != nil {
			return stat.Failf("harness-failure", "bridge: %v", err)
		}
		if d := rc.Diff(t, sv, g2, c.Struct); d != "" {
			return stat.Failf("roundtrip", "%s: WriteBlock->ReadBlock changes the value at %s", c.Struct, d)
		}
		var s8 int8
		if err := rd.ReadInt8(&s8, 255, true); err != nil || s8 != 0x5A {
			return stat.Failf("position", "%s: after ReadBlock the reader is not positioned behind the block (sentinel %d, err %v)", c.Struct, s8, err)
		}
		// (4) reverse differential: reference encodings read by the implementation
		for name, enc := range map[string]rc.Enc{"canonical": {}, "keep-defaults": {KeepDefaults: true}, "list-for-bytes": {ListForBytes: true}, "simple-list-for-unsigned-bytes": {SimpleForU8: true}, "widened": {Widen: true, KeepDefaults: true}} {
			enc.StructBody(sv)
			got, err := r.decodeImpl(c.Struct, enc.Buf)
			if err != nil {
				return stat.Failf("reverse-"+name, "%s: ReadFrom rejects a legal %s reference encoding: %v; bytes % x", c.Struct, name, err, clip(enc.Buf))
			}
			if d := rc.Diff(t, sv, got, c.Struct); d != "" {
				return stat.Failf("reverse-"+name, "%s: ReadFrom reads the %s reference encoding differently at %s", c.Struct, name, d)
			}
		}
		return nil
	})
}

func clip(b []byte) []byte {
	if len(b) > 96 {
		return b[:96]
	}
	return b
}

func (r *Registry) recordValue(st *stat.Stats, c ValueCase, sv *rc.SV, extra string, classes ...string) {
	sh := rc.Shape(sv)
	nt := (sh.NonEmptyContainers > 0 || sh.NestedStructs > 0) && sh.OptAway > 0 && sh.OptAtDef > 0
	fp := append([]byte(c.Struct+"|"+extra+"|"), c.Val...)
	cls := append([]string{r.Name}, classes...)
	if sh.NonEmptyContainers > 0 {
		cls = append(cls, "has-nonempty-container")
	}
	if sh.NestedStructs > 0 {
		cls = append(cls, "has-nested-struct")
	}
	st.Case(fp, nt, func() any { return map[string]any{"struct": c.Struct, "value": show(sv), "variant": extra} }, cls...)
}

// RunC03 registers the C03 sub-checks for one registry.
func (r *Registry) RunC03(t *testing.T, st *stat.Stats, quick, thorough int) {
	stat.Check(t, st, "c03-"+r.Name, stat.N(quick, thorough), func(rt *rapid.T) C03Case {
		return C03Case{ValueCase: r.drawValueCase(rt, rc.DefaultLimits), NilEmpty: rapid.Bool().Draw(rt, "nilEmpty"), BlockTag: rapid.OneOf(rapid.IntRange(0, 255), rapid.SampledFrom([]int{0, 14, 15, 255})).Draw(rt, "blockTag")}
	}, func(c C03Case) *stat.Failure {
		if sv, f := r.value(c.ValueCase); f == nil {
			r.recordValue(st, c.ValueCase, sv, fmt.Sprintf("nil=%v,tag=%d", c.NilEmpty, c.BlockTag))
		}
		return r.RunC03Case(c)
	})
}
