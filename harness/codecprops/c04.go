package codecprops

import (
	"fmt"
	"os"
	"testing"

	"github.com/TarsCloud/TarsGo/tars/protocol/codec"
	"pgregory.net/rapid"

	rc "verif/harness/refcodec"
	"verif/harness/stat"
)

const C04Rule = "For every struct of the registry and generated value: (extras) well-formed unknown fields - tags not in the reader's schema, any of the 13 wire types, nested struct/list/map/simple-list to depth 5, STRING4, extended tags, payloads up to 70000 bytes - spliced wherever tag order admits at top level, inside nested struct members and inside struct-valued list/map elements (incl. after the last known member); (absent) one present optional member removed => its IDL default, one required member removed => error, at top level and (absent-nested) inside nested struct members, struct-valued list elements and map keys/values at any depth, with a bias to the last-written required member of a nested struct; (reuse) encoding A decoded into a struct, then encoding B into the same struct. Oracles: metamorphic decode(with extras)==decode(without) with identical success; exact skipping is observed through equality of all later members and a position sentinel for the block form. Non-trivial = >=1 unknown field of a compound wire type (MAP/LIST/STRUCT/SimpleList/STRING4 or extended tag) placed before a known member that is away from its default. Distinct = distinct (struct, mutated bytes)."

// C04Case
//
//	Kind "extras":  Mut = canonical encoding of the value with unknown fields spliced in
//	Kind "absent":  Mut = encoding (all members present) with member #Member removed
//	Kind "reuse":   Val decoded first, then Mut (a second value's canonical encoding)
type C04Case struct {
	ValueCase
	Kind   string `json:"kind"`
	Mut    []byte `json:"mut"`
	Member int    `json:"member"`
	// Kind "absent-nested": member site #Site (pre-order over all struct bodies of the
	// encoding) removed; ReqOmitted says whether that member is required
	Site       int    `json:"site,omitempty"`
	ReqOmitted bool   `json:"req_omitted,omitempty"`
	NExtras    int    `json:"n_extras"`
	Compound   bool   `json:"compound_before_known"`
	Detail     string `json:"detail"`
}

// KnownReuseKey is the signature of the known finding D-reuse (DESIGN.md section 4).
const KnownReuseKey = "reuse-stale-member-without-declared-default"

// The reuse defect (D-reuse) is repaired in the repository (see KNOWN_FINDINGS.txt, fixed:);
// VERIF_C04_EXCLUDE_REUSE=1 re-enables the exclusion for experiments on older trees.
func assumeReuseFixed() bool { return os.Getenv("VERIF_C04_EXCLUDE_REUSE") != "1" }

type extrasEnc struct {
	rt       *rapid.T
	e        rc.Enc
	n        int
	compound bool // a compound extra was placed before a present, away-from-default known member
}

func declared(st *rc.Struct, tag int) bool {
	for _, f := range st.Fields {
		if f.Tag == tag {
			return true
		}
	}
	return false
}

// maybeExtras inserts 0..2 unknown fields with tags in (lo, hi) that are not declared.
func (x *extrasEnc) maybeExtras(st *rc.Struct, lo, hi int, laterAway bool, depth int) {
	if hi-lo <= 1 {
		return
	}
	k := rapid.SampledFrom([]int{0, 0, 0, 1, 1, 2}).Draw(x.rt, "nextras")
	t := lo
	for i := 0; i < k; i++ {
		var free []int
		for c := t + 1; c < hi; c++ {
			if !declared(st, c) {
				free = append(free, c)
			}
		}
		if len(free) == 0 {
			return
		}
		if len(free) > 6 {
			// keep the choice small but include extended tags
			free = []int{free[0], free[len(free)/2], free[len(free)-1], free[len(free)/3]}
			var ok []int
			for _, c := range free {
				if c > t {
					ok = append(ok, c)
				}
			}
			free = ok
		}
		tag := rapid.SampledFrom(free).Draw(x.rt, "xtag")
		comp := rc.DrawField(x.rt, &x.e, tag, depth, "extra")
		x.n++
		if comp && laterAway {
			x.compound = true
		}
		t = tag
	}
}

func (x *extrasEnc) body(sv *rc.SV, depth int) {
	st := sv.St
	last := -1
	// which written members are away from default (for the non-trivial rule)
	written := make([]bool, len(st.Fields))
	for i, f := range st.Fields {
		written[i] = f.Require || !rc.OmittedWhenOptional(f, sv.Fields[i])
	}
	for i, f := range st.Fields {
		if !written[i] {
			continue
		}
		away := !rc.Equal(f.Type, sv.Fields[i], rc.FieldDefault(f))
		x.maybeExtras(st, last, f.Tag, away, depth)
		x.value(f.Type, sv.Fields[i], f.Tag, depth)
		last = f.Tag
	}
	x.maybeExtras(st, last, 256, false, depth)
}

func (x *extrasEnc) value(t *rc.Type, v any, tag int, depth int) {
	switch t.Kind {
	case rc.KStruct:
		x.e.Head(rc.WStructBegin, tag)
		x.body(v.(*rc.SV), depth+1)
		x.e.Head(rc.WStructEnd, 0)
	case rc.KVector, rc.KArray:
		if rc.IsSimpleList(t) || !containsStruct(t.Elem) {
			x.e.Value(t, v, tag)
			return
		}
		l := v.([]any)
		x.e.Head(rc.WList, tag)
		x.e.Int(int64(len(l)), 0)
		for _, el := range l {
			x.value(t.Elem, el, 0, depth+1)
		}
	case rc.KMap:
		if !containsStruct(t.Elem) {
			x.e.Value(t, v, tag)
			return
		}
		m := v.([]rc.KV)
		x.e.Head(rc.WMap, tag)
		x.e.Int(int64(len(m)), 0)
		for _, kv := range m {
			x.e.Value(t.Key, kv.K, 0)
			x.value(t.Elem, kv.V, 1, depth+1)
		}
	default:
		x.e.Value(t, v, tag)
	}
}

func containsStruct(t *rc.Type) bool {
	switch t.Kind {
	case rc.KStruct:
		return true
	case rc.KVector, rc.KArray, rc.KMap:
		return containsStruct(t.Elem)
	}
	return false
}

func (r *Registry) drawC04(rt *rapid.T) C04Case {
	kind := rapid.SampledFrom([]string{"extras", "extras", "extras", "absent", "absent-nested", "reuse"}).Draw(rt, "kind")
	vc := r.drawValueCase(rt, rc.Limits{MaxStr: 24, MaxElems: 4, BigStr: rapid.IntRange(0, 7).Draw(rt, "big") == 0})
	st := r.Schema.Structs[vc.Struct]
	sv, _, err := rc.DecodeStruct(st, vc.Val)
	if err != nil {
		panic(err)
	}
	c := C04Case{ValueCase: vc, Kind: kind}
	switch kind {
	case "extras":
		x := &extrasEnc{rt: rt}
		x.body(sv, 0)
		c.Mut, c.NExtras, c.Compound = x.e.Buf, x.n, x.compound
		c.Detail = fmt.Sprintf("%d unknown field(s) spliced in", x.n)
	case "absent":
		enc := rc.Enc{KeepDefaults: true}
		spans := enc.StructBodySpans(sv)
		if len(spans) == 0 {
			c.Kind, c.Mut, c.Detail = "extras", enc.Buf, "empty struct"
			return c
		}
		sp := spans[rapid.IntRange(0, len(spans)-1).Draw(rt, "member")]
		c.Member = sp.Index
		c.Mut = append(append([]byte{}, enc.Buf[:sp.Start]...), enc.Buf[sp.End:]...)
		c.Detail = fmt.Sprintf("member %s (tag %d, require=%v) removed", st.Fields[sp.Index].Name, st.Fields[sp.Index].Tag, st.Fields[sp.Index].Require)
	case "absent-nested":
		rec := rc.Enc{KeepDefaults: true, RecordMembers: true}
		rec.StructBody(sv)
		var nested, nestedReq, nestedReqLast []int
		for i, m := range rec.Members {
			if m.Depth >= 2 {
				nested = append(nested, i+1)
				if m.Field.Require {
					nestedReq = append(nestedReq, i+1)
					if m.Last {
						nestedReqLast = append(nestedReqLast, i+1)
					}
				}
			}
		}
		cand := nested
		switch w := rapid.IntRange(0, 3).Draw(rt, "which"); {
		case w == 0 && len(nestedReqLast) > 0:
			cand = nestedReqLast
		case w == 1 && len(nestedReq) > 0:
			cand = nestedReq
		}
		if len(cand) == 0 {
			for i := range rec.Members {
				cand = append(cand, i+1)
			}
		}
		if len(cand) == 0 {
			c.Kind, c.Mut, c.Detail = "extras", rec.Buf, "empty struct"
			return c
		}
		c.Site = cand[rapid.IntRange(0, len(cand)-1).Draw(rt, "site")]
		m := rec.Members[c.Site-1]
		c.ReqOmitted = m.Field.Require
		enc := rc.Enc{KeepDefaults: true, OmitSite: c.Site}
		enc.StructBody(sv)
		c.Mut = enc.Buf
		c.Detail = fmt.Sprintf("member %s (tag %d, require=%v, last written=%v) of a %s at nesting depth %d removed", m.Field.Name, m.Field.Tag, m.Field.Require, m.Last, m.Struct, m.Depth)
	case "reuse":
		b := rc.DrawStruct(rt, st, rc.Limits{MaxStr: 16, MaxElems: 3}, 0, "b")
		if !assumeReuseFixed() {
			// Known finding D-reuse: members without a declared default are not reset when a
			// struct is reused. Keep the first value (A) at the zero value on exactly those
			// members so that the search continues behind the finding.
			neutralise(sv)
			c.Val = keepAll(sv)
		}
		c.Mut = rc.EncodeStruct(b)
		c.Detail = "decode A then B into the same struct"
	}
	return c
}

// neutralise sets every member that has no declared default (recursively) to its zero
// value, and every byte vector to empty.
func neutralise(sv *rc.SV) {
	for i, f := range sv.St.Fields {
		switch {
		case f.Type.Kind == rc.KStruct:
			neutralise(sv.Fields[i].(*rc.SV))
		case !f.HasDefault:
			sv.Fields[i] = rc.Zero(f.Type)
		}
	}
}

func (r *Registry) RunC04Case(c C04Case) *stat.Failure {
	sv, f := r.value(c.ValueCase)
	if f != nil {
		return f
	}
	t := r.structType(c.Struct)
	return guard("C04 "+c.Struct, func() *stat.Failure {
		switch c.Kind {
		case "extras":
			// sanity: the mutated bytes must still be a conformant encoding of the same value
			// as far as the reference decoder is concerned (unknown tags skipped)
			ref, _, rerr := rc.DecodeStruct(t.Struct, c.Mut)
			if rerr != nil || rc.Diff(t, sv, ref, "") != "" {
				return stat.Failf("harness-failure", "reference decoder does not read the spliced encoding back to the value: %v", rerr)
			}
			got, err := r.decodeImpl(c.Struct, c.Mut)
			if err != nil {
				return stat.Failf("unknown-field-rejected", "%s: decoding fails once well-formed unknown fields are present (%s): %v; bytes % x", c.Struct, c.Detail, err, clip(c.Mut))
			}
			if d := rc.Diff(t, sv, got, c.Struct); d != "" {
				return stat.Failf("unknown-field-changes-value", "%s: unknown fields change the decoded value at %s (%s); bytes % x", c.Struct, d, c.Detail, clip(c.Mut))
			}
			// block form + sentinel: the reader must land exactly behind the block
			var e rc.Enc
			e.Head(rc.WStructBegin, 3)
			e.Buf = append(e.Buf, c.Mut...)
			e.Head(rc.WStructEnd, 0)
			e.Int(0x5A, 200)
			if r.Custom[c.Struct] == nil {
				co, v, _ := r.newCodec(c.Struct)
				rd := codec.NewReader(e.Buf)
				if err := co.ReadBlock(rd, 3, true); err != nil {
					return stat.Failf("unknown-field-rejected", "%s: ReadBlock fails with unknown fields present: %v", c.Struct, err)
				}
				g, _ := rc.FromGo(t, v)
				if d := rc.Diff(t, sv, g, c.Struct); d != "" {
					return stat.Failf("unknown-field-changes-value", "%s: (block) unknown fields change the decoded value at %s", c.Struct, d)
				}
				var s8 int8
				if err := rd.ReadInt8(&s8, 200, true); err != nil || s8 != 0x5A {
					return stat.Failf("skip-not-exact", "%s: after ReadBlock over unknown fields the next field is not where it should be (got %d, err %v)", c.Struct, s8, err)
				}
			}
		case "absent":
			fld := t.Struct.Fields[c.Member]
			got, err := r.decodeImpl(c.Struct, c.Mut)
			if fld.Require {
				if err == nil {
					return stat.Failf("absent-required-accepted", "%s: %s but decoding succeeded: %v", c.Struct, c.Detail, show(got))
				}
				return nil
			}
			if err != nil {
				return stat.Failf("absent-optional-rejected", "%s: %s and decoding fails: %v", c.Struct, c.Detail, err)
			}
			want := &rc.SV{St: sv.St, Fields: append([]any{}, sv.Fields...)}
			want.Fields[c.Member] = rc.FieldDefault(fld)
			if d := rc.Diff(t, want, got, c.Struct); d != "" {
				return stat.Failf("absent-optional-not-default", "%s: %s: expected its IDL default: %s", c.Struct, c.Detail, d)
			}
		case "absent-nested":
			ref, _, rerr := rc.DecodeStruct(t.Struct, c.Mut)
			if (rerr != nil) != c.ReqOmitted {
				return stat.Failf("harness-failure", "reference decoder on %s: err=%v but required-omitted=%v", c.Detail, rerr, c.ReqOmitted)
			}
			got, err := r.decodeImpl(c.Struct, c.Mut)
			if c.ReqOmitted {
				if err == nil {
					return stat.Failf("absent-required-accepted", "%s: %s but decoding succeeded: %v", c.Struct, c.Detail, show(got))
				}
				return nil
			}
			if err != nil {
				return stat.Failf("absent-optional-rejected", "%s: %s and decoding fails: %v", c.Struct, c.Detail, err)
			}
			if d := rc.Diff(t, ref, got, c.Struct); d != "" {
				return stat.Failf("absent-optional-not-default", "%s: %s: expected its IDL default: %s", c.Struct, c.Detail, d)
			}
		case "reuse":
			if r.Custom[c.Struct] != nil {
				return nil
			}
			want, _, rerr := rc.DecodeStruct(t.Struct, c.Mut)
			if rerr != nil {
				return stat.Failf("harness-failure", "reference decoder rejects B: %v", rerr)
			}
			co, v, _ := r.newCodec(c.Struct)
			if err := co.ReadFrom(codec.NewReader(rc.EncodeStruct(sv))); err != nil {
				return stat.Failf("harness-failure", "decoding A failed: %v", err)
			}
			if err := co.ReadFrom(codec.NewReader(c.Mut)); err != nil {
				return stat.Failf("reuse-error", "%s: decoding B into a reused struct fails: %v", c.Struct, err)
			}
			g, _ := rc.FromGo(t, v)
			if d := rc.Diff(t, want, g, c.Struct); d != "" {
				return stat.Failf("reuse-stale", "%s: decoding into a reused struct differs from decoding into a fresh one: %s", c.Struct, d)
			}
		}
		return nil
	})
}

// PinnedReuse demonstrates the known finding on the first struct that has an optional
// member without a declared default: returns a description when it still reproduces.
func (r *Registry) PinnedReuse() (string, bool) {
	for _, key := range r.Keys {
		if r.Custom[key] != nil {
			continue
		}
		st := r.Schema.Structs[key]
		for i, f := range st.Fields {
			if f.Require || f.HasDefault || f.Type.Kind == rc.KStruct || f.Type.Kind == rc.KArray {
				continue
			}
			a := rc.DefaultStruct(st)
			switch f.Type.Kind {
			case rc.KString:
				a.Fields[i] = "stale"
			case rc.KVector:
				if rc.IsInt(f.Type.Elem.Kind) {
					a.Fields[i] = []any{int64(1), int64(2)}
				} else {
					continue
				}
			case rc.KMap:
				continue
			case rc.KBool:
				a.Fields[i] = true
			case rc.KF32:
				a.Fields[i] = float32(9)
			case rc.KF64:
				a.Fields[i] = float64(9)
			default:
				a.Fields[i] = int64(9)
			}
			b := rc.DefaultStruct(st)
			ok := true
			for j, g := range st.Fields {
				if g.Require {
					// required members need valid content in both
					_ = j
				}
			}
			if !ok {
				continue
			}
			co, v, _ := r.newCodec(key)
			if err := co.ReadFrom(codec.NewReader(rc.EncodeStruct(a))); err != nil {
				continue
			}
			if err := co.ReadFrom(codec.NewReader(rc.EncodeStruct(b))); err != nil {
				continue
			}
			g, _ := rc.FromGo(r.structType(key), v)
			if d := rc.Diff(r.structType(key), b, g, key); d != "" {
				return fmt.Sprintf("%s: member %s (optional, no declared default) keeps the value of the previous decode when the struct is reused: %s", key, f.Name, d), true
			}
			return "", false
		}
	}
	return "", false
}

// RunC04 registers the C04 sub-checks for one registry.
func (r *Registry) RunC04(t *testing.T, st *stat.Stats, quick, thorough int) {
	stat.Check(t, st, "c04-"+r.Name, stat.N(quick, thorough), r.drawC04, func(c C04Case) *stat.Failure {
		fp := append([]byte(c.Struct+"|"+c.Kind+"|"), c.Mut...)
		cls := []string{r.Name, c.Kind}
		if c.Kind == "extras" && c.NExtras > 0 {
			cls = append(cls, "extras-nonzero")
		}
		if c.Kind == "reuse" && !assumeReuseFixed() {
			st.Excluded("reuse: first value neutralised on members without declared default (known finding " + KnownReuseKey + ")")
		}
		st.Case(fp, c.Kind == "extras" && c.Compound, func() any {
			return map[string]any{"struct": c.Struct, "kind": c.Kind, "detail": c.Detail, "bytes": fmt.Sprintf("% x", clip(c.Mut))}
		}, cls...)
		return r.RunC04Case(c)
	})
	if stat.ReplayPath() == "" {
		// pinned regression for the repaired defect D-reuse
		if msg, still := r.PinnedReuse(); still {
			f := stat.Failf("reuse-stale", "%s", msg)
			st.Report("c04-pinned-reuse-"+r.Name, f, map[string]string{"registry": r.Name})
			t.Errorf("%v", f)
		}
	}
}
