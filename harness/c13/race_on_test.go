//go:build race

package c13

import "runtime"

// raceEnabled / raceErrors give the concurrent sub-check access to the race detector's
// report counter (the same counter the testing package consults), so that a data race in
// the code under test becomes a recorded VERIF-FAIL with the case that provoked it.
const raceEnabled = true

func raceErrors() int { return runtime.RaceErrors() }
