//go:build !race

package c13

const raceEnabled = false

func raceErrors() int { return 0 }
