// C13 — Endpoint selection: members only, strict rotation, weight-proportional.
//
// Sub-checks (unit 1, TestC13, plain build):
//
//	machine     rapid-drawn state machine per selector kind (rr / random / modhash /
//	            conhash(ketama|default)) x {weighted, unweighted}: a universe of 1..12 distinct
//	            hosts (+ optional same-host/other-port duplicates), a weight profile, a
//	            weight-type mode and a sequence of Refresh/Add/Remove/Select ops, all part of
//	            the JSON case. Model = ordered host set (first endpoint offered for a host wins,
//	            selectors identify endpoints by Host). Oracles:
//	              panic          no operation panics, whatever the weights
//	              membership     every endpoint returned by Select is one offered for a host of
//	                             the current model set
//	              spurious-error Select fails only if no endpoint is eligible (empty set; weighted
//	                             consistent hash: no member with weight > 0)
//	              rotation       round robin without an effective static-weight list (unweighted,
//	                             or weighted with mixed weight types, or all-equal positive static
//	                             weights): every window of N consecutive selections between two
//	                             update calls over an N-host set is a permutation of the set
//	              weight-cycle   round robin, all members static with W_i>0: every window of
//	                             L=sum(c_i) consecutive selections between two update calls
//	                             contains host i exactly c_i = max(1, floor(W_i*R/W_max)) times,
//	                             R = min(100, max(10, floor(W_max/W_min))) (computed here)
//	weightlist  selector.BuildStaticWeightList on drawn all-static weight vectors: no panic,
//	            indexes in range; all W_i>0: length sum(c_i) and index i exactly c_i times
//	pinned      known-defect probes (see below)
//
// Unit 2 (TestC13Race, built with -race):
//
//	concurrent  2..8 selector goroutines against 1..2 updater goroutines on one selector. Every
//	            goroutine keeps a private log with monotonic-clock intervals (no shared
//	            bookkeeping that would add happens-before edges). Afterwards: a returned endpoint
//	            must be exactly one of the universe and its host must not be *certainly absent*
//	            during the call, i.e. it is a violation only if every operation that could have
//	            inserted the host and started before the Select ended was followed by a removing
//	            operation that started after the insert finished and finished before the Select
//	            started (membership w.r.t. the union of the sets live during the call); errors
//	            are violations if a pinned (never removed, eligible) host exists; no panic; the
//	            race detector's report counter must not move (sig data-race).
//
// Known defects on the pinned tree (confirmed with standalone programs, see the report):
//
//	static-weight-max-zero-panic      weighted rr/random/modhash, all members static, max weight
//	                                  == 0  -> integer divide by zero in BuildStaticWeightList
//	static-weight-negative-sum-panic  same, sum of weights < -100 -> makeslice: cap out of range
//	random-select-data-race           random.Select shares one *rand.Rand under a read lock
//
// Switch: with VERIF_C13_ASSUME_FIXED unset, each defect is probed first (pinned cases; the race
// in a child process of the race-built test binary). While a probe still reproduces, st.Known(key)
// is emitted and exactly that input class is excluded from generation (update ops that would
// lead a weighted rr/random/modhash selector into such a member set are skipped and counted with
// st.Excluded; random runs with a single selecting goroutine). If a probe no longer reproduces,
// or VERIF_C13_ASSUME_FIXED is set, nothing is excluded.
//
// Sensitivity (scratch worktree = pinned tree + the three proposed fixes, quick tier, seeds 0..3;
// every mutant below made ./check C13 exit 1; in brackets the failure signatures seen):
//
//	M1   rr Select idx%n -> idx%(n+1)                              [panic]
//	M1b  rr Select idx%n -> idx%(n-1) for n>1                      [rotation]
//	M2   Remove without delete(mapValues): rr                      [rotation / weight-cycle / spurious-error]
//	     ... modhash, random, conhash                              [spurious-error]
//	M3   BuildStaticWeightList "/ maxWeight" -> "/ minWeight"      [weight-cycle (machine+weightlist), panic]
//	M4   modhash Remove without reBuildLocked (stale weight list)  [panic]
//	M5   rr addLocked without the already-exists check             [rotation / weight-cycle, concurrent membership]
//	M6   conhash Remove deletes only 3 of the 4 ketama points      [membership (machine+concurrent)]
//	M7   random Remove leaves the element in the list              [membership]
//	M8   conhash Refresh does not reset hashRing                   [membership, only after a later Remove]
//	M9   rr Select without RLock                                   [concurrent panic / data-race]
//	M10  weight range cap 100 removed                              [weight-cycle]
//	M11  endpoints whose scaled weight is 0 dropped from the cycle [weight-cycle]
//	M14  modhash Select hash%n -> hash%(n+1)                       [panic]
//	M16  modhash Remove under RLock instead of Lock                [data-race / concurrent panic]
//	M17  rr Refresh does not reset the endpoint list               [membership]
//	reverts of the three fixes (= pinned tree with VERIF_C13_ASSUME_FIXED=1): [panic, panic, data-race],
//	     found by the generators as well as by the pinned cases
//	not killed, equivalent w.r.t. the property: conhash weight()>0 -> >=0 (a zero-weight endpoint
//	     gets one ring round; the property only says when an error is *allowed*)
package c13

import (
	"bytes"
	"fmt"
	"os"
	"os/exec"
	"sort"
	"strings"
	"sync"
	"sync/atomic"
	"testing"
	"time"

	"github.com/TarsCloud/TarsGo/tars/selector"
	"github.com/TarsCloud/TarsGo/tars/selector/consistenthash"
	"github.com/TarsCloud/TarsGo/tars/selector/modhash"
	"github.com/TarsCloud/TarsGo/tars/selector/random"
	"github.com/TarsCloud/TarsGo/tars/selector/roundrobin"
	"github.com/TarsCloud/TarsGo/tars/util/endpoint"
	"pgregory.net/rapid"

	"verif/harness/stat"
)

var st = stat.New("C13",
	"machine: (selector kind in rr/random/modhash/conhash, weighted?, universe of 1..12 distinct hosts + optional same-host/other-port duplicates, weight profile over {negative,0,1,small,100,1000,1e6,mixed}, weight types all-static/mixed/loop, sequence of 1..24 Refresh/Add/Remove/Select ops) drawn by rapid and executed against a host-set model; weightlist: all-static weight vectors of 1..12 endpoints, including weights up to 2^31-1 whose product with the scaling range exceeds 32 bits; concurrent (race build): 2..8 selecting vs 1..2 updating goroutines with private interval logs. Non-trivial = history with >=1 successful Remove followed by a Select and, for weighted selectors, >=3 distinct positive weights in the universe (weightlist: >=3 distinct positive weights). Distinct = distinct case JSON.",
	"endpoints are identified by Host (Endpoint.HashKey); Remove is called with the endpoint that was installed for that host (same weight), as tars/endpointmanager.go does; same-host duplicates carry the weight of the first endpoint of that host",
	"weights are limited to |w| <= 1e6 (1e6 for consistent hash only on the first host of the universe): BuildStaticWeightList pre-allocates sum(weights) ints and weighted consistent hash creates w/4*4 ring points",
	"rotation / weight-cycle windows are only taken between two update calls (successful or not)",
	"concurrent variant: the monotonic clock orders non-overlapping operations of different goroutines; the number of selections per concurrent case depends on the schedule, verdicts do not",
	"with VERIF_C13_ASSUME_FIXED unset and a known-defect probe still reproducing, the defective input class is excluded (see 'excluded'): update ops leading a weighted rr/random/modhash selector into an all-static member set with max weight 0 or weight sum < -100; >=2 goroutines selecting concurrently on random")

var assumeFixed = os.Getenv("VERIF_C13_ASSUME_FIXED") != ""

// Exclusion switches, decided by the probes at the start of the test functions.
var (
	exclMaxZero  bool // static-weight-max-zero-panic still reproduces
	exclNegSum   bool // static-weight-negative-sum-panic still reproduces
	exclRandRace bool // random-select-data-race still reproduces
)

const (
	keyMaxZero  = "static-weight-max-zero-panic"
	keyNegSum   = "static-weight-negative-sum-panic"
	keyRandRace = "random-select-data-race"
)

// ------------------------------------------------------------------------ case types

type EP struct {
	Host string `json:"h"`
	Port int32  `json:"p"`
	W    int32  `json:"w"`
	WT   int32  `json:"wt"`
}

// endpoint builds the endpoint the way endpoint.Tars2endpoint does.
func (e EP) endpoint() endpoint.Endpoint {
	x := endpoint.Endpoint{Host: e.Host, Port: e.Port, Timeout: 3000, Istcp: endpoint.TCP,
		Weight: e.W, WeightType: e.WT, Proto: "tcp"}
	x.Key = x.String()
	return x
}

type Op struct {
	K    string `json:"k"`             // refresh | add | remove | select
	Idx  []int  `json:"idx,omitempty"` // universe indexes (refresh: list; add/remove: one)
	N    int    `json:"n,omitempty"`   // select: number of selections ...
	Cyc  int    `json:"cyc,omitempty"` // ... plus Cyc full cycles of the current model
	Code uint32 `json:"code,omitempty"`
	Step uint32 `json:"step,omitempty"`
}

type MCase struct {
	Kind     string `json:"kind"` // rr | random | modhash | conhash
	Weighted bool   `json:"weighted"`
	Ketama   bool   `json:"ketama,omitempty"`
	Profile  string `json:"profile"`
	U        []EP   `json:"u"`
	Ops      []Op   `json:"ops"`
	NoExcl   bool   `json:"noexcl,omitempty"` // pinned probes: run even if the class is excluded
}

type hmsg struct {
	code uint32
	ht   selector.HashType
}

func (m hmsg) HashCode() uint32            { return m.code }
func (m hmsg) HashType() selector.HashType { return m.ht }
func (m hmsg) IsHash() bool                { return true }

func newSelector(kind string, weighted, ketama bool) selector.Selector {
	switch kind {
	case "rr":
		return roundrobin.New(weighted)
	case "random":
		return random.New(weighted)
	case "modhash":
		return modhash.New(weighted)
	case "conhash":
		if ketama {
			return consistenthash.New(weighted, consistenthash.KetamaHash)
		}
		return consistenthash.New(weighted, consistenthash.DefaultHash)
	}
	panic("kind " + kind)
}

func msgFor(kind string, code uint32) selector.Message {
	if kind == "conhash" {
		return hmsg{code, selector.ConsistentHash}
	}
	return hmsg{code, selector.ModHash}
}

// ------------------------------------------------------------------------ model

type model struct {
	hosts []string        // insertion order
	ep    map[string]EP   // endpoint installed for the host (first one offered)
	cand  map[string][]EP // every endpoint offered for the host while it was a member
}

func newModel() *model { return &model{ep: map[string]EP{}, cand: map[string][]EP{}} }

func (m *model) clone() *model {
	n := newModel()
	n.hosts = append(n.hosts, m.hosts...)
	for k, v := range m.ep {
		n.ep[k] = v
	}
	for k, v := range m.cand {
		n.cand[k] = append([]EP(nil), v...)
	}
	return n
}

func (m *model) has(h string) bool { _, ok := m.ep[h]; return ok }

func (m *model) add(e EP) {
	if m.has(e.Host) {
		m.cand[e.Host] = append(m.cand[e.Host], e)
		return
	}
	m.hosts = append(m.hosts, e.Host)
	m.ep[e.Host] = e
	m.cand[e.Host] = []EP{e}
}

func (m *model) remove(h string) bool {
	if !m.has(h) {
		return false
	}
	delete(m.ep, h)
	delete(m.cand, h)
	for i, x := range m.hosts {
		if x == h {
			m.hosts = append(m.hosts[:i:i], m.hosts[i+1:]...)
			break
		}
	}
	return true
}

func (m *model) allStatic() bool {
	for _, h := range m.hosts {
		if m.ep[h].WT != int32(endpoint.EStaticWeight) {
			return false
		}
	}
	return true
}

// eligible counts the endpoints a Select may legitimately be served from.
func (m *model) eligible(kind string, weighted bool) int {
	if kind == "conhash" && weighted {
		n := 0
		for _, h := range m.hosts {
			if m.ep[h].W > 0 {
				n++
			}
		}
		return n
	}
	return len(m.hosts)
}

// defectClass says whether installing this member set into a weighted rr/random/modhash
// selector hits one of the two known BuildStaticWeightList defects.
func (m *model) defectClass(kind string, weighted bool) string {
	if kind == "conhash" || !weighted || len(m.hosts) == 0 || !m.allStatic() {
		return ""
	}
	ws := make([]int32, 0, len(m.hosts))
	for _, h := range m.hosts {
		ws = append(ws, m.ep[h].W)
	}
	return weightDefect(ws)
}

func weightDefect(ws []int32) string {
	if len(ws) == 0 {
		return ""
	}
	sum, max := int64(0), int64(ws[0])
	for _, w := range ws {
		sum += int64(w)
		if int64(w) > max {
			max = int64(w)
		}
	}
	if sum+100 < 0 {
		return keyNegSum
	}
	if max == 0 {
		return keyMaxZero
	}
	return ""
}

func excluded(class string) bool {
	switch class {
	case keyMaxZero:
		return exclMaxZero
	case keyNegSum:
		return exclNegSum
	}
	return false
}

// expectedCounts is the independent statement of the property's weight formula.
func expectedCounts(ws []int32) (c []int, total int) {
	min, max := int64(ws[0]), int64(ws[0])
	for _, w := range ws {
		if int64(w) < min {
			min = int64(w)
		}
		if int64(w) > max {
			max = int64(w)
		}
	}
	r := max / min
	if r < 10 {
		r = 10
	}
	if r > 100 {
		r = 100
	}
	for _, w := range ws {
		k := int64(w) * r / max
		if k < 1 {
			k = 1
		}
		c = append(c, int(k))
		total += int(k)
	}
	return c, total
}

// seqOracle describes what the sequence of round-robin selections must look like for the
// current model set.
type seqOracle struct {
	rotation bool           // windows of n are permutations
	n        int            // set size
	cycle    bool           // windows of total have exactly want[h] occurrences
	want     map[string]int // expected multiplicities
	total    int
}

func (m *model) oracleFor(kind string, weighted bool) seqOracle {
	o := seqOracle{n: len(m.hosts)}
	if kind != "rr" || len(m.hosts) == 0 {
		return o
	}
	if !weighted || !m.allStatic() {
		o.rotation = true
		return o
	}
	ws := make([]int32, 0, len(m.hosts))
	for _, h := range m.hosts {
		w := m.ep[h].W
		if w <= 0 {
			return o // the property defines weighted traffic for W_i > 0 only
		}
		ws = append(ws, w)
	}
	c, total := expectedCounts(ws)
	o.cycle, o.total, o.want = true, total, map[string]int{}
	equal := true
	for i, h := range m.hosts {
		o.want[h] = c[i]
		if c[i] != c[0] {
			equal = false
		}
	}
	eqW := true
	for _, w := range ws {
		if w != ws[0] {
			eqW = false
		}
	}
	o.rotation = equal && eqW
	return o
}

// cycleLen is the number of selections one "full cycle" of the current set takes.
func (m *model) cycleLen(kind string, weighted bool) int {
	o := m.oracleFor(kind, weighted)
	if o.cycle {
		return o.total
	}
	return len(m.hosts)
}

// ------------------------------------------------------------------------ generators

var kinds = []string{"rr", "rr", "random", "modhash", "conhash"}

var profiles = []string{"distinct", "distinct", "distinct", "spread", "spread", "spread", "equal", "equal",
	"huge", "withzero", "withzero", "withneg", "withneg", "allzero", "nonpos", "allneg", "mixed", "mixed"}

var pools = map[string][]int32{
	"equal":    {1, 3, 5, 100, 1000},
	"spread":   {1, 2, 3, 5, 7, 10, 20, 50, 99, 100, 101, 250, 1000, 4000},
	"huge":     {1, 3, 100, 1000, 1000000},
	"withzero": {0, 0, 1, 2, 5, 10, 100},
	"withneg":  {-1000, -50, -3, -1, 1, 2, 5, 10, 100},
	"allzero":  {0},
	"nonpos":   {0, -1, -3, -50},
	"allneg":   {-1000, -50, -3, -1},
	"mixed":    {-1000, -50, -1, 0, 0, 1, 2, 3, 10, 100, 1000000},
	// weights whose product with the scaling range (10 or 100) does not fit 32 bits
	"giant": {300000, 2000000, 21474836, 21474837, 30000000, 200000000, 214748365, 400000000, 1073741824, 2147483647},
}

func hostName(i int) string { return fmt.Sprintf("10.13.0.%d", i+1) }

func drawUniverse(rt *rapid.T, nh int, kind string, weighted bool) (string, []EP) {
	profile := rapid.SampledFrom(profiles).Draw(rt, "profile")
	wtMode := rapid.SampledFrom([]string{"static", "static", "static", "static", "static", "mixed", "mixed", "loop"}).Draw(rt, "wtmode")
	var eq int32
	if profile == "equal" {
		eq = rapid.SampledFrom(pools["equal"]).Draw(rt, "w")
	}
	u := make([]EP, nh)
	for i := range u {
		var w int32
		switch profile {
		case "equal":
			w = eq
		case "distinct":
			w = int32(rapid.IntRange(1, 30).Draw(rt, "w"))
		default:
			w = rapid.SampledFrom(pools[profile]).Draw(rt, "w")
		}
		// a weight of 1e6 means 1e6 ring points under weighted consistent hashing: allow it
		// on the first host only to keep one case under ~0.5 s
		if kind == "conhash" && weighted && w == 1000000 && i > 0 {
			w = 4000
		}
		wt := int32(endpoint.EStaticWeight)
		switch wtMode {
		case "mixed":
			if rapid.Bool().Draw(rt, "loopwt") {
				wt = int32(endpoint.ELoop)
			}
		case "loop":
			wt = int32(endpoint.ELoop)
		}
		u[i] = EP{Host: hostName(i), Port: int32(10000 + i), W: w, WT: wt}
	}
	return profile + "/" + wtMode, u
}

func drawMachine(rt *rapid.T) MCase {
	c := MCase{}
	c.Kind = rapid.SampledFrom(kinds).Draw(rt, "kind")
	c.Weighted = rapid.Bool().Draw(rt, "weighted")
	if c.Kind == "conhash" {
		c.Ketama = rapid.SampledFrom([]bool{true, true, true, false}).Draw(rt, "ketama")
	}
	nh := rapid.IntRange(1, 12).Draw(rt, "hosts")
	c.Profile, c.U = drawUniverse(rt, nh, c.Kind, c.Weighted)
	ndup := rapid.SampledFrom([]int{0, 0, 0, 1, 2}).Draw(rt, "dups")
	for d := 0; d < ndup; d++ {
		of := rapid.IntRange(0, nh-1).Draw(rt, "dupof")
		c.U = append(c.U, EP{Host: c.U[of].Host, Port: c.U[of].Port + 100 + int32(d), W: c.U[of].W, WT: c.U[of].WT})
	}
	all := make([]int, len(c.U))
	for i := range all {
		all[i] = i
	}
	nops := rapid.IntRange(1, 24).Draw(rt, "nops")
	for i := 0; i < nops; i++ {
		var k string
		if i == 0 {
			k = rapid.SampledFrom([]string{"refresh", "refresh", "refresh", "refresh", "add", "select"}).Draw(rt, "op")
		} else {
			k = rapid.SampledFrom([]string{"select", "select", "select", "select", "add", "add", "remove", "remove", "remove", "refresh"}).Draw(rt, "op")
		}
		op := Op{K: k}
		switch k {
		case "refresh":
			perm := rapid.Permutation(all).Draw(rt, "perm")
			n := len(perm)
			switch rapid.SampledFrom([]string{"all", "all", "all", "most", "most", "some", "some", "none"}).Draw(rt, "size") {
			case "most":
				n -= rapid.IntRange(1, 2).Draw(rt, "drop")
			case "some":
				n = rapid.IntRange(1, len(perm)).Draw(rt, "keep")
			case "none":
				n = 0
			}
			if n < 0 {
				n = 0
			}
			op.Idx = append([]int{}, perm[:n]...)
		case "add", "remove":
			op.Idx = []int{rapid.IntRange(0, len(c.U)-1).Draw(rt, "idx")}
		case "select":
			op.N = rapid.IntRange(1, 30).Draw(rt, "n")
			op.Cyc = rapid.SampledFrom([]int{0, 0, 1, 2, 2}).Draw(rt, "cyc")
			op.Code = rapid.Uint32().Draw(rt, "code")
			op.Step = rapid.SampledFrom([]uint32{1, 1, 0, 7, 0x9E3779B1, 0x9E3779B1}).Draw(rt, "step")
		}
		c.Ops = append(c.Ops, op)
	}
	return c
}

// ------------------------------------------------------------------------ machine run

func safely(fn func()) (pv any) {
	defer func() { pv = recover() }()
	fn()
	return nil
}

func sameEP(a endpoint.Endpoint, e EP) bool { return a == e.endpoint() }

const maxSelectsPerCase = 9000

func runMachine(c MCase) *stat.Failure {
	sel := newSelector(c.Kind, c.Weighted, c.Ketama)
	m := newModel()
	var hist []string // hosts selected since the last update call
	counts := map[string]int{}
	orc := m.oracleFor(c.Kind, c.Weighted)
	cls := map[string]bool{}
	removed, removeThenSelect := false, false
	selects := 0
	resetSeq := func() {
		hist = hist[:0]
		counts = map[string]int{}
		orc = m.oracleFor(c.Kind, c.Weighted)
	}
	var fail *stat.Failure

ops:
	for oi, op := range c.Ops {
		switch op.K {
		case "refresh", "add", "remove":
			post := m.clone()
			switch op.K {
			case "refresh":
				post = newModel()
				for _, i := range op.Idx {
					post.add(c.U[i])
				}
			case "add":
				post.add(c.U[op.Idx[0]])
			case "remove":
				post.remove(c.U[op.Idx[0]].Host)
			}
			if d := post.defectClass(c.Kind, c.Weighted); d != "" {
				if excluded(d) && !c.NoExcl {
					st.Excluded(d)
					cls["excluded-op"] = true
					continue
				}
				cls["behind:"+d] = true
			}
			var pv any
			switch op.K {
			case "refresh":
				eps := make([]endpoint.Endpoint, 0, len(op.Idx))
				for _, i := range op.Idx {
					eps = append(eps, c.U[i].endpoint())
				}
				pv = safely(func() { sel.Refresh(eps) })
				if len(post.hosts) < len(op.Idx) {
					cls["dup-host-in-refresh"] = true
				}
				if len(op.Idx) == 0 {
					cls["refresh-empty"] = true
				}
			case "add":
				e := c.U[op.Idx[0]]
				pv = safely(func() { _ = sel.Add(e.endpoint()) })
				if m.has(e.Host) {
					cls["add-existing-host"] = true
					if m.ep[e.Host] != e {
						cls["dup-host-add"] = true
					}
				}
			case "remove":
				e := c.U[op.Idx[0]]
				// real callers remove the endpoint they installed for the host
				if inst, ok := m.ep[e.Host]; ok {
					if inst != e {
						cls["remove-via-dup-host"] = true
					}
					e = EP{Host: e.Host, Port: e.Port, W: inst.W, WT: inst.WT}
					removed = true
				} else {
					cls["remove-nonmember"] = true
				}
				pv = safely(func() { _ = sel.Remove(e.endpoint()) })
			}
			if pv != nil {
				fail = stat.Failf("panic", "%s weighted=%v: op %d (%s %v) panicked: %v; member set before the op: %s", c.Kind, c.Weighted, oi, op.K, op.Idx, pv, m.describe())
				break ops
			}
			m = post
			resetSeq()
		case "select":
			n := op.N + op.Cyc*m.cycleLen(c.Kind, c.Weighted)
			if selects+n > maxSelectsPerCase {
				n = maxSelectsPerCase - selects
			}
			if removed && n > 0 {
				removeThenSelect = true
			}
			elig := m.eligible(c.Kind, c.Weighted)
			for j := 0; j < n; j++ {
				selects++
				code := op.Code + uint32(j)*op.Step
				var got endpoint.Endpoint
				var err error
				if pv := safely(func() { got, err = sel.Select(msgFor(c.Kind, code)) }); pv != nil {
					fail = stat.Failf("panic", "%s weighted=%v: op %d Select #%d (code %d) panicked: %v; member set: %s", c.Kind, c.Weighted, oi, j, code, pv, m.describe())
					break ops
				}
				if err != nil {
					if elig > 0 {
						fail = stat.Failf("spurious-error", "%s weighted=%v: op %d Select #%d (code %d) failed with %q although %d endpoint(s) are eligible: %s", c.Kind, c.Weighted, oi, j, code, err, elig, m.describe())
						break ops
					}
					if len(m.hosts) == 0 {
						cls["error-on-empty-set"] = true
					} else {
						cls["error-no-positive-weight"] = true
					}
					continue
				}
				ok := false
				for _, cand := range m.cand[got.Host] {
					if sameEP(got, cand) {
						ok = true
						break
					}
				}
				if !ok {
					fail = stat.Failf("membership", "%s weighted=%v: op %d Select #%d (code %d) returned %q (port %d weight %d) which is not an endpoint of the current set %s", c.Kind, c.Weighted, oi, j, code, got.Host, got.Port, got.Weight, m.describe())
					break ops
				}
				if c.Kind != "rr" {
					continue
				}
				hist = append(hist, got.Host)
				if orc.rotation && len(hist) >= orc.n {
					w := hist[len(hist)-orc.n:]
					seen := map[string]bool{}
					for _, h := range w {
						seen[h] = true
					}
					if len(seen) != orc.n {
						fail = stat.Failf("rotation", "rr weighted=%v: op %d: %d consecutive selections over the unchanged %d-host set %s are not a permutation: %v", c.Weighted, oi, orc.n, orc.n, m.describe(), w)
						break ops
					}
					cls["oracle:rotation-window"] = true
				}
				if orc.cycle {
					counts[got.Host]++
					if len(hist) > orc.total {
						counts[hist[len(hist)-orc.total-1]]--
					}
					if len(hist) >= orc.total {
						for _, h := range m.hosts {
							if counts[h] != orc.want[h] {
								fail = stat.Failf("weight-cycle", "rr weighted: op %d: window of one full cycle (%d selections ending at #%d) over %s contains %s %d times, want max(1,floor(W*R/Wmax)) = %d; window counts %v want %v", oi, orc.total, j, m.describe(), h, counts[h], orc.want[h], countsOf(counts, m.hosts), countsOf(orc.want, m.hosts))
								break ops
							}
						}
						cls["oracle:weight-cycle-window"] = true
					}
				}
			}
		}
	}

	// ---- labels
	classes := []string{"machine", c.Kind + map[bool]string{true: ":weighted", false: ":unweighted"}[c.Weighted], "profile:" + c.Profile}
	if c.Kind == "conhash" {
		classes = append(classes, "conhash:"+map[bool]string{true: "ketama", false: "default"}[c.Ketama])
	}
	dp := distinctPositive(c.U)
	if dp >= 3 {
		classes = append(classes, "weights:>=3-distinct-positive")
		if c.Weighted {
			classes = append(classes, "weighted+>=3-distinct-positive")
		}
	}
	var zero, neg, big, ratio bool
	minPos, maxPos := int32(0), int32(0)
	for _, e := range c.U {
		zero = zero || e.W == 0
		neg = neg || e.W < 0
		big = big || e.W >= 1000000
		if e.W > 0 && (minPos == 0 || e.W < minPos) {
			minPos = e.W
		}
		if e.W > maxPos {
			maxPos = e.W
		}
	}
	ratio = minPos > 0 && maxPos/minPos > 100
	for k, v := range map[string]bool{"weights:zero": zero, "weights:negative": neg, "weights:1e6": big, "weights:ratio>100": ratio,
		"remove-then-select": removeThenSelect, "weighted+zero-or-negative": c.Weighted && (zero || neg)} {
		if v {
			classes = append(classes, k)
		}
	}
	if len(c.U) > distinctHosts(c.U) {
		classes = append(classes, "dup-host-in-universe")
	}
	classes = append(classes, "hosts:"+bucket(distinctHosts(c.U)), "ops:"+bucket(len(c.Ops)))
	for k := range cls {
		classes = append(classes, k)
	}
	sort.Strings(classes)
	nontrivial := removeThenSelect && (!c.Weighted || dp >= 3)
	st.CaseJSON(c, nontrivial, classes...)
	st.Class("selections", int64(selects))
	return fail
}

func (m *model) describe() string {
	var b strings.Builder
	b.WriteString("{")
	for i, h := range m.hosts {
		if i > 0 {
			b.WriteString(" ")
		}
		fmt.Fprintf(&b, "%s(w=%d,wt=%d)", h, m.ep[h].W, m.ep[h].WT)
	}
	b.WriteString("}")
	return b.String()
}

func countsOf(c map[string]int, hosts []string) []int {
	out := make([]int, len(hosts))
	for i, h := range hosts {
		out[i] = c[h]
	}
	return out
}

func bucket(n int) string {
	switch {
	case n <= 1:
		return "1"
	case n <= 3:
		return "2-3"
	case n <= 7:
		return "4-7"
	case n <= 12:
		return "8-12"
	}
	return ">12"
}

func distinctPositive(u []EP) int {
	s := map[int32]bool{}
	for _, e := range u {
		if e.W > 0 {
			s[e.W] = true
		}
	}
	return len(s)
}

func distinctHosts(u []EP) int {
	s := map[string]bool{}
	for _, e := range u {
		s[e.Host] = true
	}
	return len(s)
}

// ------------------------------------------------------------------------ weightlist

type WCase struct {
	W      []int32 `json:"w"`
	NoExcl bool    `json:"noexcl,omitempty"`
}

func drawWeightList(rt *rapid.T) WCase {
	n := rapid.IntRange(1, 12).Draw(rt, "n")
	profile := rapid.SampledFrom([]string{"distinct", "distinct", "spread", "spread", "spread", "equal", "huge", "withzero", "withneg", "nonpos", "allneg", "mixed", "wide", "giant", "giant"}).Draw(rt, "profile")
	c := WCase{}
	var eq int32
	if profile == "equal" {
		eq = int32(rapid.IntRange(1, 2000).Draw(rt, "w"))
	}
	for i := 0; i < n; i++ {
		var w int32
		switch profile {
		case "equal":
			w = eq
		case "distinct":
			w = int32(rapid.IntRange(1, 30).Draw(rt, "w"))
		case "wide":
			w = int32(rapid.IntRange(1, 100000).Draw(rt, "w"))
		default:
			w = rapid.SampledFrom(pools[profile]).Draw(rt, "w")
		}
		c.W = append(c.W, w)
	}
	return c
}

func runWeightList(c WCase) *stat.Failure {
	if d := weightDefect(c.W); d != "" && excluded(d) && !c.NoExcl {
		st.Excluded(d)
		return nil
	}
	eps := make([]endpoint.Endpoint, len(c.W))
	allPos := true
	for i, w := range c.W {
		eps[i] = EP{Host: hostName(i), Port: int32(10000 + i), W: w, WT: int32(endpoint.EStaticWeight)}.endpoint()
		if w <= 0 {
			allPos = false
		}
	}
	dp := map[int32]bool{}
	for _, w := range c.W {
		if w > 0 {
			dp[w] = true
		}
	}
	cl := "weightlist:all-positive"
	if !allPos {
		cl = "weightlist:zero-or-negative"
	}
	st.CaseJSON(c, len(dp) >= 3, "weightlist", cl)
	var list []int
	if pv := safely(func() { list = selector.BuildStaticWeightList(eps) }); pv != nil {
		return stat.Failf("panic", "BuildStaticWeightList(static weights %v) panicked: %v", c.W, pv)
	}
	got := make([]int, len(c.W))
	for _, idx := range list {
		if idx < 0 || idx >= len(c.W) {
			return stat.Failf("membership", "BuildStaticWeightList(static weights %v) contains index %d outside [0,%d)", c.W, idx, len(c.W))
		}
		got[idx]++
	}
	if !allPos {
		return nil
	}
	want, total := expectedCounts(c.W)
	if len(list) != total {
		return stat.Failf("weight-cycle", "BuildStaticWeightList(static weights %v): cycle length %d, want %d; multiplicities %v want %v", c.W, len(list), total, got, want)
	}
	for i := range want {
		if got[i] != want[i] {
			return stat.Failf("weight-cycle", "BuildStaticWeightList(static weights %v): endpoint %d appears %d times, want max(1,floor(W*R/Wmax)) = %d; multiplicities %v want %v", c.W, i, got[i], want[i], got, want)
		}
	}
	return nil
}

// ------------------------------------------------------------------------ probes / pinned

func st1(w int32, i int) EP {
	return EP{Host: hostName(i), Port: int32(10000 + i), W: w, WT: int32(endpoint.EStaticWeight)}
}

var pinnedMachine = map[string]MCase{
	keyMaxZero + "/refresh": {Kind: "rr", Weighted: true, Profile: "pinned", NoExcl: true,
		U: []EP{st1(0, 0), st1(-3, 1)}, Ops: []Op{{K: "refresh", Idx: []int{0, 1}}, {K: "select", N: 4}}},
	keyMaxZero + "/remove": {Kind: "modhash", Weighted: true, Profile: "pinned", NoExcl: true,
		U: []EP{st1(0, 0), st1(5, 1)}, Ops: []Op{{K: "refresh", Idx: []int{0, 1}}, {K: "select", N: 4, Step: 1}, {K: "remove", Idx: []int{1}}, {K: "select", N: 4, Step: 1}}},
	keyMaxZero + "/add": {Kind: "random", Weighted: true, Profile: "pinned", NoExcl: true,
		U: []EP{st1(0, 0)}, Ops: []Op{{K: "add", Idx: []int{0}}, {K: "select", N: 4}}},
	keyNegSum + "/refresh": {Kind: "random", Weighted: true, Profile: "pinned", NoExcl: true,
		U: []EP{st1(-200, 0), st1(50, 1)}, Ops: []Op{{K: "refresh", Idx: []int{0, 1}}, {K: "select", N: 4}}},
	keyNegSum + "/allneg": {Kind: "rr", Weighted: true, Profile: "pinned", NoExcl: true,
		U: []EP{st1(-1000, 0)}, Ops: []Op{{K: "refresh", Idx: []int{0}}, {K: "select", N: 4}}},
}

// probeWeightDefects runs the pinned cases of the two BuildStaticWeightList defects. A
// reproducing defect is announced with st.Known and switches the exclusion of its class on
// (unless VERIF_C13_ASSUME_FIXED is set: then the pinned cases are ordinary failing cases).
func probeWeightDefects(t *testing.T, announce bool) {
	names := make([]string, 0, len(pinnedMachine))
	for k := range pinnedMachine {
		names = append(names, k)
	}
	sort.Strings(names)
	known := map[string]string{}
	for _, name := range names {
		c := pinnedMachine[name]
		key := name[:strings.Index(name, "/")]
		f := runMachine(c)
		if f == nil {
			continue
		}
		if assumeFixed || f.Sig != "panic" {
			if announce {
				st.Report("pinned", f, c)
				t.Errorf("pinned %s: %v", name, f)
			}
			continue
		}
		if _, ok := known[key]; !ok {
			known[key] = f.Msg
		}
	}
	if m, ok := known[keyMaxZero]; ok && !announce {
		exclMaxZero = true
	} else if ok {
		exclMaxZero = true
		st.Known(keyMaxZero, "weighted rr/random/modhash selector whose members are all static-weighted with max weight 0 panics (integer divide by zero in selector.BuildStaticWeightList): "+m)
	}
	if m, ok := known[keyNegSum]; ok && !announce {
		exclNegSum = true
	} else if ok {
		exclNegSum = true
		st.Known(keyNegSum, "weighted rr/random/modhash selector whose static weights sum to less than -100 panics (makeslice: cap out of range in selector.BuildStaticWeightList): "+m)
	}
}

// announce: Known lines and pinned failures are printed once (shard 0), never in replay mode;
// the exclusion switches are set in every process.
func announce() bool {
	shard, _ := stat.Shard()
	return shard == 0 && stat.ReplayPath() == ""
}

func TestC13(t *testing.T) {
	defer st.Emit()
	// in replay mode the probes only set the exclusion switches (so that a stored case is
	// executed exactly as it was when it failed)
	probeWeightDefects(t, announce())
	stat.Check(t, st, "machine", stat.N(4000, 20000), drawMachine, runMachine)
	stat.Check(t, st, "weightlist", stat.N(4000, 20000), drawWeightList, runWeightList)
	stat.Check(t, st, "rotation-concurrent", stat.N(40, 600), drawRotation, func(c RotCase) *stat.Failure {
		st.CaseJSON(c, c.Goroutines >= 4, fmt.Sprintf("concurrent-rotation-weighted-%v", c.Weighted))
		return runRotation(c)
	})
}

// ------------------------------------------------------------------------ concurrent variant

type SelPlan struct {
	Min  int    `json:"min"` // at least this many selections; continues until the updaters are done
	Code uint32 `json:"code"`
	Step uint32 `json:"step"`
}

type CCase struct {
	Kind     string    `json:"kind"`
	Weighted bool      `json:"weighted"`
	Ketama   bool      `json:"ketama,omitempty"`
	Profile  string    `json:"profile"`
	U        []EP      `json:"u"`      // distinct hosts
	Pinned   int       `json:"pinned"` // U[:Pinned] are members all the time
	Init     []int     `json:"init"`   // initial Refresh (contains 0..Pinned-1)
	Upd      [][]Op    `json:"upd"`    // per updater: refresh/add/remove ops
	Sel      []SelPlan `json:"sel"`
	NoExcl   bool      `json:"noexcl,omitempty"`
}

var concPools = map[string][]int32{
	"positive": {1, 2, 3, 5, 10, 20, 50, 100, 250},
	"equal":    {100},
	"signed":   {-3, -1, 0, 0, 1, 2, 5, 10, 100},
	"nonpos":   {0, -1, -3},
}

func drawConcurrent(rt *rapid.T) CCase {
	c := CCase{}
	c.Kind = rapid.SampledFrom([]string{"rr", "random", "modhash", "conhash"}).Draw(rt, "kind")
	c.Weighted = rapid.Bool().Draw(rt, "weighted")
	if c.Kind == "conhash" {
		c.Ketama = rapid.SampledFrom([]bool{true, true, true, false}).Draw(rt, "ketama")
	}
	nh := rapid.IntRange(2, 12).Draw(rt, "hosts")
	c.Profile = rapid.SampledFrom([]string{"positive", "positive", "positive", "equal", "signed", "signed", "nonpos"}).Draw(rt, "profile")
	wtMode := rapid.SampledFrom([]string{"static", "static", "static", "mixed"}).Draw(rt, "wtmode")
	for i := 0; i < nh; i++ {
		wt := int32(endpoint.EStaticWeight)
		if wtMode == "mixed" && rapid.Bool().Draw(rt, "loopwt") {
			wt = int32(endpoint.ELoop)
		}
		c.U = append(c.U, EP{Host: hostName(i), Port: int32(10000 + i), W: rapid.SampledFrom(concPools[c.Profile]).Draw(rt, "w"), WT: wt})
	}
	c.Profile += "/" + wtMode
	maxPin := 3
	if maxPin > nh-1 {
		maxPin = nh - 1
	}
	c.Pinned = rapid.IntRange(0, maxPin).Draw(rt, "pinned")
	free := make([]int, 0, nh)
	for i := c.Pinned; i < nh; i++ {
		free = append(free, i)
	}
	subset := func(label string) []int {
		perm := rapid.Permutation(free).Draw(rt, label)
		k := rapid.IntRange(0, len(perm)).Draw(rt, label+"n")
		s := append([]int{}, perm[:k]...)
		for i := 0; i < c.Pinned; i++ {
			s = append(s, i)
		}
		// pinned hosts go to drawn positions so that list order varies too
		if len(s) > 1 {
			rot := rapid.IntRange(0, len(s)-1).Draw(rt, label+"rot")
			s = append(s[rot:], s[:rot]...)
		}
		return s
	}
	c.Init = subset("init")
	nupd := rapid.IntRange(1, 2).Draw(rt, "updaters")
	for u := 0; u < nupd; u++ {
		nops := rapid.IntRange(10, 200).Draw(rt, "nops")
		var ops []Op
		for i := 0; i < nops; i++ {
			k := rapid.SampledFrom([]string{"add", "add", "add", "remove", "remove", "remove", "refresh"}).Draw(rt, "op")
			switch k {
			case "refresh":
				ops = append(ops, Op{K: k, Idx: subset("refresh")})
			default:
				ops = append(ops, Op{K: k, Idx: []int{rapid.SampledFrom(free).Draw(rt, "idx")}})
			}
		}
		c.Upd = append(c.Upd, ops)
	}
	nsel := rapid.IntRange(2, 8).Draw(rt, "selectors")
	for s := 0; s < nsel; s++ {
		c.Sel = append(c.Sel, SelPlan{Min: rapid.IntRange(50, 400).Draw(rt, "min"), Code: rapid.Uint32().Draw(rt, "code"),
			Step: rapid.SampledFrom([]uint32{1, 7, 0x9E3779B1, 0x9E3779B1}).Draw(rt, "step")})
	}
	return c
}

// concDefectPossible: could some member set reachable in this concurrent case (any subset of
// the universe containing the pinned hosts) hit a known BuildStaticWeightList defect?
func concDefectPossible(c CCase) string {
	if c.Kind == "conhash" || !c.Weighted {
		return ""
	}
	for i := 0; i < c.Pinned; i++ {
		if c.U[i].WT != int32(endpoint.EStaticWeight) {
			return "" // a non-static member is always present
		}
	}
	var negSum, pinnedPos int64
	zero, pinnedAllNonPos := false, true
	for i, e := range c.U {
		if e.WT != int32(endpoint.EStaticWeight) {
			continue
		}
		if e.W < 0 {
			negSum += int64(e.W)
		}
		if e.W == 0 {
			zero = true
		}
		if i < c.Pinned && e.W > 0 {
			pinnedPos += int64(e.W)
			pinnedAllNonPos = false
		}
	}
	if negSum+pinnedPos+100 < 0 && exclNegSum {
		return keyNegSum
	}
	if pinnedAllNonPos && zero && exclMaxZero {
		return keyMaxZero
	}
	return ""
}

type updRec struct{ t0, t1 int64 }
type selRec struct {
	s, e int64
	idx  int32 // universe index, -1 error, -2 foreign endpoint
}

const maxSelectsPerGoroutine = 40000

func runConcurrent(c CCase) *stat.Failure {
	if !c.NoExcl {
		if d := concDefectPossible(c); d != "" {
			st.Excluded(d + "(concurrent: reachable member set)")
			return nil
		}
		if exclRandRace && c.Kind == "random" && len(c.Sel) > 1 {
			st.Excluded(keyRandRace + "(concurrent: random limited to 1 selecting goroutine)")
			c.Sel = c.Sel[:1]
		}
	}
	eps := make([]endpoint.Endpoint, len(c.U))
	byHost := map[string]int{}
	for i, e := range c.U {
		eps[i] = e.endpoint()
		byHost[e.Host] = i
	}
	list := func(idx []int) []endpoint.Endpoint {
		out := make([]endpoint.Endpoint, 0, len(idx))
		for _, i := range idx {
			out = append(out, eps[i])
		}
		return out
	}
	sel := newSelector(c.Kind, c.Weighted, c.Ketama)
	if pv := safely(func() { sel.Refresh(list(c.Init)) }); pv != nil {
		return stat.Failf("panic", "%s weighted=%v: initial Refresh panicked: %v", c.Kind, c.Weighted, pv)
	}
	racesBefore := raceErrors()
	base := time.Now()
	now := func() int64 { return int64(time.Since(base)) }
	start := make(chan struct{})
	var wg sync.WaitGroup
	var updatersLeft int32 = int32(len(c.Upd))
	updLogs := make([][]updRec, len(c.Upd))
	selLogs := make([][]selRec, len(c.Sel))
	panics := make([]string, len(c.Upd)+len(c.Sel))
	foreign := make([]string, len(c.Sel))
	for u := range c.Upd {
		u := u
		updLogs[u] = make([]updRec, 0, len(c.Upd[u]))
		wg.Add(1)
		go func() {
			defer wg.Done()
			defer atomic.AddInt32(&updatersLeft, -1)
			<-start
			for i, op := range c.Upd[u] {
				var arg []endpoint.Endpoint
				if op.K == "refresh" {
					arg = list(op.Idx)
				}
				t0 := now()
				pv := safely(func() {
					switch op.K {
					case "refresh":
						sel.Refresh(arg)
					case "add":
						_ = sel.Add(eps[op.Idx[0]])
					case "remove":
						_ = sel.Remove(eps[op.Idx[0]])
					}
				})
				t1 := now()
				updLogs[u] = append(updLogs[u], updRec{t0, t1})
				if pv != nil {
					panics[u] = fmt.Sprintf("updater %d op %d (%s %v) panicked: %v", u, i, op.K, op.Idx, pv)
					return
				}
			}
		}()
	}
	for s := range c.Sel {
		s := s
		selLogs[s] = make([]selRec, 0, 4096)
		wg.Add(1)
		go func() {
			defer wg.Done()
			<-start
			plan := c.Sel[s]
			for j := 0; j < maxSelectsPerGoroutine; j++ {
				if j >= plan.Min && atomic.LoadInt32(&updatersLeft) == 0 {
					return
				}
				msg := msgFor(c.Kind, plan.Code+uint32(j)*plan.Step)
				var got endpoint.Endpoint
				var err error
				t0 := now()
				pv := safely(func() { got, err = sel.Select(msg) })
				t1 := now()
				if pv != nil {
					panics[len(c.Upd)+s] = fmt.Sprintf("selector %d Select #%d panicked: %v", s, j, pv)
					return
				}
				r := selRec{s: t0, e: t1, idx: -1}
				if err == nil {
					if i, ok := byHost[got.Host]; ok && got == eps[i] {
						r.idx = int32(i)
					} else {
						r.idx = -2
						if foreign[s] == "" {
							foreign[s] = fmt.Sprintf("%+v", got)
						}
					}
				}
				selLogs[s] = append(selLogs[s], r)
			}
		}()
	}
	close(start)
	wg.Wait()

	// ---- record
	classes := []string{"concurrent", "conc:" + c.Kind + map[bool]string{true: ":weighted", false: ":unweighted"}[c.Weighted],
		fmt.Sprintf("conc:updaters=%d", len(c.Upd)), "conc:profile:" + c.Profile}
	if c.Pinned > 0 {
		classes = append(classes, "conc:pinned-hosts")
	}
	nsel, overlapping := 0, 0
	var updEnd int64
	for _, l := range updLogs {
		if len(l) > 0 && l[len(l)-1].t1 > updEnd {
			updEnd = l[len(l)-1].t1
		}
	}
	for _, l := range selLogs {
		nsel += len(l)
		for _, r := range l {
			if r.s <= updEnd {
				overlapping++
			}
		}
	}
	if overlapping > 0 {
		classes = append(classes, "conc:selects-during-updates")
	}
	dp := distinctPositive(c.U)
	hasRemove := false
	for _, ops := range c.Upd {
		for _, op := range ops {
			if op.K == "remove" {
				hasRemove = true
			}
		}
	}
	st.CaseJSON(c, hasRemove && overlapping > 0 && (!c.Weighted || dp >= 3), classes...)
	st.Class("conc-selections", int64(nsel))
	st.Class("conc-selections-during-updates", int64(overlapping))

	// ---- oracles
	for _, p := range panics {
		if p != "" {
			return stat.Failf("panic", "%s weighted=%v concurrent: %s", c.Kind, c.Weighted, p)
		}
	}
	if n := raceErrors(); n > racesBefore {
		return stat.Failf("data-race", "%s weighted=%v: the race detector reported %d data race(s) while %d goroutine(s) selected and %d updated concurrently (report on stderr)", c.Kind, c.Weighted, n-racesBefore, len(c.Sel), len(c.Upd))
	}
	for s, f := range foreign {
		if f != "" {
			return stat.Failf("membership", "%s weighted=%v concurrent: selector %d got an endpoint that is not in the universe: %s", c.Kind, c.Weighted, s, f)
		}
	}
	// per host: operations that may insert / certainly remove it
	type iv struct{ t0, t1 int64 }
	inserts := make([][]iv, len(c.U))
	removes := make([][]iv, len(c.U))
	inInit := map[int]bool{}
	for _, i := range c.Init {
		inInit[i] = true
		inserts[i] = append(inserts[i], iv{-2, -2})
	}
	for u, ops := range c.Upd {
		for i, rec := range updLogs[u] {
			op := ops[i]
			x := iv{rec.t0, rec.t1}
			switch op.K {
			case "add":
				inserts[op.Idx[0]] = append(inserts[op.Idx[0]], x)
			case "remove":
				removes[op.Idx[0]] = append(removes[op.Idx[0]], x)
			case "refresh":
				in := map[int]bool{}
				for _, h := range op.Idx {
					in[h] = true
					inserts[h] = append(inserts[h], x)
				}
				for h := range c.U {
					if !in[h] {
						removes[h] = append(removes[h], x)
					}
				}
			}
		}
		// an updater that stopped after a panic is reported above; ops never run have no record
	}
	// killT[h][k]: earliest end of a removing op that started after insert k finished
	const inf = int64(1) << 62
	killT := make([][]int64, len(c.U))
	for h := range c.U {
		killT[h] = make([]int64, len(inserts[h]))
		for k, in := range inserts[h] {
			killT[h][k] = inf
			for _, rm := range removes[h] {
				if rm.t0 > in.t1 && rm.t1 < killT[h][k] {
					killT[h][k] = rm.t1
				}
			}
		}
	}
	pinnedEligible := false
	for i := 0; i < c.Pinned; i++ {
		if !(c.Kind == "conhash" && c.Weighted) || c.U[i].W > 0 {
			pinnedEligible = true
		}
	}
	for s, l := range selLogs {
		for j, r := range l {
			switch {
			case r.idx == -1:
				if pinnedEligible {
					return stat.Failf("spurious-error", "%s weighted=%v concurrent: selector %d Select #%d failed although %d pinned host(s) are members (and eligible) all the time", c.Kind, c.Weighted, s, j, c.Pinned)
				}
			case r.idx >= 0:
				h := int(r.idx)
				if h < c.Pinned {
					continue
				}
				absent := true
				for k, in := range inserts[h] {
					if in.t0 <= r.e && !(killT[h][k] < r.s) {
						absent = false
						break
					}
				}
				if absent {
					return stat.Failf("membership", "%s weighted=%v concurrent: selector %d Select #%d [%d,%d]ns returned %s, which was in none of the sets live during the call (every insert of it that started before the call ended was followed by a completed remove/refresh before the call started)", c.Kind, c.Weighted, s, j, r.s, r.e, c.U[h].Host)
				}
			}
		}
	}
	return nil
}

// probeRandomRace re-executes this (race-built) test binary with a child test that makes four
// goroutines select on one random selector; the child's race report is the probe result.
func probeRandomRace(t *testing.T, announce bool) {
	if assumeFixed || !raceEnabled {
		return
	}
	cmd := exec.Command(os.Args[0], "-test.run", "^TestC13RaceChild$", "-test.count=1", "-test.timeout", "120s")
	env := []string{"VERIF_C13_CHILD=random-race"}
	for _, kv := range os.Environ() {
		if !strings.HasPrefix(kv, "VERIF_REPLAY=") && !strings.HasPrefix(kv, "GORACE=") {
			env = append(env, kv)
		}
	}
	cmd.Env = env
	out, _ := cmd.CombinedOutput()
	if bytes.Contains(out, []byte("WARNING: DATA RACE")) && bytes.Contains(out, []byte("selector/random.(*Random).Select")) {
		exclRandRace = true
		where := ""
		for _, line := range strings.Split(string(out), "\n") {
			if strings.Contains(line, "math/rand.(*rngSource)") {
				where = strings.TrimSpace(line)
				break
			}
		}
		if !announce {
			return
		}
		st.Known(keyRandRace, "concurrent random.(*Random).Select calls race on the shared *rand.Rand (read lock only); race detector: conflicting accesses in "+where+" called from selector/random.(*Random).Select")
	} else if !bytes.Contains(out, []byte("PASS")) {
		fmt.Printf("\nVERIF-INFRA random-race probe child failed without a race report: %s\n", strings.ReplaceAll(tail(string(out), 600), "\n", " | "))
	}
}

func tail(s string, n int) string {
	if len(s) > n {
		return s[len(s)-n:]
	}
	return s
}

func TestC13RaceChild(t *testing.T) {
	if os.Getenv("VERIF_C13_CHILD") != "random-race" {
		t.Skip("helper of TestC13Race")
	}
	r := random.New(false)
	r.Refresh([]endpoint.Endpoint{st1(1, 0).endpoint(), st1(1, 1).endpoint(), st1(1, 2).endpoint()})
	var wg sync.WaitGroup
	for g := 0; g < 4; g++ {
		wg.Add(1)
		go func() {
			defer wg.Done()
			for i := 0; i < 3000; i++ {
				func() {
					defer func() { _ = recover() }()
					_, _ = r.Select(hmsg{})
				}()
			}
		}()
	}
	wg.Wait()
}

func TestC13Race(t *testing.T) {
	defer st.Emit()
	// the weight probes decide the exclusions of the concurrent generator as well; their
	// Known lines are emitted by unit 1 only
	quietProbeWeightDefects()
	probeRandomRace(t, announce())
	stat.Check(t, st, "concurrent", stat.N(400, 1500), drawConcurrent, runConcurrent)
}

func quietProbeWeightDefects() {
	if assumeFixed {
		return
	}
	for name, c := range pinnedMachine {
		eps := make([]endpoint.Endpoint, 0, len(c.U))
		for _, e := range c.U {
			eps = append(eps, e.endpoint())
		}
		if pv := safely(func() { selector.BuildStaticWeightList(eps) }); pv != nil {
			if strings.HasPrefix(name, keyMaxZero) {
				exclMaxZero = true
			} else {
				exclNegSum = true
			}
		}
	}
}

// ------------------------------------------------------------------------ concurrent rotation
//
// "Strict rotation" / "a full cycle contains endpoint i exactly k_i times" with concurrent
// selectors: every selection takes the next slot of the cycle atomically, so when G
// goroutines together perform a whole number of cycles on an unchanged set, every endpoint
// has been returned exactly its share - whatever the interleaving.

type RotCase struct {
	Weights    []int32 `json:"weights"` // static weights (used when Weighted), one per host
	Weighted   bool    `json:"weighted"`
	Goroutines int     `json:"goroutines"`
	Cycles     int     `json:"cycles"` // total selections = Cycles * cycle length * Goroutines
}

func drawRotation(rt *rapid.T) RotCase {
	c := RotCase{Weighted: rapid.Bool().Draw(rt, "weighted"), Goroutines: rapid.SampledFrom([]int{2, 4, 8, 16}).Draw(rt, "goroutines")}
	n := rapid.IntRange(2, 7).Draw(rt, "hosts")
	for i := 0; i < n; i++ {
		c.Weights = append(c.Weights, rapid.SampledFrom([]int32{1, 2, 3, 5, 10, 30, 100}).Draw(rt, "w"))
	}
	c.Cycles = rapid.SampledFrom([]int{50, 400, 2000}).Draw(rt, "cycles")
	return c
}

func runRotation(c RotCase) *stat.Failure {
	sel := roundrobin.New(c.Weighted)
	var eps []endpoint.Endpoint
	for i, w := range c.Weights {
		e := EP{Host: hostName(i), Port: int32(10000 + i), W: w, WT: int32(endpoint.ELoop)}
		if c.Weighted {
			e.WT = int32(endpoint.EStaticWeight)
		}
		eps = append(eps, e.endpoint())
	}
	sel.Refresh(eps)
	want := make([]int, len(c.Weights))
	cycle := len(c.Weights)
	if c.Weighted {
		want, cycle = expectedCounts(c.Weights)
	} else {
		for i := range want {
			want[i] = 1
		}
	}
	per := c.Cycles * cycle // selections per goroutine: a whole number of cycles
	if per > 60000 {
		per = (60000 / cycle) * cycle
	}
	counts := make([][]int, c.Goroutines)
	errs := make([]error, c.Goroutines)
	var wg sync.WaitGroup
	start := make(chan struct{})
	for g := 0; g < c.Goroutines; g++ {
		counts[g] = make([]int, len(c.Weights))
		wg.Add(1)
		go func(g int) {
			defer wg.Done()
			<-start
			for k := 0; k < per; k++ {
				ep, err := sel.Select(msgFor("rr", 0))
				if err != nil {
					errs[g] = err
					return
				}
				for i := range c.Weights {
					if ep.Host == hostName(i) {
						counts[g][i]++
					}
				}
			}
		}(g)
	}
	close(start)
	wg.Wait()
	for _, err := range errs {
		if err != nil {
			return stat.Failf("spurious-error", "round robin over %d endpoints returned an error under concurrent selection: %v", len(c.Weights), err)
		}
	}
	total := make([]int, len(c.Weights))
	for g := range counts {
		for i, k := range counts[g] {
			total[i] += k
		}
	}
	cycles := per / cycle * c.Goroutines
	for i := range total {
		if total[i] != want[i]*cycles {
			return stat.Failf("concurrent-rotation", "round robin (weighted=%v, weights %v): %d goroutines performed %d selections = %d whole cycles on an unchanged set; endpoint %d was returned %d times, exactly %d expected (all counts %v, per-cycle shares %v)", c.Weighted, c.Weights, c.Goroutines, per*c.Goroutines, cycles, i, total[i], want[i]*cycles, total, want)
		}
	}
	return nil
}
