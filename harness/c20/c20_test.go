// C20 — Flush writes every log entry logged before it, once and in order.
//
// Trials against the real rogger package with recording LogWriters. Schedule classes:
//
//	free:   1..8 goroutines log concurrently, then FlushLogger
//	forced: through the committed `verif` yield hook the background flusher is parked
//	        exactly between its non-blocking and its blocking poll; the last entry is
//	        logged, the flush is requested, then the flusher is released - the interleaving
//	        in which a flusher that does not drain on flush loses the entry
//	overflow: one goroutine logs more entries than the queue holds while the writer stalls
package c20

import (
	"bytes"
	"fmt"
	"regexp"
	"runtime"
	"strings"
	"sync"
	"sync/atomic"
	"testing"
	"time"

	"github.com/TarsCloud/TarsGo/tars/util/rogger"
	"pgregory.net/rapid"

	"verif/harness/stat"
)

var st = stat.New("C20",
	"Trial = {schedule class free | forced | inflight | overflow; 1..8 logging goroutines each logging 1..50 numbered entries through two loggers with separate recording writers; 0..1000 entries of pre-occupancy; process-wide log level DEBUG..ERROR with every entry logged through a call that passes it - levelled calls only, or (a third of the trials) levelled calls at the trial's level, WARN and ERROR mixed with the raw calls WriteLog and Trace that ignore the level; in a quarter of the trials the level is raised to ERROR after the last logging call returned and before the flush is requested; forced: the flusher is parked at the yield hook between its two polls, the last 1..20 entries of one goroutine are logged, the flush is requested (observed through an accessor), the flusher is released; inflight: a writer taking 40 ms per Write, flush requested while the last entry is off the queue but not yet written; overflow: 10001..10300 entries from one goroutine while the writer stalls for 250 ms; slow: a writer that takes 2 ms per Write and 560..700 entries - the flush runs into its 1 s timeout, after which the backlog must still reach the writer one Write at a time, once and in order; late: both writers stall 150 ms on their first entry, 1..3 goroutines log 2..12 entries each, the flush is requested and - once the request is observed - every goroutine logs 1..3 further entries (these need not be written when the flush returns, but must not overtake the goroutine's earlier entries)}. Oracle over the recording writers after FlushLogger returned: every entry whose logging call returned before the flush request is present exactly once on the writer of its logger (and never on the other), entries of one goroutine appear in logging order, every Write call carries exactly one entry (one token; one line, or for a raw entry logged without a terminator no line end at all) and no Write carries anything that was not logged, FlushLogger returns only after the flusher acknowledged (or the timeout passed) and within the 1 s flush timeout + slack. Non-trivial = forced trial, overflow trial, or >= 3 goroutines logging. Distinct = distinct trial JSON.",
	"the losing interleaving is a window of a few nanoseconds without the hook; the hook (build tag verif, committed to the repository) makes it deterministic, the select between the two ready cases remains random (p = 1/2 per trial)",
	"logger state is reset between trials through an overlay accessor that restarts the background flusher")

type Trial struct {
	Class      string `json:"class"`
	Goroutines int    `json:"goroutines"`
	Entries    []int  `json:"entries"` // per goroutine
	Pre        int    `json:"pre"`
	Extra      int    `json:"extra,omitempty"` // overflow: entries beyond the queue capacity
	// Hold: forced class - how many of goroutine 0's last entries are logged while the flusher
	// is parked between its two polls (0 means 1)
	Hold int `json:"hold,omitempty"`
	// JSON: entries are formatted as JSON lines (rogger.SetFormat(rogger.Json)) instead of text
	JSON bool `json:"json_format,omitempty"`
	// Level: the process-wide log level during the trial (0 DEBUG, 1 INFO, 2 WARN, 3 ERROR);
	// every entry is logged at a level that passes it, or through the raw path
	Level int `json:"level,omitempty"`
	// Mixed: the entries of a goroutine alternate between the levelled calls (at the trial's
	// level, WARN, ERROR) and the raw calls WriteLog and Trace, which ignore the level
	Mixed bool `json:"mixed,omitempty"`
	// RaiseLevel: once every logging call has returned, and before the flush is requested,
	// the process-wide level is raised to ERROR (as the admin command setloglevel does)
	RaiseLevel bool `json:"raise_level,omitempty"`
	// Late (class late): entries every goroutine logs after the flush has been requested,
	// while the writer is still stalled on the first entry. They need not be written by the
	// time the flush returns, but must not overtake the goroutine's earlier entries.
	Late int `json:"late,omitempty"`
}

// emit logs entry i of goroutine g through the call the trial prescribes for it.
func (t Trial) emit(lg *rogger.Logger, g, i int, tok string) {
	lvl := rogger.LogLevel(t.Level)
	if !t.Mixed {
		if lvl < rogger.INFO {
			lvl = rogger.INFO
		}
		lg.Writef(0, lvl, "%s", []interface{}{tok})
		return
	}
	switch (g*5 + i) % 6 {
	case 0, 1:
		lg.Writef(0, lvl, "%s", []interface{}{tok})
	case 2:
		lg.Errorf("%s", tok)
	case 3:
		// raw entries are handed over as they are, with or without a line terminator
		if i%2 == 0 {
			lg.WriteLog([]byte(tok + "\n"))
		} else {
			lg.WriteLog([]byte(tok))
		}
	case 4:
		if lg.Writer().NeedPrefix() {
			lg.Trace(tok)
		} else {
			lg.Trace(tok + "\n")
		}
	default:
		if lvl < rogger.WARN {
			lvl = rogger.WARN
		}
		lg.Writef(0, lvl, "%s", []interface{}{tok})
	}
}

func (t Trial) hold() int {
	h := t.Hold
	if h < 1 {
		h = 1
	}
	if len(t.Entries) > 0 && h > t.Entries[0] {
		h = t.Entries[0]
	}
	return h
}

type recWriter struct {
	mu      sync.Mutex
	writes  [][]byte
	stall   time.Duration
	first   bool
	slow    time.Duration // every Write takes this long
	inside  int32         // number of Write calls currently in progress
	overlap int32         // set when a Write started while another one was in progress
}

func (w *recWriter) Write(v []byte) {
	if w.slow > 0 {
		if atomic.AddInt32(&w.inside, 1) > 1 {
			atomic.StoreInt32(&w.overlap, 1)
		}
		time.Sleep(w.slow)
		defer atomic.AddInt32(&w.inside, -1)
	}
	w.mu.Lock()
	if w.stall > 0 && !w.first {
		w.first = true
		w.mu.Unlock()
		time.Sleep(w.stall)
		w.mu.Lock()
	}
	w.writes = append(w.writes, append([]byte{}, v...))
	w.mu.Unlock()
}
func (w *recWriter) NeedPrefix() bool { return true }
func (w *recWriter) snapshot() [][]byte {
	w.mu.Lock()
	defer w.mu.Unlock()
	return append([][]byte{}, w.writes...)
}

var (
	armed   int32
	parked  = make(chan struct{}, 1)
	release = make(chan struct{})
	trialNo int64
)

func installHook() {
	rogger.VerifSetYield(func() {
		if atomic.CompareAndSwapInt32(&armed, 1, 2) {
			parked <- struct{}{}
			<-release
		}
	})
}

func draw(rt *rapid.T) Trial {
	t := Trial{Class: rapid.SampledFrom([]string{"free", "free", "free", "free", "free", "free", "free", "free", "free", "forced", "forced", "forced", "forced", "forced", "forced", "forced", "forced", "forced", "forced", "forced", "forced", "forced", "forced", "forced", "inflight", "inflight", "inflight", "overflow", "late", "late", "late", "slow"}).Draw(rt, "class")}
	t.Goroutines = rapid.IntRange(1, 8).Draw(rt, "goroutines")
	t.JSON = rapid.IntRange(0, 3).Draw(rt, "jsonFormat") == 0
	t.Level = rapid.SampledFrom([]int{0, 0, 0, 1, 2, 3}).Draw(rt, "level")
	t.Mixed = rapid.IntRange(0, 2).Draw(rt, "mixed") == 0
	t.RaiseLevel = rapid.IntRange(0, 3).Draw(rt, "raiseLevel") == 0
	if t.Class == "overflow" {
		t.Goroutines = 1
		t.Extra = rapid.IntRange(1, 300).Draw(rt, "extra")
		t.Entries = []int{10000 + t.Extra}
		return t
	}
	if t.Class == "slow" && stat.Tier() == "thorough" && rapid.IntRange(0, 5).Draw(rt, "slowKept") != 0 {
		t.Class = "free" // each slow trial costs 1.5 s: a sixth of them is kept in the thorough tier
	}
	if t.Class == "slow" {
		// a writer that takes 2 ms per Write and a backlog that cannot be drained within the
		// 1 s flush timeout: FlushLogger gives up waiting, the entries still reach the writer
		// one at a time and in order
		t.Goroutines = 1
		t.Entries = []int{rapid.IntRange(560, 700).Draw(rt, "entries")}
		return t
	}
	if t.Class == "late" {
		t.Goroutines = rapid.IntRange(1, 3).Draw(rt, "lateGoroutines")
		for i := 0; i < t.Goroutines; i++ {
			t.Entries = append(t.Entries, rapid.IntRange(2, 12).Draw(rt, "entries"))
		}
		t.Late = rapid.IntRange(1, 3).Draw(rt, "late")
		return t
	}
	if t.Class == "inflight" {
		// one goroutine, a writer that takes 40 ms per Write: the flush is requested while
		// the last entry is off the queue but not yet written
		t.Goroutines = 1
		t.Entries = []int{rapid.IntRange(1, 3).Draw(rt, "entries")}
		return t
	}
	for i := 0; i < t.Goroutines; i++ {
		t.Entries = append(t.Entries, rapid.IntRange(1, 50).Draw(rt, "entries"))
	}
	t.Pre = rapid.SampledFrom([]int{0, 0, 1, 10, 100, 1000}).Draw(rt, "pre")
	if t.Class == "forced" {
		t.Hold = rapid.SampledFrom([]int{1, 1, 2, 3, 4, 7, 20}).Draw(rt, "hold")
	}
	return t
}

// anyToken matches the token of an entry of any trial.
var anyToken = regexp.MustCompile(`T\d+-G\d+-E\d+#`)

func token(trial int64, g, i int) string { return fmt.Sprintf("T%d-G%d-E%06d#", trial, g, i) }

func run(t Trial) *stat.Failure {
	no := atomic.AddInt64(&trialNo, 1)
	w1, w2 := &recWriter{}, &recWriter{}
	if t.Class == "overflow" {
		w1.stall = 250 * time.Millisecond
	}
	if t.Class == "late" {
		w1.stall, w2.stall = 150*time.Millisecond, 150*time.Millisecond
	}
	if t.Class == "inflight" {
		w1.slow = 40 * time.Millisecond
	}
	if t.Class == "slow" {
		w1.slow = 2 * time.Millisecond
	}
	l1 := rogger.GetLogger(fmt.Sprintf("verifA%d", no))
	l2 := rogger.GetLogger(fmt.Sprintf("verifB%d", no))
	l1.SetWriter(w1)
	l2.SetWriter(w2)
	if t.JSON {
		rogger.SetFormat(rogger.Json)
		defer rogger.SetFormat(rogger.Text)
	}
	rogger.SetLevel(rogger.LogLevel(t.Level))
	defer rogger.SetLevel(rogger.DEBUG)
	defer func() {
		// the flusher exits after a flush; restart it for the next trial
		rogger.VerifStopFlusher()
		rogger.VerifReset()
	}()
	{
		// exactly one flusher must be running. The previous trial's flusher has acknowledged
		// its flush (VerifStopFlusher waited for that) but its goroutine may not have left
		// flushLog yet when the machine is busy: give it a moment before judging.
		buf := make([]byte, 1<<20)
		c := 0
		for attempt := 0; attempt < 400; attempt++ {
			nn := runtime.Stack(buf, true)
			if c = strings.Count(string(buf[:nn]), "rogger.flushLog("); c == 1 {
				break
			}
			time.Sleep(5 * time.Millisecond)
		}
		if c != 1 {
			rogger.FlushLogger()
			return stat.Failf("harness-failure", "%d flusher goroutines alive at the start of a trial (queue length %d)", c, rogger.VerifQueueLen())
		}
	}
	for i := 0; i < t.Pre; i++ {
		l2.Errorf("%s", token(no, 99, i))
	}
	// goroutine g logs through l1 when g is even, l2 when odd; goroutine 0 keeps its last
	// entry for the forced phase
	var wg sync.WaitGroup
	for g := 0; g < t.Goroutines; g++ {
		wg.Add(1)
		go func(g int) {
			defer wg.Done()
			n := t.Entries[g]
			if t.Class == "forced" && g == 0 {
				n -= t.hold()
			}
			lg := l1
			if g%2 == 1 {
				lg = l2
			}
			for i := 0; i < n; i++ {
				t.emit(lg, g, i, token(no, g, i))
				if i%7 == 3 {
					time.Sleep(0)
				}
			}
		}(g)
	}
	wg.Wait()
	if t.Class == "forced" {
		// park the flusher between its polls (it gets there as soon as the queue is empty)
		atomic.StoreInt32(&armed, 1)
		isParked := false
		for attempt := 0; attempt < 200 && !isParked; attempt++ {
			select {
			case <-parked:
				isParked = true
			case <-time.After(10 * time.Millisecond):
				// the flusher is already idle in its blocking poll: wake it with a filler
				// entry (on the second writer), after which it passes the yield point
				l2.Errorf("%s", token(no, 98, attempt))
			}
		}
		if !isParked {
			atomic.StoreInt32(&armed, 0)
			rogger.FlushLogger()
			return stat.Failf("harness-failure", "flusher never reached the yield point (hook not compiled in? build needs -tags verif)")
		}
		for i := t.Entries[0] - t.hold(); i < t.Entries[0]; i++ {
			t.emit(l1, 0, i, token(no, 0, i)) // returns: the entry is queued
		}
	}
	if t.Class == "inflight" {
		// wait until the queue is empty while the writer is still busy with the last entry
		dl := time.Now().Add(3 * time.Second)
		for time.Now().Before(dl) && !(rogger.VerifQueueLen() == 0 && atomic.LoadInt32(&w1.inside) > 0) {
			time.Sleep(200 * time.Microsecond)
		}
	}
	if t.RaiseLevel {
		rogger.SetLevel(rogger.ERROR)
	}
	t0 := time.Now()
	flushed := make(chan struct{})
	go func() { rogger.FlushLogger(); close(flushed) }()
	if t.Class == "forced" {
		<-rogger.VerifFlushRequested()
		atomic.StoreInt32(&armed, 0)
		release <- struct{}{}
	}
	if t.Class == "late" {
		// the flush has been requested and the writers are still stalled on their first entry:
		// every goroutine logs a few more entries
		<-rogger.VerifFlushRequested()
		var lw sync.WaitGroup
		for g := 0; g < t.Goroutines; g++ {
			lw.Add(1)
			go func(g int) {
				defer lw.Done()
				lg := l1
				if g%2 == 1 {
					lg = l2
				}
				for k := 0; k < t.Late; k++ {
					t.emit(lg, g, t.Entries[g]+k, token(no, g, t.Entries[g]+k))
				}
			}(g)
		}
		lw.Wait()
	}
	select {
	case <-flushed:
	case <-time.After(10 * time.Second):
		return stat.Failf("flush-hangs", "FlushLogger did not return within 10 s (flush timeout is 1 s)")
	}
	took := time.Since(t0)
	// FlushLogger may only return once the flusher has acknowledged the flush (or the
	// flush timeout has passed)
	select {
	case <-rogger.VerifFlusherDone():
	default:
		if took < 900*time.Millisecond {
			f := stat.Failf("flush-returned-early", "class %s: FlushLogger returned after %v although the background flusher had not acknowledged the flush and the 1 s flush timeout had not passed", t.Class, took.Round(time.Millisecond))
			rogger.FlushLogger()
			select {
			case <-rogger.VerifFlusherDone():
			case <-time.After(2 * time.Second):
			}
			return f
		}
	}
	if t.Class == "slow" {
		// the flush timed out by design: let the flusher finish the backlog, then judge
		select {
		case <-rogger.VerifFlusherDone():
		case <-time.After(20 * time.Second):
			return stat.Failf("flush-hangs", "class slow: the background flusher did not finish a backlog of %d entries (2 ms each) within 20 s", t.Entries[0])
		}
		if atomic.LoadInt32(&w1.overlap) != 0 {
			return stat.Failf("concurrent-write", "class slow: a Write was started while another Write to the same writer was still in progress (the flush had timed out after %v)", took.Round(time.Millisecond))
		}
	}
	// ---- oracle
	check := func(w *recWriter, mine func(g int) bool, name string) *stat.Failure {
		seen := map[string]int{}
		lastIdx := map[int]int{}
		for _, b := range w.snapshot() {
			s := string(b)
			if !anyToken.MatchString(s) {
				return stat.Failf("unlogged-write", "writer %s received a Write that carries no logged entry: %q", name, clip(s))
			}
			if nl := strings.Count(s, "\n"); nl > 1 || (nl == 1 && !strings.HasSuffix(s, "\n")) {
				return stat.Failf("divided-write", "writer %s received a Write that is not exactly one entry: %q", name, clip(s))
			}
			k := strings.Index(s, fmt.Sprintf("T%d-G", no))
			if k < 0 {
				continue // entry of another trial / another source
			}
			tok := s[k : strings.IndexByte(s[k:], '#')+k+1]
			if strings.Count(s, fmt.Sprintf("T%d-G", no)) != 1 {
				return stat.Failf("divided-write", "writer %s received one Write carrying several entries: %q", name, clip(s))
			}
			var tr int64
			var g, i int
			fmt.Sscanf(tok, "T%d-G%d-E%d#", &tr, &g, &i)
			if g != 99 && g != 98 && !mine(g) {
				return stat.Failf("wrong-writer", "entry %s was handed to writer %s, which is not the writer of its logger", tok, name)
			}
			seen[tok]++
			if seen[tok] > 1 {
				return stat.Failf("duplicate-entry", "entry %s was written %d times", tok, seen[tok])
			}
			if prev, ok := lastIdx[g]; ok && i < prev && g != 98 {
				var seq []string
				for _, bb := range w.snapshot() {
					if kk := strings.Index(string(bb), fmt.Sprintf("T%d-G%d-", no, g)); kk >= 0 {
						e := kk + 16
						if e > len(bb) {
							e = len(bb)
						}
						seq = append(seq, strings.TrimSpace(string(bb)[kk:e]))
					}
				}
				buf := make([]byte, 1<<20)
				nn := runtime.Stack(buf, true)
				return stat.Failf("order", "writer %s: entry %d of goroutine %d arrived after entry %d of the same goroutine; flusher goroutines alive: %d; sequence %v", name, i, g, prev, strings.Count(string(buf[:nn]), "rogger.flushLog("), seq)
			}
			lastIdx[g] = i
		}
		for g := 0; g < t.Goroutines; g++ {
			if !mine(g) {
				continue
			}
			for i := 0; i < t.Entries[g]; i++ {
				if seen[token(no, g, i)] != 1 {
					what := ""
					if t.Class == "forced" && g == 0 && i >= t.Entries[0]-t.hold() {
						what = fmt.Sprintf(" (one of the %d entries logged while the flusher was between its two polls)", t.hold())
					}
					return stat.Failf("entry-lost", "class %s: entry %d of goroutine %d%s, whose logging call returned before the flush was requested, was not written before FlushLogger returned (%v); queue length now %d", t.Class, i, g, what, took.Round(time.Millisecond), rogger.VerifQueueLen())
				}
			}
		}
		return nil
	}
	if f := check(w1, func(g int) bool { return g%2 == 0 }, "A"); f != nil {
		return f
	}
	if f := check(w2, func(g int) bool { return g%2 == 1 }, "B"); f != nil {
		return f
	}
	if took > 1500*time.Millisecond && t.Class != "slow" {
		return stat.Failf("flush-too-slow", "FlushLogger took %v (flush timeout 1 s) although both writers are fast", took)
	}
	return nil
}

func clip(s string) string {
	if len(s) > 200 {
		return s[:200]
	}
	return s
}

func TestC20(t *testing.T) {
	defer st.Emit()
	rogger.SetLevel(rogger.DEBUG)
	installHook()
	_ = bytes.MinRead
	stat.Check(t, st, "flush", stat.N(1500, 40000), draw, func(tr Trial) *stat.Failure {
		cls := []string{"class-" + tr.Class, fmt.Sprintf("goroutines-%d", tr.Goroutines), fmt.Sprintf("level-%d", tr.Level)}
		if tr.Mixed {
			cls = append(cls, "levelled-and-raw-calls-mixed")
		}
		if tr.RaiseLevel {
			cls = append(cls, "level-raised-before-flush")
		}
		st.CaseJSON(tr, tr.Class != "free" || tr.Goroutines >= 3, cls...)
		return run(tr)
	})
}
