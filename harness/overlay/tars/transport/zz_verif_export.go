package transport

// Accessors for the verification harness (overlay file; not part of the repository).

import (
	"net"
	"sync/atomic"
)

// VerifAddr returns the address the server is listening on ("" before Listen).
func (ts *TarsServer) VerifAddr() string {
	switch h := ts.handle.(type) {
	case *tcpHandler:
		if h.listener != nil {
			return h.listener.Addr().String()
		}
	case *udpHandler:
		if h.conn != nil {
			return h.conn.LocalAddr().String()
		}
	}
	return ""
}

// VerifConnInvokes returns, per remote address, the number of requests read from that
// connection and not yet answered (tcp only).
func (ts *TarsServer) VerifConnInvokes() map[string]int32 {
	out := map[string]int32{}
	if h, ok := ts.handle.(*tcpHandler); ok {
		h.conns.Range(func(k, v interface{}) bool {
			out[k.(string)] = atomic.LoadInt32(&v.(*connInfo).numInvoke)
			return true
		})
	}
	return out
}

// VerifServeConn runs the server-side receive loop of a tcp server on a supplied
// connection (fake net.Conn with scripted chunks).
func (ts *TarsServer) VerifServeConn(conn net.Conn) {
	h := &tcpHandler{config: ts.config, server: ts}
	cf := &connInfo{conn: conn}
	h.recv(cf)
}

// VerifClientRecv runs the client-side receive loop on a supplied connection.
func VerifClientRecv(protocol ClientProtocol, conf *TarsClientConf, conn net.Conn) {
	client := NewTarsClient("fake:0", protocol, conf)
	done := make(chan bool, 1)
	client.conn.conn = conn
	client.conn.isClosed = false
	client.conn.recv(conn, done)
}

// VerifMarkClosed puts the server into the state a graceful Shutdown sets first (no new
// work is accepted, connections are drained).
func (ts *TarsServer) VerifMarkClosed() { atomic.StoreInt32(&ts.isClosed, 1) }

// VerifNewClient creates a client whose receive loop can be run on a sequence of supplied
// connections (what a client does across reconnects).
func VerifNewClient(protocol ClientProtocol, conf *TarsClientConf) *TarsClient {
	return NewTarsClient("fake:0", protocol, conf)
}

// VerifRecvOn installs conn as the client's current connection and runs the receive loop on
// it until it ends.
func (tc *TarsClient) VerifRecvOn(conn net.Conn) {
	done := make(chan bool, 1)
	tc.conn.connLock.Lock()
	tc.conn.conn = conn
	tc.conn.isClosed = false
	tc.conn.connLock.Unlock()
	tc.conn.recv(conn, done)
}

// VerifClientClosed reports whether the client currently regards its connection as closed.
func (tc *TarsClient) VerifClientClosed() bool {
	tc.conn.connLock.Lock()
	defer tc.conn.connLock.Unlock()
	return tc.conn.isClosed
}

// VerifClientInvokeNum is the per-connection in-flight counter.
func (tc *TarsClient) VerifClientInvokeNum() int32 { return atomic.LoadInt32(&tc.conn.invokeNum) }
