package rogger

import (
	"context"
	"time"
)

// Accessors for the verification harness (overlay file; not part of the repository).

// VerifFlusherDone is closed when the background flusher has acknowledged a flush and exited.
func VerifFlusherDone() <-chan struct{} { return asyncDone.Done() }

// VerifFlushRequested is closed once a flush has been requested.
func VerifFlushRequested() <-chan struct{} { return syncDone.Done() }

// VerifQueueLen is the number of entries waiting in the log queue.
func VerifQueueLen() int { return len(logQueue) }

// VerifReset discards whatever is still queued, re-creates the flush signalling state and
// starts a new background flusher. Must only be called after the previous flusher exited
// (VerifFlusherDone closed).
func VerifReset() int {
	dropped := 0
	for {
		select {
		case <-logQueue:
			dropped++
			continue
		default:
		}
		break
	}
	syncDone, syncCancel = context.WithCancel(context.Background())
	asyncDone, asyncCancel = context.WithCancel(context.Background())
	go flushLog()
	return dropped
}

// VerifStopFlusher requests a flush directly (independent of FlushLogger) and waits for the
// background flusher to acknowledge and exit, so that VerifReset never runs with an old
// flusher still alive.
func VerifStopFlusher() bool {
	syncCancel()
	select {
	case <-asyncDone.Done():
		return true
	case <-time.After(3 * time.Second):
		return false
	}
}
