package parse

import (
	"github.com/TarsCloud/TarsGo/tars/tools/tars2go/options"
)

// VerifParseBytes runs the lexer+parser on in-memory data (no includes are resolved unless
// the files exist next to source). Overlay file for the verification harness.
func VerifParseBytes(source string, data []byte) {
	p := newParse(&options.Options{}, source, data, nil)
	p.parse()
}
