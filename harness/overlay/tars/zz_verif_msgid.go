//go:build !verif_nomsgid

package tars

import "sync/atomic"

// Separate overlay file: it refers to the process-wide request id counter by name. When a
// change to the repository removes or renames that variable, the driver rebuilds the C08
// unit with -tags verif_nomsgid (the check then runs without presetting the counter)
// instead of giving up with a build failure.

// VerifSetMsgID presets the process-wide request id counter.
func VerifSetMsgID(v int32) { atomic.StoreInt32(&msgID, v) }

// VerifMsgID reads the counter.
func VerifMsgID() int32 { return atomic.LoadInt32(&msgID) }

// VerifGenRequestID draws the next request id exactly as a call does.
func (s *ServantProxy) VerifGenRequestID() int32 { return s.genRequestID() }
