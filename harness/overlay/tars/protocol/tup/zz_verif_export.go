package tup

// VerifData exposes the decoded attribute map to the verification harness (overlay file,
// compiled in through `go test -overlay`; not part of the repository).
func (u *UniAttribute) VerifData() map[string][]byte { return u.data }
