package tars

// Accessors for the verification harness (overlay file, compiled in through
// `go test -overlay`; not part of the repository). Only trivial getters/setters.

import (
	"sync/atomic"
)

// VerifBindDefaultApp gives a Protocol built with NewTarsProtocol the default application
// (what application.AddServant does through newProtocol).
func VerifBindDefaultApp(p *Protocol) *Protocol { p.app = defaultApp; return p }

// VerifResetFilters clears the package-level filter registry.
func VerifResetFilters() { defaultApp.allFilters = &filters{} }

// VerifSetMsgID presets the process-wide request id counter.
func VerifSetMsgID(v int32) { atomic.StoreInt32(&msgID, v) }

// VerifMsgID reads the counter.
func VerifMsgID() int32 { return atomic.LoadInt32(&msgID) }

// VerifQueueLen is the proxy's in-flight call counter.
func (s *ServantProxy) VerifQueueLen() int32 { return atomic.LoadInt32(&s.queueLen) }

// VerifManager exposes the endpoint manager of a proxy.
func (s *ServantProxy) VerifManager() EndpointManager { return s.manager }
