package tars

// Accessors for the verification harness (overlay file, compiled in through
// `go test -overlay`; not part of the repository). Only trivial getters/setters.

import (
	"reflect"
	"sync/atomic"
	"unsafe"
)

// VerifBindDefaultApp gives a Protocol built with NewTarsProtocol the default application
// (what application.AddServant does through newProtocol).
func VerifBindDefaultApp(p *Protocol) *Protocol { p.app = defaultApp; return p }

// VerifResetFilters clears the package-level filter registry.
func VerifResetFilters() { defaultApp.allFilters = &filters{} }

// VerifQueueLen is the proxy's in-flight call counter.
func (s *ServantProxy) VerifQueueLen() int32 { return atomic.LoadInt32(&s.queueLen) }

// VerifManager exposes the endpoint manager of a proxy.
func (s *ServantProxy) VerifManager() EndpointManager { return s.manager }

// VerifAdapters lists the adapter proxies the proxy's endpoint manager has created so far.
func (s *ServantProxy) VerifAdapters() []*AdapterProxy {
	var out []*AdapterProxy
	if em, ok := s.manager.(*endpointManager); ok {
		em.epList.Range(func(k, v interface{}) bool {
			out = append(out, v.(*AdapterProxy))
			return true
		})
	}
	return out
}

// VerifPending is the total size of the pending-reply tables of the proxy's adapters
// (field resp of AdapterProxy), or -1 when the table cannot be observed. The field is
// reached by name and counted through its Range method, whatever its type (today a
// sync.Map), so that a change of its representation does not break the harness build.
func (s *ServantProxy) VerifPending() int {
	n := 0
	for _, a := range s.VerifAdapters() {
		f := reflect.ValueOf(a).Elem().FieldByName("resp")
		if !f.IsValid() {
			return -1
		}
		var p interface{}
		if f.Kind() == reflect.Ptr {
			p = reflect.NewAt(f.Type(), unsafe.Pointer(f.UnsafeAddr())).Elem().Interface()
		} else {
			p = reflect.NewAt(f.Type(), unsafe.Pointer(f.UnsafeAddr())).Interface()
		}
		r, ok := p.(interface {
			Range(func(k, v interface{}) bool)
		})
		if !ok {
			return -1
		}
		r.Range(func(k, v interface{}) bool { n++; return true })
	}
	return n
}

// VerifInvokeNum is the manager's counter of calls between preInvoke and postInvoke.
func (s *ServantProxy) VerifInvokeNum() int32 {
	if em, ok := s.manager.(*endpointManager); ok {
		return atomic.LoadInt32(&em.invokeNum)
	}
	return 0
}

// VerifConnInvokeNum is the per-connection in-flight counter of an adapter's client.
func (c *AdapterProxy) VerifConnInvokeNum() int32 { return c.tarsClient.VerifClientInvokeNum() }

// VerifClientClosed reports whether the adapter's transport regards its connection as closed.
func (c *AdapterProxy) VerifClientClosed() bool { return c.tarsClient.VerifClientClosed() }

// VerifHost returns the adapter's endpoint host and port.
func (c *AdapterProxy) VerifHost() (string, int32) { return c.point.Host, c.point.Port }

// VerifStatus is the adapter's health flag (true = in rotation).
func (c *AdapterProxy) VerifStatus() bool { return c.status }

// VerifShiftClock moves the adapter's health timestamps back by d seconds, which is
// exactly a clock advance for the health rules (all of the form now - t >= const).
func (c *AdapterProxy) VerifShiftClock(d int64) {
	atomic.AddInt64(&c.lastSuccessTime, -d)
	atomic.AddInt64(&c.lastBlockTime, -d)
	atomic.AddInt64(&c.lastCheckTime, -d)
	atomic.AddInt64(&c.lastKeepAliveTime, -d)
}

// VerifCounters exposes the adapter's call statistics (failCount, lastFailCount, sendCount, successCount).
func (c *AdapterProxy) VerifCounters() (int32, int32, int32, int32) {
	return atomic.LoadInt32(&c.failCount), atomic.LoadInt32(&c.lastFailCount), atomic.LoadInt32(&c.sendCount), atomic.LoadInt32(&c.successCount)
}

// VerifCheckStatus runs one status check of the proxy's endpoint manager (what the
// background ticker does).
func (s *ServantProxy) VerifCheckStatus() {
	if em, ok := s.manager.(*endpointManager); ok {
		em.checkStatus()
	}
}

// VerifKeepAlive sends one keep-alive ping (one-way tars_ping) on every adapter of the proxy
// that has already carried a call - what the status check does for every adapter when
// keep-alive-interval is configured, and the keep-alive ticker of push clients.
func (s *ServantProxy) VerifKeepAlive() {
	if em, ok := s.manager.(*endpointManager); ok {
		em.epList.Range(func(k, v interface{}) bool {
			if adp := v.(*AdapterProxy); adp.servantProxy != nil {
				adp.doKeepAlive()
			}
			return true
		})
	}
}

// VerifRefresh runs one registry refresh of the proxy's endpoint manager.
func (s *ServantProxy) VerifRefresh() error {
	if em, ok := s.manager.(*endpointManager); ok {
		return em.doFresh()
	}
	return nil
}

// VerifActiveHosts lists the hosts currently in normal rotation.
func (s *ServantProxy) VerifActiveHosts() []string {
	var out []string
	if em, ok := s.manager.(*endpointManager); ok {
		em.epLock.Lock()
		for _, ep := range em.activeEp {
			out = append(out, ep.Host)
		}
		em.epLock.Unlock()
	}
	return out
}
