// C05 (in-process part) over the framework's bindings: request/response packets, every
// other framework struct, tup.UniAttribute.
package c05

import (
	"testing"

	"verif/harness/codecprops"
	"verif/harness/gen/regfw"
	"verif/harness/stat"
)

var st = stat.New("C05", codecprops.C05Rule,
	"allocation is measured per decode with runtime/metrics /gc/heap/allocs:bytes in a single-goroutine test process",
	"a Go runtime crash of the test process whose trace goes through the repository (e.g. fatal stack overflow) is reported by the driver as a violation (signature process-crash)")

func TestC05(t *testing.T) {
	defer st.Emit()
	r, err := codecprops.Load("framework", regfw.SchemaJSON, regfw.New)
	if err != nil {
		t.Fatalf("VERIF-INFRA registry: %v", err)
	}
	r.AddTup()
	r.RunC05(t, st, 15000, 300000)
}
