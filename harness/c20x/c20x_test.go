// C20 (exit path) — "the entries logged immediately before a panic-triggered exit are not
// lost".
//
// A CHILD process (this test binary in worker mode) logs numbered entries through the real
// logger into a writer that appends length-framed records to a file, then 1..4 goroutines
// protected by `defer tars.CheckPanic()` panic at generated moments; CheckPanic dumps the
// stacks, flushes the logger and exits the process. The parent compares the file with what
// was logged.
package c20x

import (
	"encoding/binary"
	"encoding/json"
	"errors"
	"fmt"
	"os"
	"os/exec"
	"path/filepath"
	"strings"
	"sync"
	"sync/atomic"
	"testing"
	"time"

	"github.com/TarsCloud/TarsGo/tars"
	"github.com/TarsCloud/TarsGo/tars/util/rogger"
	"pgregory.net/rapid"

	"verif/harness/stat"
)

var st = stat.New("C20",
	"Exit path. Case = {1..6 logging goroutines each logging 1..60 numbered entries (levelled calls, or - a quarter of the cases - only Logger.WriteLog, the path of Trace and the context logger) through two loggers whose writers append one length-framed record per Write to a file, per-Write delay 0..3 ms with a total backlog <= 300 ms (well inside the 1 s flush timeout); after every logging call has returned, 1..4 goroutines under `defer tars.CheckPanic()` panic 0..60 ms apart with error / string / struct panic values - or (a fifth of the cases) the process dies from a panic inside tars.Run() itself (server config naming missing TLS key files), where Run's deferred flush has to save the entries}. The child process must end through CheckPanic's exit. Oracle over the file: every entry is present exactly once on the file of its logger, one entry per record, entries of one goroutine in logging order. Non-trivial = >= 2 panicking goroutines or a backlog of >= 50 ms at the first panic. Distinct = distinct case JSON.",
	"the child is this test binary re-executed in worker mode; its exit status must be non-zero (os.Exit(-1) in CheckPanic)")

type Case struct {
	Entries      []int  `json:"entries"` // per logging goroutine
	WriteDelayUs int    `json:"write_delay_us"`
	PanicGapsMs  []int  `json:"panic_gaps_ms"` // one per panicking goroutine: delay after the logging finished
	PanicKind    string `json:"panic_kind"`    // error | string | struct
	// ViaRun: instead of goroutines under CheckPanic, the process dies from a panic inside
	// tars.Run() itself (its configuration step rejects the server config: missing TLS key
	// files); Run's deferred flush is what saves the entries then
	ViaRun bool `json:"via_run,omitempty"`
	// Raw: every entry goes through Logger.WriteLog (what Trace and the context logger of
	// contrib/log use) - no levelled call is made in the whole process
	Raw bool `json:"raw,omitempty"`
}

func draw(rt *rapid.T) Case {
	c := Case{PanicKind: rapid.SampledFrom([]string{"error", "string", "struct"}).Draw(rt, "panicKind")}
	ng := rapid.IntRange(1, 6).Draw(rt, "goroutines")
	total := 0
	for i := 0; i < ng; i++ {
		n := rapid.IntRange(1, 60).Draw(rt, "entries")
		c.Entries = append(c.Entries, n)
		total += n
	}
	c.WriteDelayUs = rapid.SampledFrom([]int{0, 0, 200, 1000, 3000}).Draw(rt, "writeDelayUs")
	if total*c.WriteDelayUs > 300000 {
		c.WriteDelayUs = 300000 / total
	}
	c.ViaRun = rapid.IntRange(0, 4).Draw(rt, "viaRun") == 0
	c.Raw = rapid.IntRange(0, 3).Draw(rt, "raw") == 0
	np := rapid.SampledFrom([]int{1, 2, 2, 2, 3, 4}).Draw(rt, "panickers")
	for i := 0; i < np; i++ {
		c.PanicGapsMs = append(c.PanicGapsMs, rapid.SampledFrom([]int{0, 0, 1, 5, 20, 60}).Draw(rt, "gap"))
	}
	return c
}

func token(g, i int) string { return fmt.Sprintf("T-G%d-E%06d#", g, i) }

// ------------------------------------------------------------------ child (worker mode)

type fileWriter struct {
	mu    sync.Mutex
	f     *os.File
	delay time.Duration
}

func (w *fileWriter) Write(v []byte) {
	if w.delay > 0 {
		time.Sleep(w.delay)
	}
	rec := make([]byte, 4, 4+len(v))
	binary.BigEndian.PutUint32(rec, uint32(len(v)))
	rec = append(rec, v...)
	w.mu.Lock()
	_, _ = w.f.Write(rec) // O_APPEND: one write call per record
	w.mu.Unlock()
}
func (w *fileWriter) NeedPrefix() bool { return true }

type custom struct{ A, B int }

func TestC20ExitChild(t *testing.T) {
	spec := os.Getenv("VERIF_C20X_CHILD")
	if spec == "" {
		return
	}
	var c Case
	if err := json.Unmarshal([]byte(spec), &c); err != nil {
		fmt.Println("CHILD-ERROR", err)
		os.Exit(3)
	}
	dir := os.Getenv("VERIF_C20X_DIR")
	open := func(name string) *fileWriter {
		f, err := os.OpenFile(filepath.Join(dir, name), os.O_CREATE|os.O_WRONLY|os.O_APPEND, 0644)
		if err != nil {
			fmt.Println("CHILD-ERROR", err)
			os.Exit(3)
		}
		return &fileWriter{f: f, delay: time.Duration(c.WriteDelayUs) * time.Microsecond}
	}
	rogger.SetLevel(rogger.DEBUG)
	l1, l2 := rogger.GetLogger("verifX1"), rogger.GetLogger("verifX2")
	l1.SetWriter(open("w1.rec"))
	l2.SetWriter(open("w2.rec"))
	var wg sync.WaitGroup
	for g, n := range c.Entries {
		wg.Add(1)
		go func(g, n int) {
			defer wg.Done()
			lg := l1
			if g%2 == 1 {
				lg = l2
			}
			for i := 0; i < n; i++ {
				if c.Raw {
					lg.WriteLog([]byte(token(g, i) + "\n"))
				} else {
					lg.Infof("%s", token(g, i))
				}
			}
		}(g, n)
	}
	wg.Wait()
	// every logging call has returned: tell the parent, then crash
	_ = os.WriteFile(filepath.Join(dir, "logged"), []byte("ok"), 0644)
	if c.ViaRun {
		cfg := filepath.Join(dir, "server.conf")
		conf := "<tars>\n  <application>\n    <server>\n      app=Verif\n      server=C20x\n      key=" + filepath.Join(dir, "missing.key") +
			"\n      cert=" + filepath.Join(dir, "missing.crt") + "\n    </server>\n  </application>\n</tars>\n"
		_ = os.WriteFile(cfg, []byte(conf), 0644)
		tars.ServerConfigPath = cfg
		tars.Run() // panics while loading the configuration; Run's deferred flush runs first
		fmt.Println("CHILD-ERROR tars.Run returned")
		os.Exit(4)
	}
	for _, gap := range c.PanicGapsMs {
		go func(gap int) {
			defer tars.CheckPanic()
			time.Sleep(time.Duration(gap) * time.Millisecond)
			switch c.PanicKind {
			case "error":
				panic(errors.New("verif: scripted failure"))
			case "string":
				panic("verif: scripted failure")
			default:
				panic(custom{1, 2})
			}
		}(gap)
	}
	time.Sleep(20 * time.Second)
	fmt.Println("CHILD-ERROR the process survived the panics")
	os.Exit(4)
}

// ------------------------------------------------------------------ parent

var caseNo int64

func readRecords(path string) ([][]byte, error) {
	b, err := os.ReadFile(path)
	if err != nil {
		if os.IsNotExist(err) {
			return nil, nil
		}
		return nil, err
	}
	var out [][]byte
	for len(b) > 0 {
		if len(b) < 4 {
			return out, fmt.Errorf("truncated record header")
		}
		n := int(binary.BigEndian.Uint32(b))
		if 4+n > len(b) {
			return out, fmt.Errorf("truncated record (%d of %d bytes)", len(b)-4, n)
		}
		out = append(out, b[4:4+n])
		b = b[4+n:]
	}
	return out, nil
}

func run(c Case) *stat.Failure {
	no := atomic.AddInt64(&caseNo, 1)
	dir, err := os.MkdirTemp(filepath.Dir(os.Args[0]), fmt.Sprintf("c20x_%d_", no))
	if err != nil {
		return stat.Failf("harness-failure", "mkdir: %v", err)
	}
	defer os.RemoveAll(dir)
	spec, _ := json.Marshal(c)
	// the child gets its own copy of the binary path's directory as cwd: CheckPanic's stack
	// dump is written next to os.Args[0]
	cmd := exec.Command(os.Args[0], "-test.run", "^TestC20ExitChild$", "-test.count=1")
	cmd.Env = append(os.Environ(), "VERIF_C20X_CHILD="+string(spec), "VERIF_C20X_DIR="+dir)
	cmd.Dir = dir
	t0 := time.Now()
	out, runErr := cmd.CombinedOutput()
	took := time.Since(t0)
	if c.ViaRun && !strings.Contains(string(out), "missing.key") && !strings.Contains(string(out), "missing.crt") && !strings.Contains(string(out), "CHILD-ERROR") {
		return stat.Failf("harness-failure", "child was expected to die from the configuration panic inside tars.Run: %.400s", out)
	}
	if strings.Contains(string(out), "CHILD-ERROR") {
		if strings.Contains(string(out), "tars.Run returned") {
			return stat.Failf("harness-failure", "tars.Run accepted a server config with missing TLS files: %.300s", out)
		}
		if strings.Contains(string(out), "survived") {
			return stat.Failf("no-exit", "the process did not exit although %d goroutine(s) panicked under CheckPanic", len(c.PanicGapsMs))
		}
		return stat.Failf("harness-failure", "child: %.300s", out)
	}
	if runErr == nil {
		return stat.Failf("harness-failure", "child exited with status 0: %.300s", out)
	}
	if _, err := os.Stat(filepath.Join(dir, "logged")); err != nil {
		return stat.Failf("harness-failure", "child ended before the logging finished (%v): %.300s", runErr, out)
	}
	_ = took
	for w, name := range []string{"w1.rec", "w2.rec"} {
		recs, err := readRecords(filepath.Join(dir, name))
		if err != nil {
			return stat.Failf("divided-write", "writer %d: %v", w+1, err)
		}
		seen := map[string]int{}
		last := map[int]int{}
		for ri, r := range recs {
			s := string(r)
			k := strings.Count(s, "T-G")
			if k != 1 || strings.Count(s, "\n") != 1 || !strings.HasSuffix(s, "\n") {
				return stat.Failf("divided-write", "writer %d record %d does not carry exactly one entry: %q", w+1, ri, clip(s))
			}
			i := strings.Index(s, "T-G")
			j := strings.Index(s[i:], "#")
			if j < 0 {
				return stat.Failf("divided-write", "writer %d record %d carries a cut token: %q", w+1, ri, clip(s))
			}
			tok := s[i : i+j+1]
			var g, e int
			if _, err := fmt.Sscanf(tok, "T-G%d-E%d#", &g, &e); err != nil {
				return stat.Failf("divided-write", "writer %d record %d: unparsable token %q", w+1, ri, tok)
			}
			if g%2 != w {
				return stat.Failf("wrong-writer", "entry %s reached the writer of the other logger", tok)
			}
			seen[tok]++
			if seen[tok] > 1 {
				return stat.Failf("duplicate", "entry %s was written %d times", tok, seen[tok])
			}
			if l, ok := last[g]; ok && e <= l {
				return stat.Failf("order", "goroutine %d: entry %d written after entry %d", g, e, l)
			}
			last[g] = e
		}
		for g, n := range c.Entries {
			if g%2 != w {
				continue
			}
			for i := 0; i < n; i++ {
				if seen[token(g, i)] != 1 {
					missing := 0
					for k := i; k < n; k++ {
						if seen[token(g, k)] == 0 {
							missing++
						}
					}
					return stat.Failf("lost-at-exit", "entry %s (and %d more of goroutine %d) was logged before the panic but never reached its writer: %d of %d records present on writer %d; %d panicking goroutine(s) with gaps %v ms, %d us per Write, panic value kind %s, child ran %v", token(g, i), missing-1, g, len(recs), countFor(c, w), w+1, len(c.PanicGapsMs), c.PanicGapsMs, c.WriteDelayUs, c.PanicKind, took.Round(time.Millisecond))
				}
			}
		}
	}
	return nil
}

func countFor(c Case, w int) int {
	n := 0
	for g, k := range c.Entries {
		if g%2 == w {
			n += k
		}
	}
	return n
}

func clip(s string) string {
	if len(s) > 120 {
		return s[:120] + "..."
	}
	return s
}

func nontrivial(c Case) bool {
	total := 0
	for _, n := range c.Entries {
		total += n
	}
	return len(c.PanicGapsMs) >= 2 || total*c.WriteDelayUs >= 50000
}

func TestC20Exit(t *testing.T) {
	if os.Getenv("VERIF_C20X_CHILD") != "" {
		return
	}
	defer st.Emit()
	pinned := map[string]Case{
		"two-panics-with-backlog":   {Entries: []int{60, 40}, WriteDelayUs: 2000, PanicGapsMs: []int{0, 20}, PanicKind: "error"},
		"three-panics-same-instant": {Entries: []int{50}, WriteDelayUs: 3000, PanicGapsMs: []int{0, 0, 0}, PanicKind: "string"},
		"single-panic":              {Entries: []int{30, 30, 30}, WriteDelayUs: 1000, PanicGapsMs: []int{5}, PanicKind: "struct"},
		"panic-inside-run":          {Entries: []int{40, 20}, WriteDelayUs: 2000, PanicGapsMs: []int{0}, PanicKind: "error", ViaRun: true},
		"raw-entries-only":          {Entries: []int{25, 25}, WriteDelayUs: 1000, PanicGapsMs: []int{0}, PanicKind: "string", Raw: true},
	}
	if stat.ReplayPath() == "" && os.Getenv("VERIF_ONLY") == "" {
		stat.Pinned(t, st, "exit", pinned, func(c Case) *stat.Failure {
			st.CaseJSON(c, nontrivial(c), "pinned", fmt.Sprintf("panickers-%d", len(c.PanicGapsMs)))
			return run(c)
		})
	}
	stat.Check(t, st, "exit", stat.N(40, 1500), draw, func(c Case) *stat.Failure {
		cls := []string{fmt.Sprintf("panickers-%d", len(c.PanicGapsMs)), "panic-value-" + c.PanicKind}
		if c.ViaRun {
			cls = []string{"panic-inside-tars-run"}
		}
		if c.Raw {
			cls = append(cls, "raw-entries-only")
		}
		st.CaseJSON(c, nontrivial(c), cls...)
		return run(c)
	})
}
