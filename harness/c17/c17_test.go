// C17 — Config parser: complete and exact, or an error, never silently partial.
//
// Documents are generated line by line from the config grammar (open tag, close tag,
// key=value line, '#' comment, blank line) and the MODEL (tree of domains -> keys,
// sub-domains, ordered line listing) is computed from that structured line list, never by
// parsing text. Oracles:
//
//	exact     (document has no XML-hostile text, no key/sub-domain collision, no structural
//	          edit): InitFromString/InitFromBytes must return nil and every getter must
//	          equal the model: GetDomain / GetDomainKey as duplicate-free sets, GetMap as a
//	          map, GetDomainLine as a sequence, GetString / GetStringWithDef per key,
//	          GetInt / GetIntWithDef / GetInt32WithDef / GetBoolWithDef / GetFloatWithDef =
//	          parsed value or the supplied (generated) default when absent or malformed.
//	presence  (classes B, C, malformed): error OR every model domain, every key written
//	          with XML-neutral text and every XML-neutral line is present (and no domain
//	          lists fewer lines than were written). nil + something missing = "silently
//	          partial" = violation.
//	no panic  on every input, including pure random bytes.
//
// Confirmed defects of the unchanged tree (standalone repro + fix diff in the report):
//
//	D-C17-silent    errors of the XML tokenizer are ignored (`token, _ := Token()`): a value
//	                containing '&' or '<', a ']]>', a control character, a mismatched or
//	                unterminated tag => nil with the rest (or all) of the document dropped.
//	D-C17-longline  a line of >= 64 KiB makes bufio.Scanner stop (ErrTooLong, ignored):
//	                that line and the rest of the character-data block are dropped, nil.
//	D-C17-collide   a key and a sub-domain of the same name in one domain share one map
//	                slot: one silently replaces / hides the other.
//
// Switch: with VERIF_C17_ASSUME_FIXED unset, documents of exactly these three classes are
// only checked for "no panic" (counted with st.Excluded) and three pinned cases emit
// VERIF-KNOWN while the defects reproduce; with VERIF_C17_ASSUME_FIXED=1 nothing is
// excluded and the pinned cases are ordinary regression cases.
//
// Sensitivity (scratch worktree, quick tier; every mutant made ./check C17 exit 1).
// On the unchanged code, VERIF_C17_ASSUME_FIXED unset:
//
//	M1  strings.SplitN(line,"=",2) -> strings.Split(line,"=")       value
//	M2  '#' anywhere in the line starts a comment                   value / GetDomainLine
//	M3  values not trimmed                                          value
//	M4  earlier duplicate wins                                      value
//	M5  GetDomain omits the last sub-domain                         GetDomain
//	M6  GetIntWithDef returns 0 instead of the default (malformed)  typed
//	M7  keys lower-cased when stored                                GetDomainKey
//	M8  repeated domain replaces instead of merging                 GetDomain
//	M9  comment lines kept in GetDomainLine                         GetDomainLine
//	M10 GetInt32WithDef parses with bitSize 64 (truncates)          typed
//	M12 GetBoolWithDef false / M13 GetFloatWithDef 0 on malformed   typed
//	M14 quotes trimmed like blanks                                  GetDomainLine
//	M15 line without '=' defines no key                             GetDomainKey
//	M19 GetStringWithDef returns "" for an absent key               value
//	M21 GetDomainLine holds untrimmed lines                         GetDomainLine
//	M22 empty key stored as key ""                                  GetDomainKey
//	M23 last line without terminator lost                           GetDomainKey
//
// With VERIF_C17_ASSUME_FIXED=1:
//
//	M11 unchanged tree (token errors ignored = D-C17-silent etc.)   silently-partial in
//	    classB, classC, malformed, pinned; long line in classA
//	F1  proposed fix without the scanner buffer/Err part            classA long line
//	F2  proposed fix with syntax errors ignored again               silently-partial
//	F3  proposed fix with the single child map again                silently-partial (C)
//	F4  panic when nesting > 5                                      panic
package c17

import (
	"encoding/json"
	"encoding/xml"
	"fmt"
	"io"
	"math"
	"math/big"
	mbits "math/bits"
	"os"
	"regexp"
	"sort"
	"strconv"
	"strings"
	"testing"
	"unicode/utf8"

	"github.com/TarsCloud/TarsGo/tars/util/conf"
	"pgregory.net/rapid"

	"verif/harness/stat"
)

// The three defects are repaired in the repository (KNOWN_FINDINGS.txt "fixed:"), so nothing is
// excluded by default; VERIF_C17_ASSUME_FIXED=0 re-enables the exclusions for older trees.
var assumeFixed = os.Getenv("VERIF_C17_ASSUME_FIXED") != "0"

var st = stat.New("C17",
	"documents rendered from a generated line list (open/close tag, key=value, '#' comment, blank): nesting 0..6, small shared name pools so that domains repeat (merge) and keys repeat (later wins), keys without '=', empty keys, values containing '=' and '#', space/tab padding at all four positions, LF/CRLF/mixed terminators, optional missing final terminator, top-level keys, case-different names, non-ASCII names, occasional >=64KiB line. Class A: full printable alphabet without & and < (no ]]>, no control characters). Class B: plain alphabet (additionally without > and quotes) plus ONE explicit hostile fragment per hostile line (bare &, bad/valid entities, <, unclosed/unmatched/self-closed tags, ]]>, control characters, U+FFFE, quotes, one-line comment/CDATA/PI) in value, key or comment. Class C: class A plus at least one key/sub-domain name collision (both orders). Malformed: plain class-A document with one edit (dropped/renamed close tag, dropped open tag, truncation ending in a partial tag, inserted junk line of markup-biased random bytes). Pure random byte strings: no-panic only. The model is computed from the line list, not from text. Non-trivial = depth>=2 AND duplicate key AND comment line AND value containing '='. Distinct = distinct document text.",
	"blanks are space and tab (the only padding generated); values/keys never begin or end with other Unicode white space",
	"text is silent, modelled as the code documents/does: a line without '=' is a key with value \"\"; a line with an empty key ('=v') appears in GetDomainLine but defines no key; GetDomainLine holds the trimmed raw lines (inner blanks kept) without comment and blank lines, in document order across merged occurrences; names are case-sensitive; a path ends in <key> or /<key>, a domain path may end in '/'",
	"typed getters: decimal integer literals (optional sign, leading zeros) are valid, out-of-range literals yield the default (GetInt32WithDef: int32 range); bool literals are those of strconv.ParseBool; float literals are plain decimal/exponent forms (reference value strconv.ParseFloat); base prefixes, underscores, inf/nan, yes/no/on/off are undecided and not asserted",
	"keys containing '/' are asserted through GetMap/GetDomainKey/GetDomainLine only (not addressable by the path syntax); keys never contain '<' '>' '=' and never start with '#'",
	"class B / malformed never contain an XML construct that is well-formed yet spans several lines (multi-line comment/PI/directive/attribute value or an open tag closed by a later line): for the XML tokenizer such text is a different grammatical document, the minimal fix cannot detect it (residual risk, see report)",
	"a document containing a line >= 64 KiB may be rejected with an error; if accepted it must be exact",
	"with VERIF_C17_ASSUME_FIXED unset the presence/exact oracle is skipped (no-panic only, counted under 'excluded') for: documents that are not well-formed for encoding/xml (D-C17-silent), documents with a line >= 64 KiB (D-C17-longline), documents with a key/sub-domain collision (D-C17-collide)")

// ------------------------------------------------------------------------- case

const (
	tOpen = iota
	tClose
	tKV
	tComment
	tBlank
	tRaw
)

// Line is one generated line. Rendered as P[0] + body + P[3] + E where body is
// <N> | </N> | N P[1] = P[2] V (Eq) | N (!Eq) | #V | "" | Raw. R>1 repeats V R times.
type Line struct {
	T   int       `json:"t"`
	N   string    `json:"n,omitempty"`
	Eq  bool      `json:"eq,omitempty"`
	V   string    `json:"v,omitempty"`
	R   int       `json:"r,omitempty"`
	P   [4]string `json:"p"`
	Raw []byte    `json:"raw,omitempty"`
	E   string    `json:"e"`
}

type Defaults struct {
	S   string  `json:"s"`
	I   int     `json:"i"`
	I32 int32   `json:"i32"`
	F   float64 `json:"f"`
}

// Case is one document plus the probes. Edit: "" (none), "junk" (raw lines inserted, all
// other lines keep their meaning) or "struct" (tags edited / truncated: only the first
// Prefix lines keep their modelled place).
type Case struct {
	Class  string   `json:"class"`
	Lines  []Line   `json:"lines"`
	Edit   string   `json:"edit,omitempty"`
	Prefix int      `json:"prefix,omitempty"`
	Bytes  bool     `json:"bytes,omitempty"`
	Slash  bool     `json:"slash,omitempty"`
	Def    Defaults `json:"def"`
	Absent []string `json:"absent,omitempty"`
}

func (l Line) value() string {
	if l.R > 1 {
		return strings.Repeat(l.V, l.R)
	}
	return l.V
}

func (l Line) body() string {
	switch l.T {
	case tOpen:
		return "<" + l.N + ">"
	case tClose:
		return "</" + l.N + ">"
	case tKV:
		if l.Eq {
			return l.N + l.P[1] + "=" + l.P[2] + l.value()
		}
		return l.N
	case tComment:
		return "#" + l.V
	case tRaw:
		return string(l.Raw)
	}
	return ""
}

func render(lines []Line) string {
	var sb strings.Builder
	for _, l := range lines {
		sb.WriteString(l.P[0])
		sb.WriteString(l.body())
		sb.WriteString(l.P[3])
		sb.WriteString(l.E)
	}
	return sb.String()
}

func trimBlanks(s string) string { return strings.Trim(s, " \t") }

// xmlChar: the Char production of XML 1.0.
func xmlChar(r rune) bool {
	return r == 0x09 || r == 0x0A || r == 0x0D || (r >= 0x20 && r <= 0xD7FF) || (r >= 0xE000 && r <= 0xFFFD) || (r >= 0x10000 && r <= 0x10FFFF)
}

// hostile reports text that is not neutral for an XML tokenizer.
func hostile(s string) bool {
	if strings.ContainsAny(s, "&<\r") || strings.Contains(s, "]]>") || !utf8.ValidString(s) {
		return true
	}
	for _, r := range s {
		if !xmlChar(r) {
			return true
		}
	}
	return false
}

// ------------------------------------------------------------------------- model

type dom struct {
	path     []string
	subs     []string
	subSet   map[string]bool
	keys     map[string]string // later duplicates win
	keyNames []string          // first-occurrence order (determinism)
	neutKey  map[string]bool   // key written at least once with neutral key text
	lines    []string          // all key=value lines, trimmed
	neutLine []string          // the XML-neutral ones
	dupKey   bool
}

type model struct {
	doms     map[string]*dom // "/" joined path, root = ""
	order    []string
	depth    int
	hostile  bool
	raw      bool
	collide  bool
	long     bool
	cls      map[string]bool
	allNeut  []string // every XML-neutral key=value line of the WHOLE line list
	modelled int
}

func (m *model) get(path []string) *dom {
	k := strings.Join(path, "/")
	d, ok := m.doms[k]
	if !ok {
		d = &dom{path: append([]string(nil), path...), subSet: map[string]bool{}, keys: map[string]string{}, neutKey: map[string]bool{}}
		m.doms[k] = d
		m.order = append(m.order, k)
	}
	return d
}

// build walks the first n lines (open domains are implicitly closed at the end) and
// scans all lines for the class flags.
func build(c Case) *model {
	m := &model{doms: map[string]*dom{}, cls: map[string]bool{}}
	n := len(c.Lines)
	if c.Edit == "struct" {
		n = c.Prefix
		if n > len(c.Lines) {
			n = len(c.Lines)
		}
	}
	m.modelled = n
	var stack []string
	m.get(nil)
	crlf, lf := false, false
	for i, l := range c.Lines {
		if l.E == "\r\n" {
			crlf = true
		} else if l.E == "\n" {
			lf = true
		}
		switch l.T {
		case tRaw:
			m.raw = true
		case tKV:
			whole := l.body()
			if hostile(whole) {
				m.hostile = true
			} else {
				m.allNeut = append(m.allNeut, trimBlanks(whole))
			}
			if len(whole) >= 65000 {
				m.long = true
			}
		case tComment:
			if hostile(l.V) {
				m.hostile = true
			}
		}
		if i >= n {
			continue
		}
		switch l.T {
		case tOpen:
			d := m.get(stack)
			if d.subSet[l.N] {
				m.cls["merged-domain"] = true
			} else {
				d.subSet[l.N] = true
				d.subs = append(d.subs, l.N)
			}
			stack = append(stack, l.N)
			m.get(stack)
			if len(stack) > m.depth {
				m.depth = len(stack)
			}
		case tClose:
			if len(stack) > 0 {
				stack = stack[:len(stack)-1]
			}
		case tKV:
			d := m.get(stack)
			whole := l.body()
			d.lines = append(d.lines, trimBlanks(whole))
			if !hostile(whole) {
				d.neutLine = append(d.neutLine, trimBlanks(whole))
			}
			if !l.Eq {
				m.cls["no-eq-key"] = true
			}
			if l.N == "" {
				m.cls["empty-key"] = true
				break
			}
			v := ""
			if l.Eq {
				v = l.value()
				if strings.Contains(v, "=") {
					m.cls["value-has-eq"] = true
				}
				if strings.Contains(v, "#") {
					m.cls["value-has-#"] = true
				}
				if l.P[1] != "" || l.P[2] != "" {
					m.cls["blanks-around-eq"] = true
				}
			}
			if l.P[0] != "" || l.P[3] != "" {
				m.cls["line-padding"] = true
			}
			if _, dup := d.keys[l.N]; dup {
				d.dupKey = true
				m.cls["dup-key"] = true
			} else {
				d.keyNames = append(d.keyNames, l.N)
			}
			d.keys[l.N] = v
			if !hostile(l.N) {
				d.neutKey[l.N] = true
			}
			if len(stack) == 0 {
				m.cls["top-level-key"] = true
			}
			if strings.Contains(l.N, "/") {
				m.cls["slash-key"] = true
			}
		case tComment:
			m.cls["comment"] = true
		case tBlank:
			m.cls["blank-line"] = true
		}
	}
	for _, k := range m.order {
		d := m.doms[k]
		for name := range d.keys {
			if d.subSet[name] {
				m.collide = true
			}
		}
	}
	if crlf {
		m.cls["crlf"] = true
		if lf {
			m.cls["mixed-eol"] = true
		}
	}
	if m.depth >= 2 {
		m.cls["depth>=2"] = true
	}
	if m.depth >= 5 {
		m.cls["depth>=5"] = true
	}
	if m.long {
		m.cls["long-line"] = true
	}
	return m
}

func basePath(p []string) string {
	if len(p) == 0 {
		return ""
	}
	return "/" + strings.Join(p, "/")
}

func listPath(p []string, slash bool) string {
	b := basePath(p)
	if slash || b == "" {
		return b + "/"
	}
	return b
}

func keyPath(p []string, key string, slash bool) string {
	b := basePath(p)
	if slash {
		return b + "/<" + key + ">"
	}
	return b + "<" + key + ">"
}

func addressable(key string) bool { return key != "" && !strings.ContainsAny(key, "/<>") }

// ------------------------------------------------------------------------- typed oracles

const (
	undecided = iota
	valid
	useDefault
)

var (
	reInt    = regexp.MustCompile(`^[+-]?[0-9]+$`)
	reFloat  = regexp.MustCompile(`^[+-]?([0-9]+\.?[0-9]*|\.[0-9]+)([eE][+-]?[0-9]+)?$`)
	reBaseUS = regexp.MustCompile(`(?i)^[+-]?0[xbo]|_`)
	reYesNo  = regexp.MustCompile(`(?i)^(y|n|yes|no|on|off|enable|disable|enabled|disabled|true|false|t|f)$`)
)

func expInt(v string, bits int) (int64, int) {
	if reInt.MatchString(v) {
		n, ok := new(big.Int).SetString(v, 10)
		if !ok {
			return 0, undecided
		}
		if !n.IsInt64() {
			return 0, useDefault
		}
		x := n.Int64()
		if bits == 32 && (x > math.MaxInt32 || x < math.MinInt32) {
			return 0, useDefault
		}
		return x, valid
	}
	if reBaseUS.MatchString(v) {
		return 0, undecided
	}
	return 0, useDefault
}

func expBool(v string) (bool, int) {
	switch v {
	case "1", "t", "T", "TRUE", "true", "True":
		return true, valid
	case "0", "f", "F", "FALSE", "false", "False":
		return false, valid
	}
	if reYesNo.MatchString(v) {
		return false, undecided
	}
	return false, useDefault
}

func expFloat(v string) (float64, int) {
	if reFloat.MatchString(v) {
		f, err := strconv.ParseFloat(v, 64)
		if err != nil {
			return 0, useDefault // out of range
		}
		return f, valid
	}
	lv := strings.ToLower(v)
	if strings.Contains(lv, "inf") || strings.Contains(lv, "nan") || strings.Contains(lv, "0x") || strings.Contains(lv, "_") {
		return 0, undecided
	}
	return 0, useDefault
}

// ------------------------------------------------------------------------- run

func xmlWellFormed(doc string) bool {
	d := xml.NewDecoder(strings.NewReader(doc))
	for {
		_, err := d.Token()
		if err == io.EOF {
			return true
		}
		if err != nil {
			return false
		}
	}
}

func sortedCopy(s []string) []string {
	c := append([]string(nil), s...)
	sort.Strings(c)
	return c
}

func sameSet(got, want []string) bool {
	g, w := sortedCopy(got), sortedCopy(want)
	if len(g) != len(w) {
		return false
	}
	for i := range g {
		if g[i] != w[i] {
			return false
		}
	}
	return true
}

func contains(s []string, x string) bool {
	for _, v := range s {
		if v == x {
			return true
		}
	}
	return false
}

func counts(s []string) map[string]int {
	m := map[string]int{}
	for _, v := range s {
		m[v]++
	}
	return m
}

func short(s string) string {
	if len(s) > 120 {
		return s[:120] + "...(" + strconv.Itoa(len(s)) + " bytes)"
	}
	return s
}

func shortList(s []string) string {
	if len(s) > 12 {
		return fmt.Sprintf("%q...(%d entries)", s[:12], len(s))
	}
	out := make([]string, len(s))
	for i, v := range s {
		out[i] = short(v)
	}
	return fmt.Sprintf("%q", out)
}

func parse(doc string, viaBytes bool) (c *conf.Conf, err error, pan any) {
	defer func() {
		if r := recover(); r != nil {
			pan = r
		}
	}()
	c = conf.New()
	if viaBytes {
		err = c.InitFromBytes([]byte(doc))
	} else {
		err = c.InitFromString(doc)
	}
	return
}

func run(c Case) *stat.Failure { return runCase(c, false) }

// runCase executes one case; force=true applies the oracle even to the excluded classes
// (used by the pinned known-defect cases).
func runCase(c Case, force bool) (fail *stat.Failure) {
	doc := render(c.Lines)
	m := build(c)
	structural := c.Edit == "struct"
	exact := !m.hostile && !m.raw && !m.collide && !structural

	classes := []string{"class-" + c.Class}
	for k := range m.cls {
		classes = append(classes, k)
	}
	if c.Edit != "" {
		classes = append(classes, "edit-"+c.Edit)
	}
	if exact {
		classes = append(classes, "oracle-exact")
	}
	sort.Strings(classes)
	nontrivial := m.cls["depth>=2"] && m.cls["dup-key"] && m.cls["comment"] && m.cls["value-has-eq"]

	cf, err, pan := parse(doc, c.Bytes)
	record := func(extra ...string) {
		st.Case([]byte(doc), nontrivial, func() any {
			b, _ := json.Marshal(c)
			return stat.Trunc(json.RawMessage(b))
		}, append(classes, extra...)...)
	}
	if pan != nil {
		record()
		return stat.Failf("panic", "InitFrom%s panicked: %v; document %q", map[bool]string{true: "Bytes", false: "String"}[c.Bytes], pan, short(doc))
	}
	defer func() {
		if r := recover(); r != nil {
			fail = stat.Failf("panic", "getter panicked: %v; document %q", r, short(doc))
		}
	}()

	if !assumeFixed && !force {
		excl := ""
		switch {
		case m.collide:
			excl = "D-C17-collide: key and sub-domain of the same name in one domain"
		case m.long:
			excl = "D-C17-longline: document with a line >= 64 KiB"
		case (m.hostile || m.raw || structural) && !xmlWellFormed(doc):
			excl = "D-C17-silent: document not well-formed for the XML tokenizer"
		}
		if excl != "" {
			st.Excluded(excl)
			nontrivial = false
			record("oracle-excluded(no-panic-only)")
			_ = cf.GetDomain("/")
			_ = cf.ToString()
			return nil
		}
	}

	if err != nil {
		if exact && !m.long {
			record()
			return stat.Failf("spurious-error", "grammatical XML-neutral document rejected: %v; document %q", err, short(doc))
		}
		record("error-returned")
		return nil
	}
	if exact {
		record("accepted")
		return checkExact(c, m, cf, doc)
	}
	record("accepted", "oracle-presence")
	return checkPresence(c, m, cf, doc, structural)
}

func checkExact(c Case, m *model, cf *conf.Conf, doc string) *stat.Failure {
	for _, k := range m.order {
		d := m.doms[k]
		lp := listPath(d.path, c.Slash)
		if got := cf.GetDomain(lp); !sameSet(got, d.subs) {
			return stat.Failf("GetDomain", "GetDomain(%q) = %s, written sub-domains %s; document %q", lp, shortList(got), shortList(d.subs), short(doc))
		}
		if got := cf.GetDomainKey(lp); !sameSet(got, d.keyNames) {
			return stat.Failf("GetDomainKey", "GetDomainKey(%q) = %s, written keys %s; document %q", lp, shortList(got), shortList(d.keyNames), short(doc))
		}
		gm := cf.GetMap(lp)
		if len(gm) != len(d.keys) {
			return stat.Failf("GetMap", "GetMap(%q) has %d entries, %d keys written; document %q", lp, len(gm), len(d.keys), short(doc))
		}
		for _, key := range d.keyNames {
			if gv, ok := gm[key]; !ok || gv != d.keys[key] {
				return stat.Failf("value", "GetMap(%q)[%q] = %q (present %v), written value %q; document %q", lp, key, short(gv), ok, short(d.keys[key]), short(doc))
			}
		}
		gl := cf.GetDomainLine(lp)
		if len(gl) != len(d.lines) {
			return stat.Failf("GetDomainLine", "GetDomainLine(%q) = %s, written lines %s; document %q", lp, shortList(gl), shortList(d.lines), short(doc))
		}
		for i := range gl {
			if gl[i] != d.lines[i] {
				return stat.Failf("GetDomainLine", "GetDomainLine(%q)[%d] = %q, written line %q; document %q", lp, i, short(gl[i]), short(d.lines[i]), short(doc))
			}
		}
		for _, key := range d.keyNames {
			if !addressable(key) {
				continue
			}
			if f := checkKey(c, cf, keyPath(d.path, key, c.Slash), d.keys[key], true, doc); f != nil {
				return f
			}
		}
		for _, key := range c.Absent {
			if _, ok := d.keys[key]; ok || d.subSet[key] || !addressable(key) {
				continue
			}
			if f := checkKey(c, cf, keyPath(d.path, key, c.Slash), "", false, doc); f != nil {
				return f
			}
		}
		// a domain that was never written lists nothing
		np := append(append([]string(nil), d.path...), "no-such-domain")
		if _, ok := d.keys["no-such-domain"]; !ok && !d.subSet["no-such-domain"] {
			p := listPath(np, c.Slash)
			if a, b, l, mp := cf.GetDomain(p), cf.GetDomainKey(p), cf.GetDomainLine(p), cf.GetMap(p); len(a)+len(b)+len(l)+len(mp) != 0 {
				return stat.Failf("absent-domain", "listings of the unwritten domain %q are not empty: %q %q %q %q; document %q", p, a, b, l, mp, short(doc))
			}
		}
	}
	return nil
}

// checkKey asserts all scalar getters for one key path. present=false: the key was not
// written, every getter must give its default.
func checkKey(c Case, cf *conf.Conf, p string, want string, present bool, doc string) *stat.Failure {
	wantS, wantSD := want, want
	if !present {
		wantS, wantSD = "", c.Def.S
	}
	if got := cf.GetString(p); got != wantS {
		return stat.Failf("value", "GetString(%q) = %q, want %q (key written: %v); document %q", p, short(got), short(wantS), present, short(doc))
	}
	if got := cf.GetStringWithDef(p, c.Def.S); got != wantSD {
		return stat.Failf("value", "GetStringWithDef(%q,%q) = %q, want %q (key written: %v); document %q", p, c.Def.S, short(got), short(wantSD), present, short(doc))
	}
	// int
	iv, ik := int64(0), useDefault
	if present {
		iv, ik = expInt(want, strconv.IntSize)
	}
	if ik != undecided {
		wd, w0 := int64(c.Def.I), int64(0)
		if ik == valid {
			wd, w0 = iv, iv
		}
		if got := cf.GetIntWithDef(p, c.Def.I); int64(got) != wd {
			return stat.Failf("typed", "GetIntWithDef(%q,%d) = %d, want %d (stored value %q, written %v); document %q", p, c.Def.I, got, wd, short(want), present, short(doc))
		}
		if got := cf.GetInt(p); int64(got) != w0 {
			return stat.Failf("typed", "GetInt(%q) = %d, want %d (stored value %q, written %v); document %q", p, got, w0, short(want), present, short(doc))
		}
	}
	iv, ik = 0, useDefault
	if present {
		iv, ik = expInt(want, 32)
	}
	if ik != undecided {
		wd := int64(c.Def.I32)
		if ik == valid {
			wd = iv
		}
		if got := cf.GetInt32WithDef(p, c.Def.I32); int64(got) != wd {
			return stat.Failf("typed", "GetInt32WithDef(%q,%d) = %d, want %d (stored value %q, written %v); document %q", p, c.Def.I32, got, wd, short(want), present, short(doc))
		}
	}
	bv, bk := false, useDefault
	if present {
		bv, bk = expBool(want)
	}
	if bk != undecided {
		for _, def := range []bool{true, false} {
			w := def
			if bk == valid {
				w = bv
			}
			if got := cf.GetBoolWithDef(p, def); got != w {
				return stat.Failf("typed", "GetBoolWithDef(%q,%v) = %v, want %v (stored value %q, written %v); document %q", p, def, got, w, short(want), present, short(doc))
			}
		}
	}
	fv, fk := 0.0, useDefault
	if present {
		fv, fk = expFloat(want)
	}
	if fk != undecided {
		w := c.Def.F
		if fk == valid {
			w = fv
		}
		if got := cf.GetFloatWithDef(p, c.Def.F); got != w {
			return stat.Failf("typed", "GetFloatWithDef(%q,%v) = %v, want %v (stored value %q, written %v); document %q", p, c.Def.F, got, w, short(want), present, short(doc))
		}
	}
	return nil
}

func checkPresence(c Case, m *model, cf *conf.Conf, doc string, structural bool) *stat.Failure {
	const sig = "silently-partial"
	for _, k := range m.order {
		d := m.doms[k]
		lp := listPath(d.path, c.Slash)
		if len(d.path) > 0 {
			pp := listPath(d.path[:len(d.path)-1], c.Slash)
			if got := cf.GetDomain(pp); !contains(got, d.path[len(d.path)-1]) {
				return stat.Failf(sig, "InitFromString returned nil but domain %q is missing: GetDomain(%q) = %s; document %q", basePath(d.path), pp, shortList(got), short(doc))
			}
		}
		gk := cf.GetDomainKey(lp)
		gm := cf.GetMap(lp)
		for _, key := range d.keyNames {
			if !d.neutKey[key] {
				continue
			}
			if _, ok := gm[key]; !ok || !contains(gk, key) {
				return stat.Failf(sig, "InitFromString returned nil but key %q of domain %q is missing: GetDomainKey = %s; document %q", key, lp, shortList(gk), short(doc))
			}
		}
		gl := cf.GetDomainLine(lp)
		gc := counts(gl)
		for line, n := range counts(d.neutLine) {
			if gc[line] < n {
				return stat.Failf(sig, "InitFromString returned nil but line %q of domain %q is missing (%d of %d): GetDomainLine = %s; document %q", short(line), lp, gc[line], n, shortList(gl), short(doc))
			}
		}
		if len(gl) < len(d.lines) {
			return stat.Failf(sig, "InitFromString returned nil but domain %q lists %d lines, %d were written: %s; document %q", lp, len(gl), len(d.lines), shortList(gl), short(doc))
		}
	}
	if structural {
		// every XML-neutral key=value line of the whole text must be listed somewhere
		all := map[string]int{}
		var walk func(p []string, depth int)
		walk = func(p []string, depth int) {
			for _, l := range cf.GetDomainLine(listPath(p, false)) {
				all[l]++
			}
			if depth > 64 {
				return
			}
			for _, s := range sortedCopy(cf.GetDomain(listPath(p, false))) {
				walk(append(append([]string(nil), p...), s), depth+1)
			}
		}
		walk(nil, 0)
		want := counts(m.allNeut)
		keys := make([]string, 0, len(want))
		for l := range want {
			keys = append(keys, l)
		}
		sort.Strings(keys)
		for _, l := range keys {
			if all[l] < want[l] {
				return stat.Failf(sig, "InitFromString returned nil for a document with broken tags but line %q is listed in no domain (%d of %d); document %q", short(l), all[l], want[l], short(doc))
			}
		}
	}
	return nil
}

// ------------------------------------------------------------------------- generators

var (
	blankList = []string{"", "", "", " ", "  ", "\t", " \t", "\t \t", "        "}

	domPool = []string{"a", "A", "k", "b", "tars", "application", "server", "client", "x.y", "Obj-1", "_d", "T.S.ObjAdapter", "é", "中"}
	keyPool = []string{"a", "A", "k", "b", "key", "Key", "endpoint", "locator", "node", "sample-rate", "x.y", "k_1", "a b", "allow", "1", "172.6.8.11", "server", "_d", "é"}

	nameFirst = []rune("abcdefghijklmnopqrstuvwxyzABCDEFGHIJKLMNOPQRSTUVWXYZ_")
	nameRest  = []rune("abcdefghijklmnopqrstuvwxyzABCDEFGHIJKLMNOPQRSTUVWXYZ_0123456789.-")

	fullAlpha  = alphabet("")
	plainAlpha = alphabet(">\"'")
	keyAlphaF  = alphabet("=/>")
	keyAlphaP  = alphabet("=/>\"'")

	// one fragment per hostile line; every fragment is either complete on its line or
	// makes the document ill-formed (never pairs with text of a later line)
	fragments = []string{
		"&", "&&", "& ", "&x", "&nosuch;", "&#;", "&amp", // bad references
		"<", "< ", "<1", "<zq", "<zq>", "</zc>", "<zq x>", "]]>", // bad markup
		"\x01", "\x00", "\x0c", "\x1b", "\ufffe", // not XML characters
		"&amp;", "&lt;", "&gt;", "&quot;", "&#65;", "<zq/>", "<zq></zq>", "<!--c-->", "<![CDATA[~c]]>", "<?pi c?>", // well-formed, one line
		"\"", "'", "\"q\"", "'q'", // quotes (harmless in character data)
	}
)

// alphabet: printable ASCII without '&', '<' and the given runes, plus some non-ASCII.
func alphabet(without string) []rune {
	var r []rune
	for c := rune(0x20); c <= 0x7e; c++ {
		if c == '&' || c == '<' || strings.ContainsRune(without, c) {
			continue
		}
		r = append(r, c)
	}
	return append(r, 'é', 'ü', '中', '😀', '\u00a0', ' ', '\t')
}

func clean(s string) string {
	for strings.Contains(s, "]]>") {
		s = strings.ReplaceAll(s, "]]>", "]] >")
	}
	return strings.TrimSpace(s)
}

type gen struct {
	rt       *rapid.T
	class    string
	plain    bool
	lines    []Line
	keys     map[string]map[string]bool
	subs     map[string]map[string]bool
	maxDepth int
	budget   int
	eolMode  int
	hostile  int
	collided bool
	longDone bool
}

// rapid's integer generators are strongly biased towards small values and the bounds; the
// structural choices below need roughly uniform weights, so they are built from single
// (unbiased) bits. Shrinking still drives every choice towards 0 = the simplest option.
func (g *gen) bits(k int, label string) int {
	v := 0
	for i := 0; i < k; i++ {
		v <<= 1
		if rapid.Bool().Draw(g.rt, label) {
			v |= 1
		}
	}
	return v
}

func (g *gen) pct(label string) int { return g.bits(10, label) * 100 / 1024 }

func (g *gen) upto(label string, n int) int {
	if n <= 0 {
		return 0
	}
	return g.bits(mbits.Len(uint(n))+4, label) % (n + 1)
}

func pick[T any](g *gen, label string, s []T) T { return s[g.upto(label, len(s)-1)] }

func (g *gen) eol() string {
	switch g.eolMode {
	case 0:
		return "\n"
	case 1:
		return "\r\n"
	}
	if rapid.Bool().Draw(g.rt, "crlf") {
		return "\r\n"
	}
	return "\n"
}

func (g *gen) set(m map[string]map[string]bool, path string) map[string]bool {
	s, ok := m[path]
	if !ok {
		s = map[string]bool{}
		m[path] = s
	}
	return s
}

// junkLetters are the only letters junk lines and hostile fragments may contain; generated
// names always contain another letter, so injected text never equals a generated name.
const junkAlphabet = "zqcpix<>/&=#! \n\r\t?-[]\"';:~.,0123456789\x00\x01\x0b\x1b\x7f\x80\xc0\xff"

func junkOnly(s string) bool {
	for i := 0; i < len(s); i++ {
		if !strings.Contains(junkAlphabet, s[i:i+1]) {
			return false
		}
	}
	return true
}

func xmlNameOK(s string) bool {
	if s == "" || junkOnly(s) || strings.Contains(s, "--") || strings.HasSuffix(s, "-") {
		return false
	}
	for i, r := range s {
		ok := r == '_' || (r >= 'a' && r <= 'z') || (r >= 'A' && r <= 'Z') || r == 'é' || r == '中'
		if i > 0 {
			ok = ok || (r >= '0' && r <= '9') || r == '.' || r == '-'
		}
		if !ok {
			return false
		}
	}
	return true
}

func sortedKeys(m map[string]bool) []string {
	var s []string
	for k := range m {
		s = append(s, k)
	}
	sort.Strings(s)
	return s
}

func (g *gen) domName(path string) string {
	rt := g.rt
	keys, subs := g.set(g.keys, path), g.set(g.subs, path)
	var name string
	switch {
	case g.class == "C" && len(keys) > 0 && g.pct("collideD")/10 < 5:
		var cand []string
		for _, k := range sortedKeys(keys) {
			if xmlNameOK(k) {
				cand = append(cand, k)
			}
		}
		if len(cand) > 0 {
			name = pick(g, "dname", cand)
			break
		}
		fallthrough
	default:
		if g.pct("dpool")/10 < 8 {
			name = pick(g, "dname", domPool)
		} else {
			name = string(rapid.RuneFrom(nameFirst).Draw(rt, "d0")) + rapid.StringOfN(rapid.RuneFrom(nameRest), 0, 6, -1).Draw(rt, "drest")
			if !xmlNameOK(name) {
				name = "d" + strings.ReplaceAll(strings.TrimRight(name, "-"), "--", "-.")
				if !xmlNameOK(name) {
					name = "dom"
				}
			}
		}
	}
	if keys[name] {
		if g.class == "C" {
			g.collided = true
		} else {
			for keys[name] {
				name += "_d"
			}
		}
	}
	subs[name] = true
	return name
}

func (g *gen) keyName(path string) string {
	rt := g.rt
	keys, subs := g.set(g.keys, path), g.set(g.subs, path)
	var key string
	r := g.pct("kmode")
	switch {
	case g.class == "C" && len(subs) > 0 && r < 30:
		key = pick(g, "key", sortedKeys(subs))
	case len(keys) > 0 && r >= 30 && r < 55:
		key = pick(g, "key", sortedKeys(keys)) // duplicate: later wins
	case r < 88:
		key = pick(g, "key", keyPool)
	case r < 92 && !g.plain:
		key = "/" + pick(g, "key", []string{"usr/local/app", "a", "x/y z"})
	default:
		al := keyAlphaF
		if g.plain {
			al = keyAlphaP
		}
		key = clean(rapid.StringOfN(rapid.RuneFrom(al), 1, 8, -1).Draw(rt, "key"))
		for strings.HasPrefix(key, "#") {
			key = clean(strings.TrimLeft(key, "#"))
		}
		if key == "" || junkOnly(key) {
			key = "rk" + key
		}
	}
	if subs[key] {
		if g.class == "C" {
			g.collided = true
		} else {
			for subs[key] {
				key += "_k"
			}
		}
	}
	keys[key] = true
	return key
}

var (
	intVals   = []string{"0", "1", "-1", "42", "+7", "007", "-0", "60000", "2147483647", "2147483648", "-2147483648", "-2147483649", "4294967296", "9223372036854775807", "9223372036854775808", "-9223372036854775808", "-9223372036854775809", "123456789012345678901234567890"}
	boolVals  = []string{"true", "false", "1", "0", "t", "f", "T", "F", "TRUE", "FALSE", "True", "False"}
	floatVals = []string{"1.5", "-0.25", ".5", "5.", "1e3", "1E-3", "-2.5e+10", "0.1", "3.141592653589793", "1e400", "-1e400", "1e-400", "100"}
	badVals   = []string{"", "12abc", "abc", "1.2.3", "--1", "+-1", "tru", "truee", "maybe", "2", "1,5", "1 2", "- 1", "1e", "e3", "٣", "１２", "nil"}
	textVals  = []string{"tcp -h 127.0.0.1 -p 10015 -t 60000", "tars.tarsregistry.QueryObj@tcp -h 10.0.0.1 -p 17890", "/usr/local/app/tars/app_log/", "a=b", "x==y=", "=lead", "trail=", "YWJj==", "k=v=w", "1 #hello test", "#abc", "a#b", "15M", "..", "N", "中文 值", "a\tb"}
	fullVals  = []string{"a>b", "->", "]]", "]>", "\"quoted\"", "it's", "x=\"1\" y='2'", "a>=b", "1>0"}
)

func (g *gen) value() string {
	rt := g.rt
	r := g.pct("vmode")
	var v string
	switch {
	case r < 12:
		v = pick(g, "v", intVals)
	case r < 18:
		v = strconv.FormatInt(rapid.Int64().Draw(rt, "v"), 10)
	case r < 24:
		v = strconv.Itoa(rapid.IntRange(-100000, 100000).Draw(rt, "v"))
	case r < 32:
		v = pick(g, "v", boolVals)
	case r < 38:
		v = pick(g, "v", floatVals)
	case r < 42:
		f := rapid.Float64().Draw(rt, "v")
		if math.IsNaN(f) || math.IsInf(f, 0) {
			f = 0.5
		}
		v = strconv.FormatFloat(f, byte(pick(g, "fmt", []rune{'g', 'e', 'f'})), -1, 64)
		if len(v) > 400 {
			v = "1.25"
		}
	case r < 52:
		v = pick(g, "v", badVals)
	case r < 70:
		v = pick(g, "v", textVals)
	case r < 78 && !g.plain:
		v = pick(g, "v", fullVals)
	default:
		al := fullAlpha
		if g.plain {
			al = plainAlpha
		}
		v = clean(rapid.StringOfN(rapid.RuneFrom(al), 0, 14, -1).Draw(rt, "v"))
	}
	return v
}

func (g *gen) text() string {
	al := fullAlpha
	if g.plain {
		al = plainAlpha
	}
	return clean(rapid.StringOfN(rapid.RuneFrom(al), 0, 10, -1).Draw(g.rt, "txt"))
}

// post is the text after a hostile fragment: it starts with '~' (never part of a generated
// domain name, so text split off by a tag-like fragment cannot collide with a sub-domain) and
// contains neither '=' nor '/'.
func (g *gen) post(mayBeEmpty bool) string {
	if mayBeEmpty {
		switch g.pct("postmode") / 25 {
		case 0:
			return ""
		case 1:
			return "z"
		}
	}
	t := strings.NewReplacer("=", "", "/", "").Replace(g.text())
	return trimBlanks("~" + t)
}

func (g *gen) pads(l *Line) {
	if g.pct("padded")/10 < 6 {
		for i := range l.P {
			l.P[i] = pick(g, "pad", blankList)
		}
	}
}

func (g *gen) frag() string { return pick(g, "frag", fragments) }

func (g *gen) kv(path string) {
	rt := g.rt
	l := Line{T: tKV, E: g.eol(), Eq: true}
	form := g.pct("form") / 5
	switch {
	case form == 0:
		l.N = "" // "=v": listed as a line, defines no key
		l.V = g.value()
	case form <= 2:
		l.N, l.Eq = g.keyName(path), false
	default:
		l.N = g.keyName(path)
		l.V = g.value()
	}
	if !l.Eq && l.N == "" {
		l.N = "k"
	}
	g.pads(&l)
	if !l.Eq {
		l.P[1], l.P[2] = "", ""
	}
	if g.class == "A" && !g.longDone && l.Eq && g.bits(9, "long") == 511 {
		l.V, l.R = "x", rapid.IntRange(65536, 70000).Draw(rt, "longlen")
		g.longDone = true
	}
	if g.class == "B" && g.pct("hostile")/10 < 3 {
		g.hostile++
		f := g.frag()
		if l.Eq && g.pct("inval")/10 < 8 {
			// fragment inside the value; the text after it holds no '='
			l.V = trimBlanks(l.V) + f + g.post(true)
		} else {
			// fragment inside the key, after a non-empty neutral prefix
			pre := l.N
			if pre == "" {
				pre = "hk"
			}
			l.N = pre + f + g.post(false)
		}
	}
	g.lines = append(g.lines, l)
}

func (g *gen) comment() {
	l := Line{T: tComment, E: g.eol(), V: g.text()}
	if rapid.Bool().Draw(g.rt, "likekv") {
		l.V = " " + pick(g, "ck", keyPool) + "=" + g.value()
	}
	if g.class == "B" && g.pct("hostileC")/10 < 2 {
		g.hostile++
		l.V += g.frag() + g.post(false)
	}
	if rapid.Bool().Draw(g.rt, "cpad") {
		l.P[0] = pick(g, "pad", blankList)
		l.P[3] = pick(g, "pad", blankList)
	}
	g.lines = append(g.lines, l)
}

func (g *gen) blank() {
	l := Line{T: tBlank, E: g.eol()}
	l.P[0] = pick(g, "pad", blankList)
	g.lines = append(g.lines, l)
}

func (g *gen) sub(path []string, spine bool) {
	name := g.domName(strings.Join(path, "/"))
	o := Line{T: tOpen, N: name, E: g.eol()}
	cl := Line{T: tClose, N: name}
	if rapid.Bool().Draw(g.rt, "tagpad") {
		o.P[0], o.P[3] = pick(g, "pad", blankList), pick(g, "pad", blankList)
		cl.P[0], cl.P[3] = pick(g, "pad", blankList), pick(g, "pad", blankList)
	}
	g.lines = append(g.lines, o)
	g.body(append(append([]string(nil), path...), name), spine)
	cl.E = g.eol()
	g.lines = append(g.lines, cl)
}

func (g *gen) body(path []string, spine bool) {
	depth := len(path)
	n := pick(g, "items", []int{0, 1, 2, 3, 3, 4, 5, 6, 7})
	spineAt := -1
	if spine && depth < g.maxDepth {
		spineAt = g.upto("spineAt", n)
	}
	p := strings.Join(path, "/")
	for i := 0; i <= n; i++ {
		if i == spineAt {
			g.sub(path, true)
		}
		if i == n || g.budget <= 0 {
			continue
		}
		g.budget--
		r := g.pct("item")
		switch {
		case r < 52:
			g.kv(p)
		case r < 64:
			g.comment()
		case r < 70:
			g.blank()
		default:
			if depth < g.maxDepth {
				g.sub(path, false)
			} else {
				g.kv(p)
			}
		}
	}
}

func drawDoc(rt *rapid.T, class string) *gen {
	g := &gen{rt: rt, class: class, plain: class == "B" || class == "M",
		keys: map[string]map[string]bool{}, subs: map[string]map[string]bool{}}
	g.maxDepth = pick(g, "maxDepth", []int{0, 1, 2, 2, 3, 3, 4, 5, 6})
	g.budget = pick(g, "budget", []int{4, 8, 12, 20, 30, 45, 60})
	g.eolMode = pick(g, "eolMode", []int{0, 0, 1, 2})
	g.body(nil, g.pct("spine")/10 < 7)
	return g
}

func finish(rt *rapid.T, g *gen, c *Case) {
	c.Lines = g.lines
	if n := len(c.Lines); n > 0 && c.Lines[n-1].T != tRaw && g.pct("noFinalEOL") < 20 {
		c.Lines[n-1].E = ""
	}
	c.Bytes = rapid.Bool().Draw(rt, "viaBytes")
	c.Slash = rapid.Bool().Draw(rt, "slash")
	c.Def = Defaults{
		S:   pick(g, "defS", []string{"DEF", "", "0", "default value", "tcp -h 127.0.0.1"}),
		I:   pick(g, "defI", []int{-7, 10000, 1, -1000, 77, math.MaxInt32, math.MinInt64, 0}),
		I32: pick(g, "defI32", []int32{-7, 200000, 1, math.MaxInt32, math.MinInt32, 0, 12345}),
		F:   pick(g, "defF", []float64{-1.5, 0, 1, 0.25, 1e100, -3}),
	}
	c.Absent = rapid.SliceOfN(rapid.SampledFrom(append([]string{"nosuchkey", "Endpoint", "KEY", "x"}, keyPool...)), 1, 4).Draw(rt, "absent")
}

func drawA(rt *rapid.T) Case {
	g := drawDoc(rt, "A")
	c := Case{Class: "A"}
	finish(rt, g, &c)
	return c
}

func drawB(rt *rapid.T) Case {
	g := drawDoc(rt, "B")
	if g.hostile == 0 {
		g.lines = append(g.lines, Line{T: tKV, N: "hk", Eq: true, V: "a" + g.frag() + "~b", E: g.eol()})
	}
	c := Case{Class: "B"}
	finish(rt, g, &c)
	return c
}

func drawC(rt *rapid.T) Case {
	g := drawDoc(rt, "C")
	if !g.collided {
		e := g.eol()
		kv := Line{T: tKV, N: "zz", Eq: true, V: "1", E: e}
		blk := []Line{{T: tOpen, N: "zz", E: e}, {T: tKV, N: "k", Eq: true, V: "2", E: e}, {T: tClose, N: "zz", E: e}}
		if rapid.Bool().Draw(rt, "keyFirst") {
			g.lines = append(append(g.lines, kv), blk...)
		} else {
			g.lines = append(append(g.lines, blk...), kv)
		}
	}
	c := Case{Class: "C"}
	finish(rt, g, &c)
	return c
}

// junkByte: markup-biased bytes for junk lines inside a modelled document (letters
// restricted to junkAlphabet so that injected keys/tags cannot collide with generated names).
var junkByte = rapid.OneOf(
	rapid.SampledFrom([]byte("<<<>>>//&&==##  \n\r\t!?-[]\"'zq;:~")),
	rapid.SampledFrom([]byte(junkAlphabet)),
)

// anyByte: for the pure random-bytes sub-check (no model).
var anyByte = rapid.OneOf(
	rapid.SampledFrom([]byte("<<<>>>//&&==##  \n\r\t!?-[]\"'abkzq;:x")),
	rapid.Byte(),
)

func drawM(rt *rapid.T) Case {
	g := drawDoc(rt, "M")
	c := Case{Class: "M"}
	lines := g.lines
	var tags []int
	for i, l := range lines {
		if l.T == tOpen || l.T == tClose {
			tags = append(tags, i)
		}
	}
	kind := g.upto("edit", 7)
	if len(tags) == 0 && kind >= 2 && kind <= 4 {
		kind = 5
	}
	switch kind {
	case 6, 7: // a stray tag: an end (or start) tag that matches nothing, at any depth
		at := g.upto("at", len(lines))
		names := []string{"root", "Root", "xml", "tars", "zc", "a", "conf", "domain"}
		for _, l := range lines {
			if l.T == tOpen {
				names = append(names, l.N)
			}
		}
		stray := Line{T: tClose, N: pick(g, "strayname", names), E: "\n"}
		if g.upto("strayopen", 3) == 0 {
			stray.T = tOpen
		}
		lines = append(append(append([]Line(nil), lines[:at]...), stray), lines[at:]...)
		if at > 0 && lines[at-1].E == "" {
			lines[at-1].E = "\n"
		}
		c.Edit, c.Prefix = "struct", at
	case 0, 1: // junk line(s): markup-biased random bytes
		at := g.upto("at", len(lines))
		junk := rapid.SliceOfN(junkByte, 1, 24).Draw(rt, "junk")
		raw := Line{T: tRaw, Raw: junk, E: "\n"}
		lines = append(append(append([]Line(nil), lines[:at]...), raw), lines[at:]...)
		if at > 0 && lines[at-1].E == "" {
			lines[at-1].E = "\n"
		}
		c.Edit = "junk"
	case 2: // drop one tag line (open or close)
		at := pick(g, "at", tags)
		lines = append(append([]Line(nil), lines[:at]...), lines[at+1:]...)
		c.Edit, c.Prefix = "struct", at
	case 3: // rename one close tag (or open tag): mismatch
		at := pick(g, "at", tags)
		lines = append([]Line(nil), lines...)
		lines[at].N = pick(g, "newname", []string{"zc", "zq", lines[at].N + "x", strings.ToUpper(lines[at].N) + "_"})
		c.Edit, c.Prefix = "struct", at
	case 4: // turn an open tag into a close tag or vice versa
		at := pick(g, "at", tags)
		lines = append([]Line(nil), lines...)
		lines[at].T = tOpen + tClose - lines[at].T
		c.Edit, c.Prefix = "struct", at
	default: // truncate, possibly inside a tag
		at := g.upto("at", len(lines))
		lines = append([]Line(nil), lines[:at]...)
		tail := pick(g, "tail", []string{"", "", "<", "<ta", "</", "</ta", "<tars", "<a b=\"", "<!--", "<![CDATA[", "<?", "<zq>", "</zc>", "&"})
		if tail != "" {
			if at > 0 && lines[at-1].E == "" {
				lines[at-1].E = "\n"
			}
			lines = append(lines, Line{T: tRaw, Raw: []byte(tail)})
		}
		c.Edit, c.Prefix = "struct", at
	}
	g.lines = lines
	finish(rt, g, &c)
	return c
}

// --- pure random bytes: no-panic only

type BytesCase struct {
	B []byte `json:"b"`
}

func drawBytes(rt *rapid.T) BytesCase {
	return BytesCase{B: rapid.SliceOfN(anyByte, 0, 96).Draw(rt, "bytes")}
}

func runBytes(c BytesCase) (fail *stat.Failure) {
	defer func() {
		if r := recover(); r != nil {
			fail = stat.Failf("panic", "panic on random bytes %q: %v", c.B, r)
		}
	}()
	cf := conf.New()
	err := cf.InitFromBytes(c.B)
	cls := "bytes-accepted"
	if err != nil {
		cls = "bytes-error"
	}
	st.Case(c.B, false, func() any { return map[string]any{"bytes": fmt.Sprintf("%q", c.B)} }, "random-bytes", cls)
	for _, d := range cf.GetDomain("/") {
		_ = cf.GetDomainKey("/" + d)
		_ = cf.GetDomainLine("/" + d)
		_ = cf.GetMap("/" + d)
	}
	_ = cf.GetDomainLine("/")
	_ = cf.ToString()
	return nil
}

// ------------------------------------------------------------------------- pinned

func kvl(k, v string) Line { return Line{T: tKV, N: k, Eq: true, V: v, E: "\n"} }
func opn(n string) Line    { return Line{T: tOpen, N: n, E: "\n"} }
func cls(n string) Line    { return Line{T: tClose, N: n, E: "\n"} }

var pinDef = Defaults{S: "DEF", I: -7, I32: -7, F: -1.5}

var knownCases = []struct {
	key string
	c   Case
}{
	{"D-C17-silent", Case{Class: "B", Def: pinDef, Lines: []Line{
		opn("a"), kvl("url", "http://h/p?x=1&y=2"), kvl("after", "1"), cls("a"), opn("b"), kvl("k", "v"), cls("b")}}},
	{"D-C17-collide", Case{Class: "C", Def: pinDef, Lines: []Line{
		opn("a"), opn("x"), kvl("k", "2"), cls("x"), kvl("x", "1"), cls("a")}}},
	{"D-C17-longline", Case{Class: "A", Def: pinDef, Lines: []Line{
		opn("a"), {T: tKV, N: "big", Eq: true, V: "x", R: 70000, E: "\n"}, kvl("after", "1"), cls("a")}}},
}

// regression constants (hold on the unchanged tree)
var pinnedOK = map[string]Case{
	"sample-like": {Class: "A", Def: pinDef, Absent: []string{"nosuchkey"}, Lines: []Line{
		opn("taf"), opn("application"), kvl("enableset", "N"), kvl("setdivision", ".."),
		opn("server"), kvl("node", "Docker.DCNode.ServerObj@tcp -h 100.97.11.84 -p 9931 -t 180000"), kvl("netthread", "2"),
		opn("MMGR.NetClip.clipServerObjAdapter"), {T: tKV, N: "allow", E: "\n", P: [4]string{"\t\t", "", "", ""}}, kvl("threads", "1"), cls("MMGR.NetClip.clipServerObjAdapter"),
		cls("server"), opn("client"), kvl("sample-rate", "1000"), kvl("recvthread", "1 #hello test"), cls("client"), cls("application"),
		opn("nodes"), {T: tKV, N: "172.6.8.11", E: "\n"}, {T: tKV, N: "172.6.8.12", E: "\n"}, cls("nodes"), cls("taf"),
		{T: tBlank, E: "\n"},
		opn("taf"), opn("application"), opn("client"), kvl("sample-rate", "999"), cls("client"), cls("application"), cls("taf")}},
	"mismatch-unbalanced": {Class: "M", Def: pinDef, Edit: "struct", Prefix: 2, Lines: []Line{
		opn("a"), kvl("k", "1"), cls("zc"), opn("b"), kvl("j", "2"), cls("b")}},
	"lt-in-value": {Class: "B", Def: pinDef, Lines: []Line{
		opn("a"), kvl("expr", "1<2"), kvl("after", "1"), cls("a")}},
}

func TestC17(t *testing.T) {
	defer st.Emit()
	st.Extra("assume_fixed", assumeFixed)
	if stat.ReplayPath() == "" && os.Getenv("VERIF_ONLY") == "" {
		for _, k := range knownCases {
			if assumeFixed {
				if f := run(k.c); f != nil {
					st.Report("pinned", f, k.c)
					t.Errorf("pinned %s: %v", k.key, f)
				}
				continue
			}
			if f := runCase(k.c, true); f != nil {
				st.Known(k.key, f.Msg)
			} else {
				fmt.Printf("note: known defect %s no longer reproduces; run with VERIF_C17_ASSUME_FIXED=1\n", k.key)
			}
		}
		ok := map[string]Case{}
		for k, c := range pinnedOK {
			if !assumeFixed && k != "sample-like" {
				continue // these two are instances of D-C17-silent
			}
			ok[k] = c
		}
		stat.Pinned(t, st, "pinned", ok, run)
	}
	stat.Check(t, st, "classA", stat.N(9000, 60000), drawA, run)
	stat.Check(t, st, "classB", stat.N(4000, 25000), drawB, run)
	stat.Check(t, st, "classC", stat.N(2000, 12000), drawC, run)
	stat.Check(t, st, "malformed", stat.N(5000, 30000), drawM, run)
	stat.Check(t, st, "bytes", stat.N(20000, 125000), drawBytes, runBytes)
	if stat.ReplayPath() == "" && os.Getenv("VERIF_ONLY") == "" {
		// every input of 0, 1 and 2 bytes (65793 inputs), split over the shards: no panic
		shard, shards := stat.Shard()
		var n int64
		try := func(b []byte) bool {
			n++
			if f := runBytes(BytesCase{B: b}); f != nil {
				st.Report("bytes-short-exhaustive", f, BytesCase{B: b})
				t.Errorf("bytes-short-exhaustive: %v", f)
				return false
			}
			return true
		}
		ok := shard != 0 || try([]byte{})
		for a := 0; a < 256 && ok; a++ {
			if a%shards != shard {
				continue
			}
			ok = try([]byte{byte(a)})
			for b := 0; b < 256 && ok; b++ {
				ok = try([]byte{byte(a), byte(b)})
			}
		}
		st.Bulk(n, n, "bytes-short-exhaustive")
	}
}
