// Package peer is the scripted server of engine E3: it accepts TCP connections, decodes
// every request with the reference codec, logs everything with timestamps (the ground
// truth for C08/C09/C11/C14/C15) and lets a per-request callback decide what is sent back
// and when (replies with arbitrary ids, duplicates, garbage, illegal lengths, closes).
package peer

import (
	"crypto/tls"
	"encoding/binary"
	"fmt"
	"io"
	"net"
	"sync"
	"sync/atomic"
	"syscall"
	"time"

	rc "verif/harness/refcodec"
	"verif/harness/rpcprops"
)

type Req struct {
	Conn    int
	Seq     int // arrival number on the server (all connections)
	At      time.Time
	ID      int32
	Version int16
	OneWay  bool
	Func    string
	Servant string
	Buffer  []byte
	Timeout int32
	Context map[string]string
	Status  map[string]string
}

// Sent is one packet the server wrote.
type Sent struct {
	Conn   int
	At     time.Time
	ID     int32 // id field of the reply (for replies)
	Serial int64 // unique serial carried in the reply buffer (0 for non-replies)
	Kind   string
	Err    error
}

type ConnEvent struct {
	Conn int
	At   time.Time
	What string // accepted | closed-by-server | closed-by-peer | read-error
}

type Server struct {
	L    net.Listener
	Addr string
	Host string
	Port int

	mu     sync.Mutex
	wlocks map[int]*sync.Mutex // per-connection write locks (a packet is never interleaved with another)
	conns  map[int]net.Conn
	reqs   []*Req
	sent   []Sent
	events []ConnEvent
	nconn  int
	serial int64
	closed bool
	gen    int // bumped by ResetLog

	// Handler is called (in the connection's reader goroutine) for every request; it may
	// use the Conn* methods of the server, typically from goroutines it starts itself.
	Handler func(s *Server, r *Req)
	// Refuse makes the accept loop close new connections immediately.
	Refuse int32
	// TLS, when set, makes the server speak TLS on every accepted connection.
	TLS *tls.Config
	// hold releases the placeholder socket that keeps the port while the server is "down"
	hold func()
}

// holdPort binds (without listening) a socket to addr: connection attempts are refused as
// with no socket at all, but no other process can be given the port meanwhile - a scripted
// server of another test process answering on a reused port would turn "refused" into
// "answered".
func holdPort(addr string) func() {
	ta, err := net.ResolveTCPAddr("tcp", addr)
	if err != nil || ta.IP.To4() == nil {
		return nil
	}
	fd, err := syscall.Socket(syscall.AF_INET, syscall.SOCK_STREAM, 0)
	if err != nil {
		return nil
	}
	_ = syscall.SetsockoptInt(fd, syscall.SOL_SOCKET, syscall.SO_REUSEADDR, 1)
	sa := &syscall.SockaddrInet4{Port: ta.Port}
	copy(sa.Addr[:], ta.IP.To4())
	if err := syscall.Bind(fd, sa); err != nil {
		syscall.Close(fd)
		return nil
	}
	return func() { syscall.Close(fd) }
}

func Listen(host string) (*Server, error) { return ListenTLS(host, nil) }

// ListenTLS is Listen for an ssl endpoint (cfg == nil: plain tcp).
func ListenTLS(host string, cfg *tls.Config) (*Server, error) {
	l, err := net.Listen("tcp", net.JoinHostPort(host, "0"))
	if err != nil {
		return nil, err
	}
	if cfg != nil {
		l = tls.NewListener(l, cfg)
	}
	s := &Server{TLS: cfg, L: l, Addr: l.Addr().String(), Host: host, Port: l.Addr().(*net.TCPAddr).Port, conns: map[int]net.Conn{}, wlocks: map[int]*sync.Mutex{}}
	go s.accept()
	return s, nil
}

// Relisten re-opens the listener on the same port (server restart).
func (s *Server) Relisten() error {
	s.mu.Lock()
	if s.hold != nil {
		s.hold()
		s.hold = nil
	}
	s.mu.Unlock()
	l, err := net.Listen("tcp", s.Addr)
	if err != nil {
		return err
	}
	if s.TLS != nil {
		l = tls.NewListener(l, s.TLS)
	}
	s.mu.Lock()
	s.L = l
	s.closed = false
	s.mu.Unlock()
	go s.accept()
	return nil
}

func (s *Server) accept() {
	l := s.L
	for {
		c, err := l.Accept()
		if err != nil {
			return
		}
		if atomic.LoadInt32(&s.Refuse) != 0 {
			c.Close()
			continue
		}
		s.mu.Lock()
		id := s.nconn
		s.nconn++
		s.conns[id] = c
		s.wlocks[id] = &sync.Mutex{}
		s.events = append(s.events, ConnEvent{id, time.Now(), "accepted"})
		s.mu.Unlock()
		go s.serve(id, c)
	}
}

func (s *Server) serve(id int, c net.Conn) {
	var hdr [4]byte
	for {
		if _, err := io.ReadFull(c, hdr[:]); err != nil {
			s.event(id, "closed-by-peer")
			return
		}
		n := int(binary.BigEndian.Uint32(hdr[:]))
		if n < 4 || n > 64<<20 {
			s.event(id, "read-error")
			return
		}
		body := make([]byte, n-4)
		if _, err := io.ReadFull(c, body); err != nil {
			s.event(id, "closed-by-peer")
			return
		}
		sv, _, err := rc.DecodeStruct(rpcprops.ReqSchema, body)
		if err != nil {
			s.event(id, "read-error")
			continue
		}
		f := sv.Fields
		r := &Req{Conn: id, At: time.Now(), Version: int16(f[0].(int64)), OneWay: f[1].(int64) == 1, ID: int32(f[3].(int64)), Servant: f[4].(string), Func: f[5].(string),
			Timeout: int32(f[7].(int64))}
		for _, x := range f[6].([]any) {
			r.Buffer = append(r.Buffer, byte(x.(int64)))
		}
		r.Context, r.Status = map[string]string{}, map[string]string{}
		for _, kv := range f[8].([]rc.KV) {
			r.Context[kv.K.(string)] = kv.V.(string)
		}
		for _, kv := range f[9].([]rc.KV) {
			r.Status[kv.K.(string)] = kv.V.(string)
		}
		s.mu.Lock()
		r.Seq = len(s.reqs)
		s.reqs = append(s.reqs, r)
		h := s.Handler
		s.mu.Unlock()
		if h != nil {
			h(s, r)
		}
	}
}

func (s *Server) event(conn int, what string) {
	s.mu.Lock()
	s.events = append(s.events, ConnEvent{conn, time.Now(), what})
	s.mu.Unlock()
}

// NextSerial hands out a unique reply serial.
func (s *Server) NextSerial() int64 { return atomic.AddInt64(&s.serial, 1) }

// EncodeReply builds a ResponsePacket carrying the serial (8 bytes) followed by extra in its buffer.
func EncodeReply(version int16, packetType int8, id int32, ret int32, desc string, serial int64, extra []byte) []byte {
	buf := make([]byte, 8, 8+len(extra))
	binary.BigEndian.PutUint64(buf, uint64(serial))
	buf = append(buf, extra...)
	vals := make([]any, len(buf))
	for i, b := range buf {
		vals[i] = int64(int8(b))
	}
	sv := &rc.SV{St: rpcprops.RespSchema, Fields: []any{int64(version), int64(packetType), int64(id), int64(0), int64(ret), vals, []rc.KV{}, desc, []rc.KV{}}}
	e := rc.Enc{}
	e.StructBody(sv)
	out := make([]byte, 4, 4+len(e.Buf))
	binary.BigEndian.PutUint32(out, uint32(4+len(e.Buf)))
	return append(out, e.Buf...)
}

// SerialOf extracts the serial from a reply buffer as seen by the caller ([]int8).
func SerialOf(buf []int8) (int64, bool) {
	if len(buf) < 8 {
		return 0, false
	}
	var v uint64
	for i := 0; i < 8; i++ {
		v = v<<8 | uint64(uint8(buf[i]))
	}
	return int64(v), true
}

// Reply writes a well-formed response with the given id field on connection conn and
// logs it. Returns the serial.
func (s *Server) Reply(conn int, version int16, id int32, ret int32, desc string, kind string, packetType int8) int64 {
	serial := s.NextSerial()
	pkt := EncodeReply(version, packetType, id, ret, desc, serial, nil)
	s.WriteRaw(conn, pkt, id, serial, kind)
	return serial
}

// WriteRaw writes arbitrary bytes on a connection.
func (s *Server) WriteRaw(conn int, b []byte, id int32, serial int64, kind string) error {
	s.mu.Lock()
	wl := s.wlocks[conn]
	s.mu.Unlock()
	if wl != nil {
		wl.Lock()
		defer wl.Unlock()
	}
	return s.writeLocked(conn, b, id, serial, kind)
}

// WriteSplit writes b in two pieces (the first n bytes, then after gap the rest) without
// letting any other packet in between - what a slow but correct server does.
func (s *Server) WriteSplit(conn int, b []byte, n int, gap time.Duration, id int32, serial int64, kind string) error {
	s.mu.Lock()
	wl := s.wlocks[conn]
	s.mu.Unlock()
	if wl != nil {
		wl.Lock()
		defer wl.Unlock()
	}
	if n > len(b) {
		n = len(b)
	}
	if err := s.writeLocked(conn, b[:n], id, 0, kind+"-part1"); err != nil {
		return err
	}
	time.Sleep(gap)
	return s.writeLocked(conn, b[n:], id, serial, kind)
}

func (s *Server) writeLocked(conn int, b []byte, id int32, serial int64, kind string) error {
	s.mu.Lock()
	c := s.conns[conn]
	s.mu.Unlock()
	if c == nil {
		return fmt.Errorf("no such connection")
	}
	// logged before the write: the peer may react to the packet before Write returns
	s.mu.Lock()
	idx := len(s.sent)
	gen := s.gen
	s.sent = append(s.sent, Sent{Conn: conn, At: time.Now(), ID: id, Serial: serial, Kind: kind})
	s.mu.Unlock()
	_, err := c.Write(b)
	if err != nil {
		s.mu.Lock()
		if s.gen == gen && idx < len(s.sent) {
			s.sent[idx].Err = err
		}
		s.mu.Unlock()
	}
	return err
}

// CloseConn closes one connection from the server side.
func (s *Server) CloseConn(conn int) {
	s.mu.Lock()
	c := s.conns[conn]
	s.mu.Unlock()
	if c != nil {
		s.event(conn, "closed-by-server")
		c.Close()
	}
}

// CloseAllConns closes every open connection.
func (s *Server) CloseAllConns() {
	s.mu.Lock()
	ids := make([]int, 0, len(s.conns))
	for id := range s.conns {
		ids = append(ids, id)
	}
	s.mu.Unlock()
	for _, id := range ids {
		s.CloseConn(id)
	}
}

// StopListening closes the listener (new connections are refused by the OS).
func (s *Server) StopListening() {
	s.mu.Lock()
	s.closed = true
	l := s.L
	s.mu.Unlock()
	l.Close()
	h := holdPort(s.Addr)
	s.mu.Lock()
	if s.hold != nil {
		s.hold()
	}
	s.hold = h
	s.mu.Unlock()
}

func (s *Server) Shutdown() {
	s.StopListening()
	s.mu.Lock()
	if s.hold != nil {
		s.hold()
		s.hold = nil
	}
	s.mu.Unlock()
	s.CloseAllConns()
}

func (s *Server) Snapshot() (reqs []*Req, sent []Sent, events []ConnEvent) {
	s.mu.Lock()
	defer s.mu.Unlock()
	return append([]*Req{}, s.reqs...), append([]Sent{}, s.sent...), append([]ConnEvent{}, s.events...)
}

func (s *Server) ResetLog() {
	s.mu.Lock()
	s.reqs, s.sent, s.events = nil, nil, nil
	s.gen++
	s.mu.Unlock()
}

func (s *Server) NumConns() int {
	s.mu.Lock()
	defer s.mu.Unlock()
	n := 0
	for id := range s.conns {
		closed := false
		for _, e := range s.events {
			if e.Conn == id && e.What != "accepted" {
				closed = true
			}
		}
		if !closed {
			n++
		}
	}
	return n
}

// ResetAllConns closes every connection abortively (SO_LINGER 0 => TCP reset).
func (s *Server) ResetAllConns() {
	s.mu.Lock()
	ids := make([]int, 0, len(s.conns))
	for id := range s.conns {
		ids = append(ids, id)
	}
	s.mu.Unlock()
	for _, id := range ids {
		s.mu.Lock()
		c := s.conns[id]
		s.mu.Unlock()
		if tl, ok := c.(*tls.Conn); ok {
			c = tl.NetConn()
		}
		if tc, ok := c.(*net.TCPConn); ok {
			_ = tc.SetLinger(0)
		}
		s.CloseConn(id)
	}
}

// PushReconnectAll sends the server's close notification (request id 0, result
// description "_reconnect_") on every open connection.
func (s *Server) PushReconnectAll() {
	s.mu.Lock()
	ids := make([]int, 0, len(s.conns))
	for id := range s.conns {
		ids = append(ids, id)
	}
	s.mu.Unlock()
	for _, id := range ids {
		pkt := EncodeReply(1, 0, 0, 0, "_reconnect_", 0, nil)
		_ = s.WriteRaw(id, pkt, 0, 0, "reconnect-push")
	}
}

// OpenConnIDs lists the connections that have been accepted and not closed yet.
func (s *Server) OpenConnIDs() []int {
	s.mu.Lock()
	defer s.mu.Unlock()
	var out []int
	for id := range s.conns {
		closed := false
		for _, e := range s.events {
			if e.Conn == id && e.What != "accepted" {
				closed = true
			}
		}
		if !closed {
			out = append(out, id)
		}
	}
	return out
}
