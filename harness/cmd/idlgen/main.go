// idlgen: program / registry generation tool of engine E2 (run by ./check through `go run`).
//
//	idlgen -mode framework -res <repo>/tars/protocol/res -out DIR
//	    reads the framework's .tars files with the mini reader, writes DIR/regfw/registry_gen.go
//	idlgen -mode programs -seed N -first I -count K -out DIR [-allow-optional-byte]
//	    writes DIR/idl/<files>.tars and DIR/prog_<id>.json for K generated programs
//	idlgen -mode registry -in DIR -ids 0,2,3 -pkg regp -out DIR2
//	    writes DIR2/<pkg>/registry_gen.go for the listed programs
package main

import (
	"encoding/json"
	"flag"
	"fmt"
	"os"
	"path/filepath"
	"sort"
	"strconv"
	"strings"

	"verif/harness/idlgen"
	rc "verif/harness/refcodec"
)

func die(f string, a ...any) {
	fmt.Fprintf(os.Stderr, "idlgen: "+f+"\n", a...)
	os.Exit(2)
}

func main() {
	mode := flag.String("mode", "", "framework|programs|registry|glue")
	res := flag.String("res", "", "")
	out := flag.String("out", "", "")
	in := flag.String("in", "", "")
	seed := flag.Uint64("seed", 1, "")
	first := flag.Int("first", 0, "")
	count := flag.Int("count", 1, "")
	ids := flag.String("ids", "", "")
	pkg := flag.String("pkg", "regp", "")
	allowOB := flag.Bool("allow-optional-byte", false, "")
	flag.Parse()
	switch *mode {
	case "framework":
		files, _ := filepath.Glob(filepath.Join(*res, "*.tars"))
		sort.Strings(files)
		// BaseF / EndpointF first so that cross-file references resolve; then a fixpoint.
		sj := &rc.SchemaJ{}
		pending := files
		for round := 0; round < 4 && len(pending) > 0; round++ {
			var again []string
			for _, f := range pending {
				b, err := os.ReadFile(f)
				if err != nil {
					die("%v", err)
				}
				trial := &rc.SchemaJ{Structs: append([]*rc.StructJ{}, sj.Structs...), Enums: append([]*rc.EnumJ{}, sj.Enums...)}
				if err := idlgen.ReadTars(string(b), trial); err != nil {
					again = append(again, f)
					if round == 3 {
						die("%s: %v", f, err)
					}
					continue
				}
				sj = trial
			}
			pending = again
		}
		imports := map[string]string{}
		for _, s := range sj.Structs {
			imports[s.Module] = "github.com/TarsCloud/TarsGo/tars/protocol/res/" + s.Module
		}
		write(filepath.Join(*out, "regfw", "registry_gen.go"), idlgen.EmitRegistry("regfw", sj, imports, false))
	case "programs":
		for i := *first; i < *first+*count; i++ {
			p := idlgen.GenProgram(i, idlgen.Allow{OptionalByteNoDefault: *allowOB}).Example(int(*seed)*100003 + i)
			info := idlgen.ProgramInfo{ID: i, Root: p.Files[0].Name, WithoutTrace: p.WithoutTrace, AddServant: p.AddServant, JsonOmitEmpty: p.JsonOmitEmpty, DispatchReporter: p.DispatchReporter, ModuleUpper: p.ModuleUpper,
				Imports: map[string]string{}, Schema: p.Schema(), Shape: map[string]int{}}
			for _, f := range p.Files {
				info.Files = append(info.Files, f.Name)
				write(filepath.Join(*out, "idl", f.Name), f.Render())
				for _, m := range f.Modules {
					dir := m.Name
					if p.ModuleUpper {
						dir = rc.UpperFirst(dir)
					}
					info.Imports[m.Name] = fmt.Sprintf("verif/harness/gen/p%d/%s", i, dir)
				}
			}
			info.Shape = idlgen.ShapeOf(info.Schema)
			js, _ := json.MarshalIndent(info, "", " ")
			write(filepath.Join(*out, fmt.Sprintf("prog_%d.json", i)), string(js))
		}
	case "registry", "glue":
		sj := &rc.SchemaJ{}
		imports := map[string]string{}
		var infos []*idlgen.ProgramInfo
		for _, s := range strings.Split(*ids, ",") {
			if s == "" {
				continue
			}
			id, _ := strconv.Atoi(s)
			b, err := os.ReadFile(filepath.Join(*in, fmt.Sprintf("prog_%d.json", id)))
			if err != nil {
				die("%v", err)
			}
			var info idlgen.ProgramInfo
			if err := json.Unmarshal(b, &info); err != nil {
				die("%v", err)
			}
			infos = append(infos, &info)
			sj.Structs = append(sj.Structs, info.Schema.Structs...)
			sj.Enums = append(sj.Enums, info.Schema.Enums...)
			sj.Ifaces = append(sj.Ifaces, info.Schema.Ifaces...)
			for k, v := range info.Imports {
				imports[k] = v
			}
		}
		if *mode == "registry" {
			write(filepath.Join(*out, *pkg, "registry_gen.go"), idlgen.EmitRegistry(*pkg, sj, imports, true))
		} else {
			write(filepath.Join(*out, *pkg, "glue_gen.go"), idlgen.EmitGlue(*pkg, sj, imports, infos))
		}
	default:
		die("unknown mode %q", *mode)
	}
}

func write(path, content string) {
	if err := os.MkdirAll(filepath.Dir(path), 0o755); err != nil {
		die("%v", err)
	}
	if err := os.WriteFile(path, []byte(content), 0o644); err != nil {
		die("%v", err)
	}
}
