module verif/harness

go 1.23

require (
	github.com/TarsCloud/TarsGo v0.0.0
	github.com/TarsCloud/TarsGo/tars/tools/tars2go v0.0.0
	pgregory.net/rapid v1.3.0
)

require go.uber.org/automaxprocs v1.5.2 // indirect

replace github.com/TarsCloud/TarsGo => /repo

replace github.com/TarsCloud/TarsGo/tars/tools/tars2go => /repo/tars/tools/tars2go
