// C04 over the framework's checked-in bindings.
package c04

import (
	"testing"

	"verif/harness/codecprops"
	"verif/harness/gen/regfw"
	"verif/harness/stat"
)

var st = stat.New("C04", codecprops.C04Rule,
	"unknown fields come from refcodec.DrawField (schema-free well-formed field generator); tags are chosen outside the reader's declared tags",
	"reuse sub-check: while the known finding reuse-stale-member-without-declared-default is open, the first decoded value is kept at zero on members without a declared default (counted under excluded)")

func TestC04(t *testing.T) {
	defer st.Emit()
	r, err := codecprops.Load("framework", regfw.SchemaJSON, regfw.New)
	if err != nil {
		t.Fatalf("VERIF-INFRA registry: %v", err)
	}
	r.RunC04(t, st, 12000, 900000)
}
