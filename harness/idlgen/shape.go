package idlgen

import rc "verif/harness/refcodec"

// ShapeOf counts the features the non-trivial rules refer to.
func ShapeOf(sj *rc.SchemaJ) map[string]int {
	sh := map[string]int{}
	var walk func(t *rc.TypeJ, depth int)
	walk = func(t *rc.TypeJ, depth int) {
		sh["type."+t.K]++
		if t.K == "vector" && t.Elem.K == "vector" {
			sh["nested_vector"]++
		}
		if t.Elem != nil {
			walk(t.Elem, depth+1)
		}
		if t.Key != nil {
			walk(t.Key, depth+1)
		}
	}
	for _, s := range sj.Structs {
		sh["structs"]++
		for _, f := range s.Fields {
			walk(f.Type, 0)
			if f.Tag >= 15 {
				sh["tag_ge_15"]++
			}
			if f.HasDefault && !f.Require {
				sh["optional_default"]++
			}
			if f.Require {
				sh["require"]++
			} else {
				sh["optional"]++
			}
		}
	}
	for _, it := range sj.Ifaces {
		sh["ifaces"]++
		for _, fn := range it.Funcs {
			sh["funcs"]++
			for _, a := range fn.Args {
				walk(a.Type, 0)
				if a.Out {
					sh["out_params"]++
				} else {
					sh["in_params"]++
				}
			}
			if fn.Ret != nil {
				walk(fn.Ret, 0)
			}
		}
	}
	sh["enums"] = len(sj.Enums)
	return sh
}
