package idlgen

import (
	"fmt"
	"sort"
	"strconv"

	"pgregory.net/rapid"

	rc "verif/harness/refcodec"
)

// Known generator defects of the current tree are excluded by construction unless
// Allow.* is set (pinned cases exercise them separately):
//   - fixed arrays of byte / unsigned byte element type (non-compiling output)
//   - parameter names colliding with identifiers used by the templates / Go keywords
type Allow struct {
	OptionalByteNoDefault bool // `optional byte b;` without default (typeDef gap)
}

var scalarKinds = []string{"bool", "byte", "unsigned byte", "short", "unsigned short", "int", "unsigned int", "long", "float", "double", "string"}
var keyKinds = []string{"bool", "byte", "unsigned byte", "short", "unsigned short", "int", "unsigned int", "long", "string"}

type genCtx struct {
	rt       *rapid.T
	pid      int
	allow    Allow
	structs  []string // refs "module.Name" usable so far (declared earlier => no forward refs)
	enums    []string
	enumDef  map[string]*rc.EnumJ
	curMod   string
	boundary []string // refs of boundary structs (preferred for interface parameters)
}

func (g *genCtx) pick(n int, label string) int { return rapid.IntRange(0, n-1).Draw(g.rt, label) }

func (g *genCtx) drawType(depth int, forKey bool, label string) *rc.TypeJ {
	if forKey {
		if len(g.enums) > 0 && g.pick(8, label+".enumkey") == 0 {
			return &rc.TypeJ{K: "enum", Ref: g.enums[g.pick(len(g.enums), label+".e")]}
		}
		return &rc.TypeJ{K: keyKinds[g.pick(len(keyKinds), label+".k")]}
	}
	c := g.pick(20, label+".c")
	switch {
	case c < 9 || depth >= 3:
		return &rc.TypeJ{K: scalarKinds[g.pick(len(scalarKinds), label+".s")]}
	case c < 11 && len(g.enums) > 0:
		return &rc.TypeJ{K: "enum", Ref: g.enums[g.pick(len(g.enums), label+".e")]}
	case c < 14 && len(g.structs) > 0:
		if len(g.boundary) > 0 && g.pick(3, label+".useb") == 0 {
			return &rc.TypeJ{K: "struct", Ref: g.boundary[g.pick(len(g.boundary), label+".bst")]}
		}
		return &rc.TypeJ{K: "struct", Ref: g.structs[g.pick(len(g.structs), label+".st")]}
	case c < 17:
		if g.pick(4, label+".bytes") == 0 {
			return &rc.TypeJ{K: "vector", Elem: &rc.TypeJ{K: "byte"}}
		}
		return &rc.TypeJ{K: "vector", Elem: g.drawType(depth+1, false, label+".el")}
	default:
		return &rc.TypeJ{K: "map", Key: g.drawType(depth+1, true, label+".key"), Elem: g.drawType(depth+1, false, label+".val")}
	}
}

func refModule(ref string) string {
	for i := 0; i < len(ref); i++ {
		if ref[i] == '.' {
			return ref[:i]
		}
	}
	return ref
}

// arrayElemOK: element types generated for fixed arrays. Excluded:
//   - byte / unsigned byte elements: the generator emits non-compiling simple-list code
//     for them (known finding, pinned in C16);
//   - struct-containing elements: what the unset elements of a partially/never transmitted
//     array of structs should be (Go zero value vs. the element struct's IDL defaults) is
//     not defined by the property; keeping them out keeps the "absent => default" oracle
//     unambiguous.
func (g *genCtx) arrayElemOK(t *rc.TypeJ) bool {
	switch t.K {
	case "byte", "unsigned byte", "struct":
		return false
	case "vector":
		return g.arrayElemOK(t.Elem) || t.Elem.K == "byte" || t.Elem.K == "unsigned byte"
	case "map":
		return g.arrayElemOK(t.Elem) || t.Elem.K == "byte" || t.Elem.K == "unsigned byte"
	}
	return true
}

func intRangeOf(k string) (int64, int64) {
	switch k {
	case "byte":
		return -128, 127
	case "unsigned byte":
		return 0, 255
	case "short":
		return -32768, 32767
	case "unsigned short":
		return 0, 65535
	case "int":
		return -2147483648, 2147483647
	case "unsigned int":
		return 0, 4294967295
	}
	return -9223372036854775808, 9223372036854775807
}

// drawDefault possibly attaches a declared default to a scalar/string/bool/enum member.
func (g *genCtx) drawDefault(f *rc.FieldJ, label string) {
	t := f.Type
	switch t.K {
	case "bool":
		f.HasDefault, f.DefKind = true, "bool"
		f.DefStr = strconv.FormatBool(rapid.Bool().Draw(g.rt, label))
		f.DefaultSrc = f.DefStr
	case "byte", "unsigned byte", "short", "unsigned short", "int", "unsigned int", "long":
		lo, hi := intRangeOf(t.K)
		var v int64
		switch g.pick(4, label+".m") {
		case 0:
			v = rapid.Int64Range(lo, hi).Draw(g.rt, label)
		case 1:
			v = rapid.SampledFrom([]int64{lo, hi, 0, 1}).Draw(g.rt, label)
		default:
			l, h := int64(-100), int64(100)
			if l < lo {
				l = lo
			}
			v = rapid.Int64Range(l, h).Draw(g.rt, label)
		}
		f.HasDefault, f.DefKind = true, "int"
		f.DefStr = strconv.FormatInt(v, 10)
		if g.pick(3, label+".hex") == 0 && v != -9223372036854775808 {
			if v < 0 {
				f.DefaultSrc = fmt.Sprintf("-0x%X", -v)
			} else {
				f.DefaultSrc = fmt.Sprintf("0x%x", v)
			}
		} else {
			f.DefaultSrc = f.DefStr
		}
	case "float", "double":
		f.HasDefault = true
		if g.pick(3, label+".int") == 0 {
			v := rapid.Int64Range(-1000, 1000).Draw(g.rt, label)
			f.DefKind, f.DefStr = "int", strconv.FormatInt(v, 10)
			f.DefaultSrc = f.DefStr
		} else {
			n := rapid.Int64Range(-4000, 4000).Draw(g.rt, label)
			// multiples of 1/8 are exact in float32 and float64
			s := strconv.FormatFloat(float64(n)/8, 'f', 3, 64)
			f.DefKind, f.DefStr, f.DefaultSrc = "float", s, s
		}
	case "string":
		s := rapid.StringOfN(rapid.RuneFrom([]rune("abcXYZ019 _-=&<>/.,:;{}()[]#!?*+")), 0, 12, -1).Draw(g.rt, label)
		f.HasDefault, f.DefKind, f.DefStr = true, "string", s
		f.DefaultSrc = "\"" + s + "\""
	case "enum":
		e := g.enumDef[t.Ref]
		i := g.pick(len(e.Names), label+".ev")
		f.HasDefault, f.DefKind = true, "int"
		f.DefStr = strconv.FormatInt(int64(e.Values[i]), 10)
		// member names are unique program-wide, so bare and qualified spellings are both fine;
		// the value may also be written as a number
		switch g.pick(3, label+".q") {
		case 0:
			f.DefaultSrc = e.Names[i]
		case 1:
			f.DefaultSrc = e.Module + "::" + e.Names[i]
		default:
			f.DefaultSrc = f.DefStr
		}
	}
}

var memberNames = []string{"a", "b", "iVal", "sName", "x1", "data", "flag", "count", "items", "mapping", "inner", "value", "id", "ts", "extra", "lst", "cfg", "name2", "zz", "payload", "w", "h", "level", "state", "more"}
var paramNames = []string{"p0", "p1", "aIn", "bOut", "reqv", "rspv", "datum", "item", "cnt", "flagv", "idx", "src", "dst", "info", "vec", "tbl"}

func (g *genCtx) drawStruct(mod string, name string, label string) (*rc.StructJ, []int) {
	st := &rc.StructJ{Module: mod, Name: name}
	n := rapid.IntRange(0, 9).Draw(g.rt, label+".nfields")
	if g.pick(10, label+".nonempty") > 0 && n == 0 {
		n = 1
	}
	names := rapid.Permutation(memberNames).Draw(g.rt, label+".names")
	tag := 0
	usedBig := false
	for i := 0; i < n; i++ {
		step := rapid.SampledFrom([]int{0, 0, 0, 1, 2, 5}).Draw(g.rt, label+".step")
		tag += step
		if !usedBig && g.pick(6, label+".big") == 0 {
			// jump so that tags >= 15 (extended head) and up to 255 appear
			j := rapid.SampledFrom([]int{14, 15, 16, 100, 200, 250}).Draw(g.rt, label+".jump")
			if j > tag {
				tag = j
			}
			usedBig = true
		}
		if tag > 255 {
			break
		}
		f := &rc.FieldJ{Name: names[i], Tag: tag, Require: g.pick(3, label+".req") == 0}
		f.Type = g.drawType(0, false, label+".t")
		if g.pick(7, label+".arr") == 0 {
			el := g.drawType(1, false, label+".ael")
			if g.arrayElemOK(el) {
				f.Type = &rc.TypeJ{K: "array", Elem: el, N: rapid.IntRange(1, 4).Draw(g.rt, label+".an")}
			}
		}
		switch f.Type.K {
		case "vector", "map", "struct", "array":
		case "byte":
			if !g.allow.OptionalByteNoDefault || g.pick(2, label+".def") == 0 {
				g.drawDefault(f, label+".dv")
			}
		default:
			if g.pick(2, label+".def") == 0 {
				g.drawDefault(f, label+".dv")
			}
		}
		st.Fields = append(st.Fields, f)
		tag++
	}
	order := rapid.Permutation(seq(len(st.Fields))).Draw(g.rt, label+".order")
	if g.pick(2, label+".inorder") == 0 {
		sort.Ints(order)
	}
	return st, order
}

func seq(n int) []int {
	out := make([]int, n)
	for i := range out {
		out[i] = i
	}
	return out
}

func (g *genCtx) drawEnum(mod, name string, label string) *rc.EnumJ {
	e := &rc.EnumJ{Module: mod, Name: name}
	n := rapid.IntRange(1, 5).Draw(g.rt, label+".n")
	v := int32(0)
	for i := 0; i < n; i++ {
		if g.pick(3, label+".explicit") == 0 {
			v = int32(rapid.IntRange(-5, 1000).Draw(g.rt, label+".v"))
		}
		// enum member names become Go constants <Enum>_<Member>; they are unique program-wide
		e.Names = append(e.Names, fmt.Sprintf("%s_V%d", upper(name), i))
		e.Values = append(e.Values, v)
		v++
	}
	return e
}

func upper(s string) string {
	b := []byte(s)
	for i := range b {
		if b[i] >= 'a' && b[i] <= 'z' {
			b[i] -= 32
		}
	}
	return string(b)
}

func (g *genCtx) drawModule(name string, label string) *Module {
	m := &Module{Name: name}
	g.curMod = name
	ne := rapid.IntRange(0, 2).Draw(g.rt, label+".nenum")
	for i := 0; i < ne; i++ {
		e := g.drawEnum(name, fmt.Sprintf("E%s%d", name, i), label+".enum")
		m.Enums = append(m.Enums, e)
		g.enums = append(g.enums, name+"."+e.Name)
		g.enumDef[name+"."+e.Name] = e
	}
	if g.pick(2, label+".const") == 0 {
		m.Consts = append(m.Consts, Const{"int", "MAXN" + name, "0x10"}, Const{"string", "GREETING" + name, "\"hello world\""},
			Const{"double", "RATIO" + name, "0.25"}, Const{"bool", "ENABLED" + name, "true"}, Const{"unsigned short", "PORT" + name, "65535"})
	}
	// an enum-only module (no struct, no constant): its types file consists of the enums
	enumOnly := ne > 0 && g.pick(6, label+".enumonly") == 0
	if enumOnly {
		m.Consts = nil
	}
	ns := rapid.IntRange(1, 5).Draw(g.rt, label+".nstruct")
	if enumOnly {
		ns = 0
	}
	for i := 0; i < ns; i++ {
		sname := fmt.Sprintf("S%s%d", name, i)
		if g.pick(4, label+".lower") == 0 {
			sname = fmt.Sprintf("s%s%d", name, i) // lower-case first letter gets upper-cased by the generator
		}
		st, order := g.drawStruct(name, sname, fmt.Sprintf("%s.struct%d", label, i))
		m.Structs = append(m.Structs, st)
		m.DeclOrder = append(m.DeclOrder, order)
		g.structs = append(g.structs, name+"."+sname)
		if len(st.Fields) >= 2 && g.pick(4, label+".key") == 0 {
			m.Keys = append(m.Keys, fmt.Sprintf("key[%s, %s, %s];", sname, st.Fields[0].Name, st.Fields[1].Name))
		}
	}
	// a "container matrix" struct: every container kind holding every kind of inner value
	// (byte vectors, vectors, maps, strings, structs), so that each program has the nested
	// combinations a drawn type reaches only rarely (e.g. map<K, vector<byte>>)
	if !enumOnly && g.pick(2, label+".matrix") == 0 {
		sname := fmt.Sprintf("SC%s", name)
		st := &rc.StructJ{Module: name, Name: sname}
		bytesT := func() *rc.TypeJ {
			return &rc.TypeJ{K: "vector", Elem: &rc.TypeJ{K: []string{"byte", "unsigned byte"}[g.pick(2, label+".mbyte")]}}
		}
		str := func() *rc.TypeJ { return &rc.TypeJ{K: "string"} }
		inner := []func() *rc.TypeJ{
			bytesT,
			func() *rc.TypeJ {
				return &rc.TypeJ{K: "vector", Elem: &rc.TypeJ{K: scalarKinds[g.pick(len(scalarKinds), label+".mvs")]}}
			},
			func() *rc.TypeJ {
				return &rc.TypeJ{K: "map", Key: &rc.TypeJ{K: keyKinds[g.pick(len(keyKinds), label+".mmk")]}, Elem: &rc.TypeJ{K: scalarKinds[g.pick(len(scalarKinds), label+".mms")]}}
			},
			str,
		}
		tag := g.pick(3, label+".mtag0")
		for i, in := range inner {
			for j, outer := range []string{"vector", "map"} {
				if g.pick(4, label+".mskip") == 0 {
					continue
				}
				f := &rc.FieldJ{Name: fmt.Sprintf("c%d%d", i, j), Tag: tag, Require: g.pick(3, label+".mreq") == 0}
				if outer == "vector" {
					f.Type = &rc.TypeJ{K: "vector", Elem: in()}
				} else {
					f.Type = &rc.TypeJ{K: "map", Key: &rc.TypeJ{K: keyKinds[g.pick(len(keyKinds), label+".mok")]}, Elem: in()}
				}
				st.Fields = append(st.Fields, f)
				tag += 1 + g.pick(3, label+".mgap")
			}
		}
		if len(st.Fields) > 0 {
			m.Structs = append(m.Structs, st)
			m.DeclOrder = append(m.DeclOrder, seq(len(st.Fields)))
			g.structs = append(g.structs, name+"."+sname)
		}
	}
	// a "defaults matrix" struct: one optional member of every scalar kind (and string, and
	// an enum when the module has one) with a declared default away from the zero value, so
	// that every program exercises "absent => declared default" for every reader
	if !enumOnly && g.pick(2, label+".defaults") == 0 {
		sname := fmt.Sprintf("SD%s", name)
		st := &rc.StructJ{Module: name, Name: sname}
		kinds := scalarKinds
		tag := g.pick(3, label+".dtag0")
		for i, k := range kinds {
			f := &rc.FieldJ{Name: fmt.Sprintf("d%d", i), Tag: tag, Type: &rc.TypeJ{K: k}}
			g.drawDefault(f, label+".ddv")
			switch {
			case f.DefKind == "int" && f.DefStr == "0":
				f.DefStr, f.DefaultSrc = "7", "7"
			case f.DefKind == "float" && (f.DefStr == "0.000" || f.DefStr == "-0.000"):
				f.DefStr, f.DefaultSrc = "1.500", "1.500"
			case f.DefKind == "bool":
				f.DefStr, f.DefaultSrc = "true", "true"
			case f.DefKind == "string" && f.DefStr == "":
				f.DefStr, f.DefaultSrc = "dflt", "\"dflt\""
			}
			st.Fields = append(st.Fields, f)
			tag += 1 + g.pick(2, label+".dgap")
		}
		if len(g.enums) > 0 {
			// an enum of this module or of one declared earlier (other file or module)
			ref := g.enums[g.pick(len(g.enums), label+".deref")]
			f := &rc.FieldJ{Name: "de", Tag: tag, Type: &rc.TypeJ{K: "enum", Ref: ref}}
			g.drawDefault(f, label+".dev")
			st.Fields = append(st.Fields, f)
			tag++
			// a second enum member whose default is a non-zero member written as a number
			for i, v := range g.enumDef[ref].Values {
				if v != 0 {
					st.Fields = append(st.Fields, &rc.FieldJ{Name: "dn", Tag: tag, Type: &rc.TypeJ{K: "enum", Ref: ref},
						HasDefault: true, DefKind: "int", DefStr: strconv.FormatInt(int64(v), 10), DefaultSrc: strconv.FormatInt(int64(v), 10)})
					tag++
					_ = i
					break
				}
			}
		}
		// and two fixed-size array members, an optional and a required one (arrays are rare
		// among the drawn member types)
		for k, req := range []bool{false, true} {
			el := g.drawType(1, false, label+".dael")
			if !g.arrayElemOK(el) {
				el = &rc.TypeJ{K: scalarKinds[g.pick(len(scalarKinds), label+".daes")]}
			}
			if !g.arrayElemOK(el) {
				continue
			}
			st.Fields = append(st.Fields, &rc.FieldJ{Name: fmt.Sprintf("da%d", k), Tag: tag, Require: req,
				Type: &rc.TypeJ{K: "array", Elem: el, N: rapid.IntRange(1, 4).Draw(g.rt, label+".dan")}})
			tag += 1 + g.pick(2, label+".dagap")
		}
		// byte vectors of both signednesses as the last members (optional: nothing required follows them)
		for k, bk := range []string{"byte", "unsigned byte"} {
			st.Fields = append(st.Fields, &rc.FieldJ{Name: fmt.Sprintf("db%d", k), Tag: tag, Type: &rc.TypeJ{K: "vector", Elem: &rc.TypeJ{K: bk}}})
			tag++
		}
		m.Structs = append(m.Structs, st)
		m.DeclOrder = append(m.DeclOrder, seq(len(st.Fields)))
		g.structs = append(g.structs, name+"."+sname)
	}
	// a "boundary" struct: optional members just below the extended-tag boundary followed
	// by members with tags 15, 16 and 255 (two-byte heads); declared last so that the
	// interfaces below tend to use it
	if !enumOnly && g.pick(3, label+".boundary") > 0 {
		sname := fmt.Sprintf("SB%s", name)
		st := &rc.StructJ{Module: name, Name: sname}
		tags := []int{rapid.IntRange(0, 12).Draw(g.rt, label+".btag0"), 13, 14, 15, 16, 255}
		names := []string{"lo", "m13", "m14", "m15", "m16", "top"}
		for i, tg := range tags {
			if i > 0 && tg <= tags[i-1] {
				continue
			}
			if g.pick(5, label+".bskip") == 0 && tg != 15 {
				continue
			}
			f := &rc.FieldJ{Name: names[i], Tag: tg, Require: g.pick(4, label+".breq") == 0}
			f.Type = g.drawType(1, false, label+".bt")
			switch f.Type.K {
			case "vector", "map", "struct", "array":
			default:
				if g.pick(2, label+".bdef") == 0 {
					g.drawDefault(f, label+".bdv")
				}
			}
			st.Fields = append(st.Fields, f)
		}
		m.Structs = append(m.Structs, st)
		m.DeclOrder = append(m.DeclOrder, seq(len(st.Fields)))
		g.structs = append(g.structs, name+"."+sname)
		g.boundary = append(g.boundary, name+"."+sname)
	}
	ni := rapid.IntRange(0, 2).Draw(g.rt, label+".niface")
	for i := 0; i < ni; i++ {
		it := &rc.IfaceJ{Module: name, Name: fmt.Sprintf("I%s%d", name, i)}
		nf := rapid.IntRange(1, 5).Draw(g.rt, label+".nfunc")
		for j := 0; j < nf; j++ {
			fn := &rc.FuncJ{Name: fmt.Sprintf("fn%d", j)}
			if g.pick(4, label+".upperfn") == 0 {
				fn.Name = fmt.Sprintf("Fn%d", j)
			}
			if g.pick(4, label+".void") > 0 {
				fn.Ret = g.drawType(0, false, label+".ret")
			}
			na := rapid.IntRange(0, 6).Draw(g.rt, label+".nargs")
			pn := rapid.Permutation(paramNames).Draw(g.rt, label+".pn")
			for a := 0; a < na; a++ {
				fn.Args = append(fn.Args, &rc.ArgJ{Name: pn[a], Out: g.pick(3, label+".out") == 0, Type: g.drawType(0, false, label+".at")})
			}
			it.Funcs = append(it.Funcs, fn)
		}
		m.Ifaces = append(m.Ifaces, it)
	}
	return m
}

// GenProgram is the rapid generator of IDL programs. Module names embed the program id so
// that all generated Go packages of one run are distinct.
func GenProgram(pid int, allow Allow) *rapid.Generator[*Program] {
	return rapid.Custom(func(rt *rapid.T) *Program {
		g := &genCtx{rt: rt, pid: pid, allow: allow, enumDef: map[string]*rc.EnumJ{}}
		p := &Program{ID: pid, WithoutTrace: rapid.Bool().Draw(rt, "withoutTrace"), AddServant: rapid.IntRange(0, 3).Draw(rt, "addServant") > 0}
		p.JsonOmitEmpty = rapid.IntRange(0, 3).Draw(rt, "jsonOmitEmpty") == 0
		p.DispatchReporter = rapid.IntRange(0, 3).Draw(rt, "dispatchReporter") == 0
		p.ModuleUpper = rapid.IntRange(0, 3).Draw(rt, "moduleUpper") == 0
		// the file/module layout cycles with the program number, so that every run with four
		// or more programs has each layout (a drawn layout left 1 run in 6 without a
		// two-modules-in-one-file program)
		shape := (pid + rapid.IntRange(0, 0).Draw(rt, "shape")) % 4
		base := fmt.Sprintf("q%d", pid)
		switch shape {
		case 0: // one file, one module
			root := &File{Name: fmt.Sprintf("P%da.tars", pid)}
			root.Modules = append(root.Modules, g.drawModule(base+"a", "ma"))
			p.Files = []*File{root}
		case 1: // one file, two modules (second may use the first)
			root := &File{Name: fmt.Sprintf("P%da.tars", pid)}
			root.Modules = append(root.Modules, g.drawModule(base+"a", "ma"), g.drawModule(base+"b", "mb"))
			p.Files = []*File{root}
		default: // root includes a second file whose module it references
			inc := &File{Name: fmt.Sprintf("P%db.tars", pid)}
			inc.Modules = append(inc.Modules, g.drawModule(base+"b", "mb"))
			root := &File{Name: fmt.Sprintf("P%da.tars", pid), Includes: []string{inc.Name}}
			root.Modules = append(root.Modules, g.drawModule(base+"a", "ma"))
			p.Files = []*File{root, inc}
		}
		return p
	})
}
