package idlgen

import (
	"fmt"
	"strconv"
	"strings"

	rc "verif/harness/refcodec"
)

// A small reader for .tars files, independent of tars2go's lexer/parser. It understands
// what the framework's own protocol files use: comments, #include, module, enum, const,
// struct members (tag require|optional type name [= default] ;), key[...], interfaces.

type miniTok struct {
	s    string
	str  bool // string literal
	line int
}

func miniLex(src string) ([]miniTok, error) {
	var out []miniTok
	line := 1
	i := 0
	for i < len(src) {
		c := src[i]
		switch {
		case c == '\n':
			line++
			i++
		case c == ' ' || c == '\t' || c == '\r' || c == '\f' || c == '\v':
			i++
		case c == '/' && i+1 < len(src) && src[i+1] == '/':
			for i < len(src) && src[i] != '\n' {
				i++
			}
		case c == '/' && i+1 < len(src) && src[i+1] == '*':
			j := strings.Index(src[i+2:], "*/")
			if j < 0 {
				return nil, fmt.Errorf("line %d: unterminated comment", line)
			}
			line += strings.Count(src[i:i+2+j+2], "\n")
			i += 2 + j + 2
		case c == '"':
			j := strings.IndexByte(src[i+1:], '"')
			if j < 0 {
				return nil, fmt.Errorf("line %d: unterminated string", line)
			}
			out = append(out, miniTok{s: src[i+1 : i+1+j], str: true, line: line})
			i += j + 2
		case strings.ContainsRune("{};=<>,()[]", rune(c)):
			out = append(out, miniTok{s: string(c), line: line})
			i++
		case c == '#':
			j := i + 1
			for j < len(src) && isIdent(src[j]) {
				j++
			}
			out = append(out, miniTok{s: src[i:j], line: line})
			i = j
		default:
			j := i
			for j < len(src) && (isIdent(src[j]) || src[j] == ':' || src[j] == '.' || src[j] == '-') {
				j++
			}
			if j == i {
				return nil, fmt.Errorf("line %d: unexpected character %q", line, c)
			}
			out = append(out, miniTok{s: src[i:j], line: line})
			i = j
		}
	}
	return out, nil
}

func isIdent(c byte) bool {
	return c == '_' || (c >= '0' && c <= '9') || (c >= 'a' && c <= 'z') || (c >= 'A' && c <= 'Z')
}

type miniParser struct {
	toks []miniTok
	pos  int
	mod  string
	// names of enums / structs seen (module-qualified) to classify Name types
	enums   map[string]*rc.EnumJ
	structs map[string]bool
}

func (p *miniParser) peek() string {
	if p.pos >= len(p.toks) {
		return ""
	}
	return p.toks[p.pos].s
}
func (p *miniParser) next() miniTok {
	if p.pos >= len(p.toks) {
		return miniTok{}
	}
	t := p.toks[p.pos]
	p.pos++
	return t
}
func (p *miniParser) expect(s string) error {
	t := p.next()
	if t.s != s || t.str {
		return fmt.Errorf("line %d: expected %q, got %q", t.line, s, t.s)
	}
	return nil
}

func (p *miniParser) parseType() (*rc.TypeJ, error) {
	t := p.next()
	switch t.s {
	case "unsigned":
		in, err := p.parseType()
		if err != nil {
			return nil, err
		}
		in.K = "unsigned " + in.K
		return in, nil
	case "bool", "byte", "short", "int", "long", "float", "double", "string":
		return &rc.TypeJ{K: t.s}, nil
	case "vector":
		if err := p.expect("<"); err != nil {
			return nil, err
		}
		el, err := p.parseType()
		if err != nil {
			return nil, err
		}
		if err := p.expect(">"); err != nil {
			return nil, err
		}
		return &rc.TypeJ{K: "vector", Elem: el}, nil
	case "map":
		if err := p.expect("<"); err != nil {
			return nil, err
		}
		k, err := p.parseType()
		if err != nil {
			return nil, err
		}
		if err := p.expect(","); err != nil {
			return nil, err
		}
		v, err := p.parseType()
		if err != nil {
			return nil, err
		}
		if err := p.expect(">"); err != nil {
			return nil, err
		}
		return &rc.TypeJ{K: "map", Key: k, Elem: v}, nil
	}
	name := t.s
	ref := p.mod + "." + name
	if i := strings.Index(name, "::"); i >= 0 {
		ref = name[:i] + "." + name[i+2:]
	}
	if _, ok := p.enums[ref]; ok {
		return &rc.TypeJ{K: "enum", Ref: ref}, nil
	}
	if p.structs[ref] {
		return &rc.TypeJ{K: "struct", Ref: ref}, nil
	}
	return nil, fmt.Errorf("line %d: unknown type %q", t.line, name)
}

func (p *miniParser) skipBlock() {
	depth := 0
	for p.pos < len(p.toks) {
		t := p.next()
		if t.str {
			continue
		}
		if t.s == "{" {
			depth++
		} else if t.s == "}" {
			depth--
			if depth == 0 {
				if p.peek() == ";" {
					p.next()
				}
				return
			}
		}
	}
}

// ReadTars parses one .tars source and appends its enums/structs to the schema.
func ReadTars(src string, sj *rc.SchemaJ) error {
	toks, err := miniLex(src)
	if err != nil {
		return err
	}
	p := &miniParser{toks: toks, enums: map[string]*rc.EnumJ{}, structs: map[string]bool{}}
	for _, e := range sj.Enums {
		p.enums[e.Module+"."+e.Name] = e
	}
	for _, s := range sj.Structs {
		p.structs[s.Module+"."+s.Name] = true
	}
	for p.pos < len(p.toks) {
		t := p.next()
		switch t.s {
		case "#include":
			p.next()
		case "module":
			p.mod = p.next().s
			if err := p.expect("{"); err != nil {
				return err
			}
			if err := p.parseModuleBody(sj); err != nil {
				return err
			}
		default:
			return fmt.Errorf("line %d: unexpected %q at top level", t.line, t.s)
		}
	}
	return nil
}

func (p *miniParser) parseModuleBody(sj *rc.SchemaJ) error {
	for {
		t := p.next()
		switch t.s {
		case "}":
			if p.peek() == ";" {
				p.next()
			}
			return nil
		case "":
			return fmt.Errorf("unexpected end of file in module %s", p.mod)
		case "const":
			for p.pos < len(p.toks) && p.next().s != ";" {
			}
		case "key":
			for p.pos < len(p.toks) && p.next().s != ";" {
			}
		case "interface":
			p.skipBlock()
		case "enum":
			e := &rc.EnumJ{Module: p.mod, Name: p.next().s}
			if err := p.expect("{"); err != nil {
				return err
			}
			next := int32(0)
			for p.peek() != "}" {
				n := p.next().s
				v := next
				if p.peek() == "=" {
					p.next()
					x, err := strconv.ParseInt(p.next().s, 0, 32)
					if err != nil {
						return err
					}
					v = int32(x)
				}
				e.Names = append(e.Names, n)
				e.Values = append(e.Values, v)
				next = v + 1
				if p.peek() == "," {
					p.next()
				}
			}
			p.next()
			if p.peek() == ";" {
				p.next()
			}
			sj.Enums = append(sj.Enums, e)
			p.enums[p.mod+"."+e.Name] = e
		case "struct":
			st := &rc.StructJ{Module: p.mod, Name: p.next().s}
			if err := p.expect("{"); err != nil {
				return err
			}
			for p.peek() != "}" {
				tagTok := p.next()
				tag, err := strconv.Atoi(tagTok.s)
				if err != nil {
					return fmt.Errorf("line %d: bad tag %q", tagTok.line, tagTok.s)
				}
				rq := p.next().s
				if rq != "require" && rq != "optional" {
					return fmt.Errorf("line %d: expected require/optional", tagTok.line)
				}
				ty, err := p.parseType()
				if err != nil {
					return err
				}
				f := &rc.FieldJ{Name: p.next().s, Tag: tag, Require: rq == "require", Type: ty}
				if p.peek() == "[" {
					p.next()
					n, err := strconv.Atoi(p.next().s)
					if err != nil {
						return err
					}
					if err := p.expect("]"); err != nil {
						return err
					}
					f.Type = &rc.TypeJ{K: "array", Elem: ty, N: n}
				}
				if p.peek() == "=" {
					p.next()
					d := p.next()
					f.HasDefault = true
					f.DefaultSrc = d.s
					switch {
					case d.str:
						f.DefKind, f.DefStr, f.DefaultSrc = "string", d.s, "\""+d.s+"\""
					case d.s == "true" || d.s == "false":
						f.DefKind, f.DefStr = "bool", d.s
					case ty.K == "enum":
						e := p.enums[ty.Ref]
						name := d.s
						if i := strings.Index(name, "::"); i >= 0 {
							name = name[i+2:]
						}
						found := false
						for i, n := range e.Names {
							if n == name {
								f.DefKind, f.DefStr, found = "int", strconv.Itoa(int(e.Values[i])), true
							}
						}
						if !found {
							if _, err := strconv.ParseInt(d.s, 0, 64); err != nil {
								return fmt.Errorf("line %d: unknown enum default %q", d.line, d.s)
							}
							f.DefKind, f.DefStr = "int", d.s
						}
					case strings.Contains(d.s, ".") && !strings.HasPrefix(d.s, "0x"):
						f.DefKind, f.DefStr = "float", d.s
					default:
						if _, err := strconv.ParseInt(d.s, 0, 64); err != nil {
							return fmt.Errorf("line %d: bad default %q", d.line, d.s)
						}
						f.DefKind, f.DefStr = "int", d.s
					}
				}
				if err := p.expect(";"); err != nil {
					return err
				}
				st.Fields = append(st.Fields, f)
			}
			p.next()
			if p.peek() == ";" {
				p.next()
			}
			sj.Structs = append(sj.Structs, st)
			p.structs[p.mod+"."+st.Name] = true
		default:
			return fmt.Errorf("line %d: unexpected %q in module", t.line, t.s)
		}
	}
}
