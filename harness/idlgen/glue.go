package idlgen

import rc "verif/harness/refcodec"

// EmitGlue is implemented in glue_emit.go (servant glue for C01/C10/C16).
var EmitGlue = func(pkg string, sj *rc.SchemaJ, imports map[string]string, infos []*ProgramInfo) string {
	return "package " + pkg + "\n"
}
