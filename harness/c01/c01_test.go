// C01 — end-to-end call transparency through generated proxy and dispatcher over TCP.
package c01

import (
	"testing"

	"verif/harness/gen/regp"
	rc "verif/harness/refcodec"
	"verif/harness/rpcprops"
	"verif/harness/stat"
)

var st = stat.New("C01", rpcprops.C01Rule,
	"servers run on the transport path (transport.NewTarsServer + tars.NewTarsProtocol bound to the default application through an overlay accessor), i.e. what application.AddServant builds, without a config file",
	"error outcomes use codes != 0 and non-empty messages; option maps passed by callers are non-nil",
	"filter configurations are pure per side (none / legacy single / pre+post / middleware); mixed registrations are not generated because the property does not define which of them see a call",
	"interleavings of concurrent callers are sampled by the Go scheduler, not enumerated")

func TestC01(t *testing.T) {
	defer st.Emit()
	schema, err := rc.ParseSchema([]byte(regp.SchemaJSON))
	if err != nil {
		t.Fatalf("VERIF-INFRA schema: %v", err)
	}
	env := rpcprops.NewEnv(schema, regp.NewProxy, func(key string, h *rpcprops.Hub, wc bool) any { return regp.NewServant[key](h, wc) })
	if len(env.Ifaces) == 0 {
		t.Fatalf("VERIF-INFRA no generated interface in this program sample")
	}
	st.Extra("interfaces", len(env.Ifaces))
	env.RunC01(t, st, "c01", 800, 8000)
}
