// C19 — worker pool (tars/util/gpool): every job exactly once, bounded parallelism,
// Release semantics.
//
// One rapid-drawn Case = one pool life: {workers 1..8, queue capacity 0..16, 1..6
// submitter goroutines, 0..200 self-terminating jobs with drawn durations (nothing /
// runtime.Gosched / sleep 10µs..3ms) and drawn yields inside jobs and submitters, a
// release point}. Jobs are submitted exactly like the real callers do
// (tars/transport/tcphandler.go, udphandler.go): `pool.JobQueue <- fn`; the pool is
// released with pool.Release() only after every submitter has returned (submitting
// concurrently with / after Release is outside the property and never generated).
//
// Release points
//
//	idle       wait until every job has finished, check exactly-once, (drawn pause), Release.
//	           Oracles: Release returns (bounded), afterwards no goroutine executing gpool
//	           code that was not there before NewPool (stack dump), counters unchanged.
//	running    after the submitters returned, k<=workers *gated* jobs (block on a channel)
//	           plus e extra jobs are submitted (e<=queue capacity when k==workers so the
//	           property itself says the submitter cannot stay blocked: queue has room);
//	           once the k gated jobs run, Release is called concurrently, after a drawn
//	           hold time the harness checks Release has NOT returned, then opens the gate.
//	immediate  Release right after the submitters returned (jobs may be running, handed
//	           over or still queued; with 0 jobs: a freshly created pool).
//
// After Release returned (all release points): number of running jobs read right after the
// return must be 0 (Release returns only after running jobs finished); the job start
// sequence number read right after the return never changes again and no job sees the
// "released" flag at its start (no job starts afterwards); every job ran at most once; jobs
// still queued at Release time are NOT required to run (the property only promises
// execution "as long as the pool has not been released").
// All the time: high-water mark of concurrently running jobs <= workers.
//
// Timing discipline: every wait is a no-progress watchdog: it gives up only when none of the
// monotone counters (sends completed, job starts, job completions, pool goroutines gone) has
// moved for `window` (5 s + 20 x the longest drawn sleep) - the length of a case therefore
// does not matter, only the latency of one scheduling step. A missed wait is a *suspicion*
// only: the same case is re-run alone twice with the doubled window, it is reported only if
// both re-runs miss as well, otherwise st.Inconclusive().
//
// After the first reported violation in a process everything that follows is rapid's
// shrinking; it cannot change the verdict and runs with a 1.5 s window and one confirmation.
//
// Sensitivity (scratch worktree, VERIF_REPO=/tmp/wt_c19 ./check C19, quick tier, every one
// exits 1; hang-type mutants take ~65 s because of the confirmation re-runs, the others 2 s):
//
//	M1  worker runs the job twice (`job(); job()`)                      -> exactly-once
//	M2  worker registers in WorkerQueue only once (no re-registration)  -> submit-stall / jobs-not-executed (confirmed)
//	M3a Release without `<-p.stop`                                      -> release-early, pool-goroutines-alive
//	M3b dispatcher does not wait for the worker's `<-worker.Stop`       -> pool-goroutines-alive (confirmed)
//	M4  dispatcher drops the job when no worker is immediately free     -> jobs-not-executed (confirmed)
//	M5  one extra worker started (cap+1)                                -> parallelism, pool-goroutines-alive
//	M6  after the stop handshake the dispatcher dequeues one queued job
//	    and starts it (`go job()`)                                      -> start-after-release, release-early
//	M6b same, but right after the stop signal was accepted              -> parallelism, release-early
//	M7  (own) queue created with half the capacity                      -> queue-capacity
//	M8  (own) dispatcher stops only cap-1 workers                       -> pool-goroutines-alive (confirmed)
//
// (A variant of M6 that hands the late job to a regular worker and still waits for it before
// Release returns is indistinguishable under the property text and is not claimed.)
package c19

import (
	"bytes"
	"flag"
	"fmt"
	"os"
	"runtime"
	"sync"
	"sync/atomic"
	"testing"
	"time"

	"github.com/TarsCloud/TarsGo/tars/util/gpool"
	"pgregory.net/rapid"

	"verif/harness/stat"
)

var st = stat.New("C19",
	"one case = one pool life: workers 1..8, queue capacity 0..16 (0/1 boosted), 1..6 submitter goroutines, 0..200 jobs with drawn duration (0 / Gosched / sleep 10µs..3ms) and drawn yields in jobs and submitters, (sub-check large-queue: capacities 17..300000 incl. 65535/65536/65537 - with every worker held on a gate, workers + 1 + capacity submissions must go through without stalling, the next one must block until the gate opens, and every job runs exactly once) release point idle / while k gated jobs run (+e extra jobs, e<=queue capacity when k==workers) / immediately after the submitters returned. Non-trivial = jobs > workers + queue capacity (back-pressure) and >= 2 submitters that actually submit. Distinct = distinct case JSON.",
	"jobs are submitted like the real callers do (pool.JobQueue <- fn); Release is called only after all submitters returned (submit concurrent with/after Release is outside the property)",
	"jobs still queued when Release is called are not required to run; they must run at most once and not start after Release returned",
	"Release on a pool that still has running/queued jobs is expected to return once the running jobs finished (second sentence of the statement; tcphandler.Shutdown relies on it)",
	"'stops all workers' is observed as: no goroutine whose stack contains tars/util/gpool frames beyond those present before NewPool (asserted for idle release only)",
	"waits give up only after 5 s (+20 x longest drawn sleep) without any progress of the send/start/completion counters; such a miss is a suspicion: confirmed by two solo re-runs with doubled window, else counted inconclusive")

// ---------------------------------------------------------------------------- case

// JobSpec is one self-terminating job of phase 1.
type JobSpec struct {
	Sub    int `json:"s"`            // submitter index
	Dur    int `json:"d"`            // 0 nothing, -1 runtime.Gosched, >0 sleep microseconds
	Yields int `json:"y,omitempty"`  // Gosched calls inside the job before its body
	SubY   int `json:"sy,omitempty"` // Gosched calls of the submitter before the send
	SubP   int `json:"sp,omitempty"` // microseconds the submitter sleeps before the send
}

// P2 is one job of phase 2 (release point "running"): gated jobs block until the harness
// opens the gate, the others are self-terminating.
type P2 struct {
	Gated  bool `json:"g,omitempty"`
	Dur    int  `json:"d"`
	Yields int  `json:"y,omitempty"`
}

type Case struct {
	Workers    int       `json:"workers"`
	QueueCap   int       `json:"qcap"`
	Submitters int       `json:"submitters"`
	Release    string    `json:"release"` // idle | running | immediate
	Jobs       []JobSpec `json:"jobs"`
	Phase2     []P2      `json:"phase2,omitempty"`
	PreUs      int       `json:"pre_us,omitempty"`    // idle: pause between "all finished" and Release
	HoldUs     int       `json:"hold_us,omitempty"`   // running: Release call -> gate opens
	SettleUs   int       `json:"settle_us,omitempty"` // Release returned -> final counter read
}

func durGen(profile int) *rapid.Generator[int] {
	short := rapid.IntRange(10, 200)
	long := rapid.IntRange(200, 3000)
	switch profile {
	case 0: // churn: no job takes time
		return rapid.SampledFrom([]int{0, 0, 0, -1})
	case 1: // yield heavy
		return rapid.OneOf(rapid.Just(-1), rapid.Just(-1), rapid.Just(0), short)
	case 2: // mixed, a few long ones
		return rapid.OneOf(rapid.Just(0), rapid.Just(0), rapid.Just(0), rapid.Just(-1), rapid.Just(-1), short, short, short,
			rapid.OneOf(short, short, short, long))
	default: // every job sleeps a little (keeps workers busy -> back-pressure)
		return rapid.OneOf(short, short, short, short, short, rapid.IntRange(10, 40), long)
	}
}

func draw(rt *rapid.T) Case {
	c := Case{}
	c.Workers = rapid.OneOf(rapid.IntRange(1, 8), rapid.IntRange(1, 3)).Draw(rt, "workers")
	c.QueueCap = rapid.OneOf(rapid.IntRange(0, 16), rapid.IntRange(0, 16), rapid.SampledFrom([]int{0, 0, 1})).Draw(rt, "qcap")
	c.Submitters = rapid.IntRange(1, 6).Draw(rt, "submitters")
	c.Release = rapid.SampledFrom([]string{"idle", "idle", "running", "running", "immediate"}).Draw(rt, "release")
	profile := rapid.IntRange(0, 3).Draw(rt, "profile")
	wq := c.Workers + c.QueueCap
	maxJobs := 200
	if profile == 3 {
		maxJobs = 90 // keeps the sum of sleeps per case small
	}
	n := rapid.OneOf(rapid.IntRange(0, maxJobs), rapid.IntRange(wq+1, wq+40), rapid.IntRange(0, 12)).Draw(rt, "njobs")
	dg := durGen(profile)
	yg := rapid.SampledFrom([]int{0, 0, 0, 1, 2, 3})
	pg := rapid.OneOf(rapid.Just(0), rapid.Just(0), rapid.Just(0), rapid.Just(0), rapid.Just(0), rapid.Just(0), rapid.Just(0), rapid.IntRange(10, 300))
	c.Jobs = make([]JobSpec, n)
	for i := range c.Jobs {
		c.Jobs[i] = JobSpec{
			Sub:    rapid.IntRange(0, c.Submitters-1).Draw(rt, "sub"),
			Dur:    dg.Draw(rt, "dur"),
			Yields: yg.Draw(rt, "yields"),
			SubY:   yg.Draw(rt, "subyields"),
			SubP:   pg.Draw(rt, "subpause"),
		}
	}
	c.SettleUs = rapid.OneOf(rapid.Just(0), rapid.IntRange(0, 1000)).Draw(rt, "settle")
	switch c.Release {
	case "idle":
		c.PreUs = rapid.OneOf(rapid.Just(0), rapid.IntRange(0, 500)).Draw(rt, "pre")
	case "running":
		k := rapid.OneOf(rapid.Just(c.Workers), rapid.IntRange(1, c.Workers)).Draw(rt, "gated")
		var e int
		if k == c.Workers {
			// all workers will be held: only as many extra jobs as the queue has room for
			e = rapid.OneOf(rapid.Just(c.QueueCap), rapid.IntRange(0, c.QueueCap)).Draw(rt, "extras")
		} else {
			e = rapid.IntRange(0, 8).Draw(rt, "extras")
		}
		p2 := make([]P2, 0, k+e)
		for i := 0; i < k; i++ {
			p2 = append(p2, P2{Gated: true, Dur: dg.Draw(rt, "gdur"), Yields: yg.Draw(rt, "gyields")})
		}
		for i := 0; i < e; i++ {
			p2 = append(p2, P2{Dur: dg.Draw(rt, "edur"), Yields: yg.Draw(rt, "eyields")})
		}
		if rapid.Bool().Draw(rt, "shuffle") {
			p2 = rapid.Permutation(p2).Draw(rt, "order")
		}
		c.Phase2 = p2
		c.HoldUs = rapid.OneOf(rapid.Just(0), rapid.IntRange(0, 2000), rapid.IntRange(200, 2000)).Draw(rt, "hold")
	}
	return c
}

// sanitize makes a (hand-written / replayed) case respect the generator's constraints.
func (c *Case) sanitize() {
	clamp := func(v *int, lo, hi int) {
		if *v < lo {
			*v = lo
		}
		if *v > hi {
			*v = hi
		}
	}
	clamp(&c.Workers, 1, 64)
	clamp(&c.QueueCap, 0, 1024)
	clamp(&c.Submitters, 1, 64)
	clamp(&c.PreUs, 0, 100000)
	clamp(&c.HoldUs, 0, 15000000)
	clamp(&c.SettleUs, 0, 100000)
	for i := range c.Jobs {
		clamp(&c.Jobs[i].Sub, 0, c.Submitters-1)
		clamp(&c.Jobs[i].Dur, -1, 100000)
		clamp(&c.Jobs[i].Yields, 0, 100)
		clamp(&c.Jobs[i].SubY, 0, 100)
		clamp(&c.Jobs[i].SubP, 0, 100000)
	}
	if c.Release != "running" {
		c.Phase2 = nil
	} else {
		k, e := 0, 0
		out := c.Phase2[:0:0]
		for _, p := range c.Phase2 {
			clamp(&p.Dur, -1, 100000)
			clamp(&p.Yields, 0, 100)
			if p.Gated {
				if k == c.Workers {
					continue
				}
				k++
			} else {
				e++
			}
			out = append(out, p)
		}
		if k == c.Workers && e > c.QueueCap { // drop surplus extras (would legitimately block the submitter)
			keep := c.QueueCap
			o2 := out[:0:0]
			for _, p := range out {
				if !p.Gated {
					if keep == 0 {
						continue
					}
					keep--
				}
				o2 = append(o2, p)
			}
			out = o2
		}
		c.Phase2 = out
		if k == 0 {
			c.Release = "immediate"
			c.Phase2 = nil
		}
	}
	if c.Release != "idle" && c.Release != "running" && c.Release != "immediate" {
		c.Release = "idle"
	}
}

func (c Case) gated() (k, e int) {
	for _, p := range c.Phase2 {
		if p.Gated {
			k++
		} else {
			e++
		}
	}
	return
}

func (c Case) activeSubmitters() int {
	seen := map[int]bool{}
	for _, j := range c.Jobs {
		seen[j.Sub] = true
	}
	return len(seen)
}

// maxSleep is the longest single drawn sleep of the case (microseconds).
func (c Case) maxSleep() int {
	m := c.PreUs
	for _, v := range []int{c.HoldUs, c.SettleUs} {
		m = max(m, v)
	}
	for _, j := range c.Jobs {
		m = max(m, j.Dur, j.SubP)
	}
	for _, p := range c.Phase2 {
		m = max(m, p.Dur)
	}
	return m
}

// windowBase: the watchdog of every wait fires only when NO counter moved for the whole
// window. One step of progress needs one goroutine wake-up (plus at most one drawn sleep of
// <= 3 ms); the longest gap between two counter movements observed with 16 CPU burners +
// three concurrent ./check C19 (incl. -race) on 16 cores is reported in the evidence
// (extra.max_progress_gap_ms, sampled every 10 ms) and stayed two orders of magnitude below.
const windowBase = 5 * time.Second

// hardCap bounds a whole wait even if counters keep moving (a pool that runs jobs for ever).
const hardCap = 3 * time.Minute

func (c Case) window(factor int) time.Duration {
	return time.Duration(factor) * (windowBase + 20*time.Duration(c.maxSleep())*time.Microsecond)
}

// ---------------------------------------------------------------------------- execution

type runState struct {
	workers      int
	started      []atomic.Int32 // per job: times the body was entered
	counts       []atomic.Int32 // per job: times the body completed
	startSeq     atomic.Int64   // total job starts
	running      atomic.Int32
	hw           atomic.Int32 // high-water mark of running
	fin1         atomic.Int32 // completions of phase-1 jobs
	n1           int32
	all1         chan struct{} // closed when fin1 == n1
	gatedUp      atomic.Int32
	kGated       int32
	allGatedUp   chan struct{}
	gate         chan struct{}
	gateOnce     sync.Once
	released     atomic.Bool  // set right after Release returned
	lateStarts   atomic.Int32 // jobs that saw released==true at their start
	blockedSends atomic.Int32 // sends that could not complete immediately (observed back-pressure)
	submitted    atomic.Int32
	completed    atomic.Int64 // total job completions
}

func (r *runState) openGate() { r.gateOnce.Do(func() { close(r.gate) }) }

func spend(dur, yields int) {
	for y := 0; y < yields; y++ {
		runtime.Gosched()
	}
	switch {
	case dur < 0:
		runtime.Gosched()
	case dur > 0:
		time.Sleep(time.Duration(dur) * time.Microsecond)
	}
}

func (r *runState) job(i int, dur, yields int, gated, phase1 bool) gpool.Job {
	return func() {
		r.startSeq.Add(1)
		if r.released.Load() {
			r.lateStarts.Add(1)
		}
		cur := r.running.Add(1)
		for {
			h := r.hw.Load()
			if cur <= h || r.hw.CompareAndSwap(h, cur) {
				break
			}
		}
		r.started[i].Add(1)
		if gated {
			if r.gatedUp.Add(1) == r.kGated {
				close(r.allGatedUp)
			}
			<-r.gate
		}
		spend(dur, yields)
		r.counts[i].Add(1)
		r.completed.Add(1)
		r.running.Add(-1)
		if phase1 && r.fin1.Add(1) == r.n1 {
			close(r.all1)
		}
	}
}

func (r *runState) send(pool *gpool.Pool, fn gpool.Job) {
	select {
	case pool.JobQueue <- fn: // same channel operation as the callers' plain send
	default:
		r.blockedSends.Add(1)
		pool.JobQueue <- fn
	}
	r.submitted.Add(1)
}

func waitCh(ch <-chan struct{}, d time.Duration) bool {
	t := time.NewTimer(d)
	defer t.Stop()
	select {
	case <-ch:
		return true
	case <-t.C:
		return false
	}
}

func (r *runState) progress() int64 {
	return int64(r.submitted.Load()) + r.startSeq.Load() + r.completed.Load() + int64(r.gatedUp.Load())
}

var maxGap atomic.Int64 // longest observed interval without counter movement inside a successful wait (ns)

// await waits for ch; it gives up (false) only when the progress counters have not moved
// for `window`, or after hardCap.
func (r *runState) await(ch <-chan struct{}, window time.Duration) bool {
	select {
	case <-ch:
		return true
	default:
	}
	start := time.Now()
	last, lastChange := r.progress(), start
	tick := time.NewTicker(10 * time.Millisecond)
	defer tick.Stop()
	gap := time.Duration(0)
	defer func() {
		for {
			cur := maxGap.Load()
			if int64(gap) <= cur || maxGap.CompareAndSwap(cur, int64(gap)) {
				return
			}
		}
	}()
	for {
		select {
		case <-ch:
			gap = max(gap, time.Since(lastChange))
			return true
		case now := <-tick.C:
			if p := r.progress(); p != last {
				gap = max(gap, now.Sub(lastChange))
				last, lastChange = p, now
			} else if now.Sub(lastChange) >= window {
				gap = 0 // not a successful wait
				return false
			}
			if now.Sub(start) >= hardCap {
				gap = 0
				return false
			}
		}
	}
}

// poolGoroutines counts the goroutines whose stack mentions the gpool package (workers,
// dispatcher, callers inside Release) and returns their dump.
func poolGoroutines() (int, string) {
	buf := make([]byte, 1<<16)
	for {
		m := runtime.Stack(buf, true)
		if m < len(buf) {
			buf = buf[:m]
			break
		}
		buf = make([]byte, 2*len(buf))
	}
	n := 0
	var keep bytes.Buffer
	for _, g := range bytes.Split(buf, []byte("\n\n")) {
		if bytes.Contains(g, []byte("/tars/util/gpool.")) {
			n++
			if keep.Len() < 1500 {
				keep.Write(g)
				keep.WriteString("\n--\n")
			}
		}
	}
	return n, keep.String()
}

// observation of one attempt, turned into evidence classes by run().
type obs struct {
	hw            int
	blockedSends  int
	runningAtCall int
	unstarted     int // jobs that never started (were still queued at Release)
	startedInRel  int // jobs that started between the Release call and its return
	elapsed       time.Duration
}

// attempt executes the case once. fail = definite violation; stall = a bounded wait was
// missed (suspicion, to be confirmed by the caller).
func attempt(c Case, window time.Duration) (fail, stall *stat.Failure, o obs) {
	t0 := time.Now()
	defer func() { o.elapsed = time.Since(t0) }()
	W, Q := c.Workers, c.QueueCap
	n1 := len(c.Jobs)
	n := n1 + len(c.Phase2)
	k, _ := c.gated()
	r := &runState{workers: W, started: make([]atomic.Int32, n), counts: make([]atomic.Int32, n), n1: int32(n1),
		all1: make(chan struct{}), kGated: int32(k), allGatedUp: make(chan struct{}), gate: make(chan struct{})}
	if n1 == 0 {
		close(r.all1)
	}
	idle := c.Release == "idle" || (c.Release == "immediate" && n1 == 0)
	base := 0
	if idle {
		base, _ = poolGoroutines()
	}
	desc := fmt.Sprintf("workers=%d qcap=%d submitters=%d jobs=%d release=%s", W, Q, c.Submitters, n1, c.Release)

	var pool *gpool.Pool
	func() {
		defer func() {
			if p := recover(); p != nil {
				fail = stat.Failf("panic", "%s: NewPool panicked: %v", desc, p)
			}
		}()
		pool = gpool.NewPool(W, Q)
	}()
	if fail != nil {
		return
	}
	var subs sync.WaitGroup
	subsDone := make(chan struct{})
	// abandon: an attempt that gives up (stall / early definite failure) must not leave the
	// pool behind if it can be helped: let everything drain in the background, then release.
	abandon := func() {
		r.openGate()
		go func() { <-subsDone; pool.Release() }()
	}
	state := func() string {
		return fmt.Sprintf("submitted %d/%d, starts %d, finished(phase1) %d/%d, running now %d, len(JobQueue)=%d/%d, idle workers registered=%d",
			r.submitted.Load(), n, r.startSeq.Load(), r.fin1.Load(), n1, r.running.Load(), len(pool.JobQueue), cap(pool.JobQueue), len(pool.WorkerQueue))
	}

	if cap(pool.JobQueue) != Q {
		close(subsDone)
		abandon()
		fail = stat.Failf("queue-capacity", "%s: NewPool(%d,%d) created a job queue of capacity %d: submitters block although the configured queue is not full", desc, W, Q, cap(pool.JobQueue))
		return
	}

	// ---- phase 1: S submitters
	bySub := make([][]int, c.Submitters)
	for i, j := range c.Jobs {
		bySub[j.Sub] = append(bySub[j.Sub], i)
	}
	for s := 0; s < c.Submitters; s++ {
		idx := bySub[s]
		if len(idx) == 0 {
			continue
		}
		subs.Add(1)
		go func() {
			defer subs.Done()
			for _, i := range idx {
				j := c.Jobs[i]
				spend(j.SubP, j.SubY)
				r.send(pool, r.job(i, j.Dur, j.Yields, false, true))
			}
		}()
	}
	go func() { subs.Wait(); close(subsDone) }()
	if !r.await(subsDone, window) {
		stall = stat.Failf("submit-stall", "%s: submitters still blocked in `pool.JobQueue <- job`, no send/start/completion for %v, although every job terminates by itself (%s)", desc, window, state())
		abandon()
		return
	}

	exactlyOnce := func(when string, upto int) *stat.Failure {
		for i := 0; i < upto; i++ {
			if s, f := r.started[i].Load(), r.counts[i].Load(); s != 1 || f != 1 {
				return stat.Failf("exactly-once", "%s: %s job #%d was started %d times and completed %d times (want exactly once); %s", desc, when, i, s, f, state())
			}
		}
		return nil
	}

	p2done := make(chan struct{})
	switch c.Release {
	case "idle":
		if !r.await(r.all1, window) {
			stall = stat.Failf("jobs-not-executed", "%s: pool not released, all %d jobs submitted, but only %d completions and no further progress for %v (%s)", desc, n1, r.fin1.Load(), window, state())
			abandon()
			return
		}
		if f := exactlyOnce("before Release, after the last completion,", n1); f != nil {
			abandon()
			return f, nil, o
		}
		spend(c.PreUs, 0)
	case "running":
		go func() {
			defer close(p2done)
			for x, p := range c.Phase2 {
				r.send(pool, r.job(n1+x, p.Dur, p.Yields, p.Gated, false))
			}
		}()
		if !r.await(p2done, window) {
			stall = stat.Failf("submit-stall", "%s: phase 2 (%d gated + extras that fit the queue) still blocked in `pool.JobQueue <- job`, no progress for %v (%s)", desc, k, window, state())
			r.openGate()
			go func() { <-p2done; pool.Release() }()
			return
		}
		if !r.await(r.allGatedUp, window) {
			stall = stat.Failf("jobs-not-executed", "%s: pool not released, %d gated jobs (<= workers) submitted, only %d started, no progress for %v (%s)", desc, k, r.gatedUp.Load(), window, state())
			abandon()
			return
		}
	}

	// ---- Release
	o.runningAtCall = int(r.running.Load())
	startsAtCall := r.startSeq.Load()
	relDone := make(chan struct{})
	var startsAtReturn int64
	var runningAtReturn int32
	var relPanic any
	go func() {
		defer close(relDone)
		defer func() { relPanic = recover() }()
		pool.Release()
		runningAtReturn = r.running.Load()
		startsAtReturn = r.startSeq.Load()
		r.released.Store(true)
	}()
	if c.Release == "running" {
		spend(c.HoldUs, 0)
		select {
		case <-relDone:
			if relPanic == nil {
				r.openGate()
				fail = stat.Failf("release-early", "%s: Release returned although %d jobs that were running when it was called are still blocked on their gate (running=%d)", desc, k, runningAtReturn)
				return
			}
		default:
		}
		r.openGate()
	}
	if !r.await(relDone, window) {
		sig, what := "release-hang-busy", "all running jobs terminate by themselves"
		if idle {
			sig, what = "release-hang", "the pool is idle (every submitted job finished before the call)"
		}
		stall = stat.Failf(sig, "%s: Release did not return, no progress for %v, although %s (%s)", desc, window, what, state())
		return
	}
	if relPanic != nil {
		return stat.Failf("panic", "%s: Release panicked: %v", desc, relPanic), nil, o
	}
	o.startedInRel = int(startsAtReturn - startsAtCall)
	if runningAtReturn != 0 {
		return stat.Failf("release-early", "%s: %d jobs were still running at the moment Release returned (%s)", desc, runningAtReturn, state()), nil, o
	}
	spend(c.SettleUs, 0)
	late := func(when string) *stat.Failure {
		if s := r.startSeq.Load(); s != startsAtReturn || r.lateStarts.Load() != 0 {
			return stat.Failf("start-after-release", "%s: %d job starts had happened when Release returned, %d %s (jobs that saw the released flag at start: %d); %s", desc, startsAtReturn, s, when, r.lateStarts.Load(), state())
		}
		return nil
	}
	if f := late(fmt.Sprintf("after a further %dµs", c.SettleUs)); f != nil {
		return f, nil, o
	}
	final := func() *stat.Failure {
		if idle {
			if f := exactlyOnce("after Release", n1); f != nil {
				return f
			}
		}
		for i := 0; i < n; i++ {
			s, f := r.started[i].Load(), r.counts[i].Load()
			if s > 1 || f > 1 {
				return stat.Failf("exactly-once", "%s: job #%d was started %d times and completed %d times (at most once allowed)", desc, i, s, f)
			}
			if s != f {
				return stat.Failf("release-early", "%s: job #%d started but had not completed after Release returned", desc, i)
			}
		}
		if h := int(r.hw.Load()); h > W {
			return stat.Failf("parallelism", "%s: %d jobs were running at the same time, pool has %d workers", desc, h, W)
		}
		return nil
	}
	if f := final(); f != nil {
		return f, nil, o
	}

	// ---- idle release: all workers stopped
	if idle {
		deadline := time.Now().Add(window)
		pause := 50 * time.Microsecond
		prev := -1
		for {
			cnt, dump := poolGoroutines()
			if cnt <= base {
				break
			}
			if prev < 0 || cnt < prev { // a goroutine exited: progress
				prev, deadline = cnt, time.Now().Add(window)
			}
			if time.Now().After(deadline) {
				stall = stat.Failf("pool-goroutines-alive", "%s: Release of the idle pool returned, but %d pool goroutines (beyond the %d present before NewPool) are still alive and none exited for %v:\n%s", desc, cnt-base, base, window, dump)
				return
			}
			time.Sleep(pause)
			if pause < 20*time.Millisecond {
				pause *= 2
			}
		}
		if f := late("after the worker-exit poll"); f != nil {
			return f, nil, o
		}
		if f := final(); f != nil {
			return f, nil, o
		}
	}
	o.hw = int(r.hw.Load())
	o.blockedSends = int(r.blockedSends.Load())
	for i := 0; i < n; i++ {
		if r.started[i].Load() == 0 {
			o.unstarted++
		}
	}
	return nil, nil, o
}

var slowest atomic.Int64 // slowest passing attempt (ns), reported as evidence

// verdictFixed: a violation was already returned to rapid in this process (see run).
var verdictFixed atomic.Bool

const shrinkWindow = 1500 * time.Millisecond

func run(c Case) *stat.Failure {
	c.sanitize()
	k, e := c.gated()
	n1 := len(c.Jobs)
	backpressure := n1 > c.Workers+c.QueueCap && c.activeSubmitters() >= 2
	classes := []string{"release:" + c.Release, fmt.Sprintf("workers:%d", c.Workers)}
	switch {
	case c.QueueCap == 0:
		classes = append(classes, "qcap:0")
	case c.QueueCap == 1:
		classes = append(classes, "qcap:1")
	default:
		classes = append(classes, "qcap:2..16")
	}
	if backpressure {
		classes = append(classes, "backpressure(jobs>workers+qcap,>=2 submitters)", "backpressure+release:"+c.Release)
		if c.QueueCap == 0 {
			classes = append(classes, "backpressure+qcap:0")
		}
	}
	switch {
	case n1 == 0:
		classes = append(classes, "jobs:0")
	case n1 <= c.Workers:
		classes = append(classes, "jobs<=workers")
	case n1 <= c.Workers+c.QueueCap:
		classes = append(classes, "jobs<=workers+qcap")
	default:
		classes = append(classes, "jobs>workers+qcap")
	}
	if c.Release == "running" {
		if k == c.Workers {
			classes = append(classes, "running:k==workers")
			if e == c.QueueCap && e > 0 {
				classes = append(classes, "running:k==workers,extras==qcap(queue filled)")
			}
		} else {
			classes = append(classes, "running:k<workers")
		}
	}
	if c.Release == "immediate" && n1 == 0 {
		classes = append(classes, "release:fresh-pool")
	}
	st.CaseJSON(c, backpressure, classes...)

	if verdictFixed.Load() {
		// A violation has already been recorded in this process: everything that follows is
		// rapid's shrinking. It cannot change the verdict, so it runs with a short window and a
		// single confirmation to keep hang-type counterexamples cheap to minimise.
		f, s1, _ := attempt(c, shrinkWindow)
		if f == nil && s1 != nil {
			f2, s2, _ := attempt(c, shrinkWindow)
			if f = f2; f == nil && s2 != nil && s2.Sig == s1.Sig {
				s1.Msg += " [re-observed during shrinking with the reduced window]"
				f = s1
			}
		}
		return f
	}
	fail, stall, o := attempt(c, c.window(1))
	if fail != nil {
		verdictFixed.Store(true)
		return fail
	}
	if stall != nil {
		// timing suspicion: re-run the same case alone twice with the doubled window
		confirmed := 0
		for i := 0; i < 2; i++ {
			f2, s2, _ := attempt(c, c.window(2))
			if f2 != nil {
				verdictFixed.Store(true)
				return f2
			}
			if s2 != nil && s2.Sig == stall.Sig {
				confirmed++
			}
		}
		if confirmed == 2 {
			stall.Msg += " [confirmed by two solo re-runs with doubled window]"
			verdictFixed.Store(true)
			return stall
		}
		st.Inconclusive()
		st.Class("inconclusive:"+stall.Sig, 1)
		return nil
	}
	for {
		cur := slowest.Load()
		if int64(o.elapsed) <= cur || slowest.CompareAndSwap(cur, int64(o.elapsed)) {
			break
		}
	}
	if o.hw == c.Workers {
		st.Class("obs:parallelism reached workers", 1)
	}
	if o.blockedSends > 0 {
		st.Class("obs:a submitter had to wait (queue full)", 1)
		if backpressure {
			st.Class("obs:backpressure case where a submitter had to wait", 1)
		}
	}
	if c.Release != "idle" {
		if o.runningAtCall > 0 {
			st.Class("obs:Release called while jobs running", 1)
		}
		if o.unstarted > 0 {
			st.Class("obs:jobs left queued by Release (never ran)", 1)
		}
		if o.startedInRel > 0 {
			st.Class("obs:job started between Release call and return", 1)
		}
	}
	return nil
}

// selfTest makes sure the worker detector actually sees pool goroutines (otherwise the
// "workers gone" oracle would be vacuous): infrastructure problem, not a verdict.
func selfTest(t *testing.T) {
	base, _ := poolGoroutines()
	p := gpool.NewPool(3, 2)
	seen, _ := poolGoroutines()
	done := make(chan struct{})
	go func() { p.Release(); close(done) }()
	if seen-base < 4 {
		fmt.Printf("\nVERIF-INFRA C19 goroutine detector saw %d pool goroutines for NewPool(3,2), expected >= 4\n", seen-base)
		t.Fatalf("goroutine detector blind")
	}
	waitCh(done, 30*time.Second)
}

func TestC19(t *testing.T) {
	defer st.Emit()
	defer largeQueues(t)
	flag.Set("rapid.shrinktime", "8s")
	if stat.ReplayPath() == "" {
		selfTest(t)
	}
	q, th := 3000, 40000
	if raceEnabled {
		q, th = 800, 6000
	}
	if stat.ReplayPath() == "" && os.Getenv("VERIF_ONLY") == "" && !raceEnabled {
		// Release while every worker is busy for more than five seconds (twelve in the thorough
		// tier) and the dispatcher holds a
		// further job: it must keep waiting (no give-up timer may end it early)
		pinned := map[string]Case{
			// the dispatcher holds a further job (it is not listening for the stop signal)
			"release-while-dispatcher-holds-a-job": {Workers: 2, QueueCap: 4, Submitters: 1, Release: "running", HoldUs: 1300000,
				Phase2: []P2{{Gated: true}, {Gated: true}, {Dur: 10}, {Dur: 10}}},
			// the dispatcher is idle and takes the stop signal at once; the workers stay busy
			"release-waits-for-long-jobs": {Workers: 2, QueueCap: 4, Submitters: 1, Release: "running", HoldUs: map[bool]int{false: 5300000, true: 12000000}[stat.Tier() == "thorough"],
				Phase2: []P2{{Gated: true}, {Gated: true}}},
		}
		stat.Pinned(t, st, "pool", pinned, func(c Case) *stat.Failure {
			st.CaseJSON(c, true, "pinned-long-release")
			return run(c)
		})
	}
	stat.Check(t, st, "pool", stat.N(q, th), draw, run)
	// one key per process (numeric extras with equal keys would be summed by the driver)
	shard, _ := stat.Shard()
	tag := fmt.Sprintf("(race=%v,shard=%d)", raceEnabled, shard)
	st.Extra("slowest_passing_case_ms"+tag, float64(slowest.Load())/1e6)
	st.Extra("max_progress_gap_ms"+tag, float64(maxGap.Load())/1e6)
	st.Extra("wait_window", "a wait gives up after 5s + 20 x longest drawn sleep without any counter movement; doubled for the two confirmation re-runs")
}
