package c19

// Large queues: the property quantifies over all queue capacities; the main machine keeps
// them at 0..16 so that back-pressure is reached with a handful of jobs. Here the capacity
// is large (up to 300000 - what a server gets from a generous <queuecap>): with every worker
// held on a gate, capacity + workers + 1 submissions (queue + one job per worker + the one
// the dispatcher holds) must go through without blocking, the next one must block until a
// slot frees up, and after the gate opens every job runs exactly once.

import (
	"fmt"
	"sync/atomic"
	"testing"
	"time"

	"github.com/TarsCloud/TarsGo/tars/util/gpool"
	"pgregory.net/rapid"

	"verif/harness/stat"
)

type LargeQCase struct {
	Workers  int `json:"workers"`
	QueueCap int `json:"qcap"`
}

func drawLargeQ(rt *rapid.T) LargeQCase {
	return LargeQCase{Workers: rapid.IntRange(1, 8).Draw(rt, "workers"),
		QueueCap: rapid.OneOf(rapid.SampledFrom([]int{1000, 4096, 10000, 65535, 65536, 65537, 70000, 131072, 300000}), rapid.IntRange(17, 200000)).Draw(rt, "qcap")}
}

func runLargeQ(c LargeQCase) *stat.Failure {
	p := gpool.NewPool(c.Workers, c.QueueCap)
	gate := make(chan struct{})
	var ran int64
	var started int64
	held := func() { atomic.AddInt64(&started, 1); <-gate; atomic.AddInt64(&ran, 1) }
	quick := func() { atomic.AddInt64(&ran, 1) }
	desc := fmt.Sprintf("workers=%d qcap=%d", c.Workers, c.QueueCap)
	// one job per worker (held), then one for the dispatcher's hand, then the queue
	total := c.Workers + 1 + c.QueueCap
	var submitted int64
	done := make(chan struct{})
	go func() {
		defer close(done)
		for i := 0; i < total; i++ {
			if i < c.Workers {
				p.JobQueue <- held
			} else {
				p.JobQueue <- quick
			}
			atomic.AddInt64(&submitted, 1)
		}
	}()
	// progress watchdog: the submitter may not stall while the queue is not full
	last, lastAt := int64(-1), time.Now()
	for waiting := true; waiting; {
		select {
		case <-done:
			waiting = false
		case <-time.After(20 * time.Millisecond):
			if n := atomic.LoadInt64(&submitted); n != last {
				last, lastAt = n, time.Now()
			} else if time.Since(lastAt) > 3*time.Second {
				close(gate)
				f := stat.Failf("blocked-while-queue-not-full", "%s: every worker holds a job; the submitter blocked after %d submissions although workers + dispatcher + queue take %d (queue not full)", desc, n, total)
				<-done
				p.Release()
				return f
			}
		}
	}
	// the queue is full now: one more submission must block until a slot frees up
	extra := make(chan struct{})
	go func() { p.JobQueue <- quick; close(extra) }()
	select {
	case <-extra:
		close(gate)
		p.Release()
		return stat.Failf("accepted-beyond-capacity", "%s: after %d accepted submissions with every worker held, one more was accepted at once", desc, total)
	case <-time.After(150 * time.Millisecond):
	}
	close(gate)
	select {
	case <-extra:
	case <-time.After(20 * time.Second):
		return stat.Failf("submitter-never-released", "%s: the blocked submitter was not released within 20 s after the workers were freed", desc)
	}
	want := int64(total + 1)
	dl := time.Now().Add(30 * time.Second)
	for atomic.LoadInt64(&ran) < want && time.Now().Before(dl) {
		time.Sleep(2 * time.Millisecond)
	}
	p.Release()
	if got := atomic.LoadInt64(&ran); got != want {
		return stat.Failf("exactly-once", "%s: %d jobs submitted, %d executions counted after Release", desc, want, got)
	}
	return nil
}

func largeQueues(t *testing.T) {
	stat.Check(t, st, "large-queue", stat.N(6, 120), drawLargeQ, func(c LargeQCase) *stat.Failure {
		cl := "qcap:17..65536"
		if c.QueueCap > 65536 {
			cl = "qcap:>65536"
		}
		st.CaseJSON(c, true, "large-queue", cl)
		return runLargeQ(c)
	})
}
