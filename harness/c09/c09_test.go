// C09 — every call terminates by its deadline and leaves nothing behind.
//
// One real ServantProxy per case against a scripted server; the case is a generated sequence
// of steps (single calls and bursts of concurrent calls) whose peer behaviour is drawn per
// request: answer, answer late, stay silent, close the connection now, close in the middle
// of the response, send garbage / an illegal length, refuse connections.
package c09

import (
	"context"
	"encoding/binary"
	"fmt"
	"sync"
	"sync/atomic"
	"testing"
	"time"

	"github.com/TarsCloud/TarsGo/tars"
	"github.com/TarsCloud/TarsGo/tars/protocol/res/requestf"
	"github.com/TarsCloud/TarsGo/tars/util/current"
	"github.com/TarsCloud/TarsGo/tars/util/rogger"
	"pgregory.net/rapid"

	"verif/harness/peer"
	"verif/harness/stat"
)

var st = stat.New("C09",
	"Case = one proxy (in a third of the cases two proxy objects for the same object string, used alternately: they share connection and pending-reply table) + scripted server, generated client limits (calls in flight per proxy 1..6 or default, send queue length 1..4 or default), in a third of the cases the framework's keep-alive ping (one-way tars_ping) is sent on the proxy's adapters after every step, also while the server refuses connections, in three eighths of the cases a registered client filter (pre, post, legacy single filter or middleware) that passes calls through except a fifth of them, for which it returns an error (pre/post: beside the call proper; legacy/middleware: instead of invoking it), 1..8 steps; step = 1..12 concurrent calls (or one) each with {timeout source: proxy default (TarsSetTimeout) | per-call (current.SetClientTimeout) | context deadline; value 60..600 ms, or (a sixth of the per-call and context ones) 0 or 1 ms - a deadline that is used up when the call starts; two-way or one-way} and a peer behaviour per request from {answer, answer after the deadline, answer in the instant of the deadline, answer twice, reply split in two pieces 5 ms apart, reply split with the second piece after the deadline and after the client's read timeout, silent, close connection now, close in the middle of the response, garbage bytes, illegal length prefix}; between steps the server may stop listening (dials are refused) and come back. Oracle per call: returns (watchdog 20 s), wall clock <= effective deadline + 150 ms + 10% (an overrun is re-measured by re-running the case alone twice; unconfirmed => inconclusive), outcome is reply or error; a call whose complete reply the server had written >= 150 ms before its deadline must succeed when neither this nor the previous step scripts a connection fault. After quiescence (all calls returned, all scripted late replies delivered, +60 ms): the proxy's in-flight counter, the size of the pending-reply tables and the manager's invocation counter are back to 0; a late reply changes no other call's outcome (checked by serial as in C08). Non-trivial = case with >=1 timed-out call, >=1 peer fault and a later successful call. Distinct = distinct case JSON. Peer-stops-reading sub-check: a server that accepts the connection and never reads, requests of 8 or 16 MiB, client send queue of 1..3 requests, queue+3..queue+6 calls (context deadlines 100..300 ms, in sequence or at once, two-way or one-way); oracle: each call returns within deadline + 10% + 150 ms + 25 ms per MiB of payload (re-measured twice), no two-way call succeeds, the counters are back to 0 afterwards. Establishment sub-check: endpoint transport tcp | ssl, a peer that accepts the TCP connection and then is silent | closes after 0..200 ms | sends garbage (so that on ssl the TLS handshake never completes), 1..3 sequential calls with per-call or context timeouts 100..600 ms and a dial timeout of 400 ms; oracle: each call returns (watchdog 20 s) with an error within timeout + dial timeout + 150 ms + 10% (re-measured twice), the counters are back to 0 afterwards.",
	"on loopback a connection is established or refused within a millisecond, so the connection-establishment bound of the property contributes nothing to the deadline; black-holed addresses (slow dials) cannot be produced offline",
	"the per-connection in-flight counter (transport level) is observed and reported as a class, not asserted: the property's state list names the proxy counter, the pending-reply table and the manager counter")

func init() { rogger.SetLevel(rogger.OFF) }

type Call struct {
	Source    string `json:"source"` // proxy | percall | ctx
	TimeoutMs int    `json:"timeout_ms"`
	OneWay    bool   `json:"one_way,omitempty"`
	Peer      string `json:"peer"` // answer | late | silent | close | close-mid | garbage | illegal-len
	// Reject (cases with a client filter): the filter returns an error for this call - a
	// pre/post filter after/before the call proper, a legacy filter or a middleware instead
	// of invoking it
	Reject bool `json:"reject,omitempty"`
}

type Step struct {
	Calls   []Call `json:"calls"`
	Refuse  bool   `json:"refuse,omitempty"`  // before this step: stop listening + close connections
	Restore bool   `json:"restore,omitempty"` // before this step: listen again
}

type Case struct {
	// client configuration (0 = framework default): limit of calls in flight per proxy and
	// length of the per-connection send queue
	ObjQueueMax    int    `json:"obj_queue_max,omitempty"`
	ClientQueueLen int    `json:"client_queue_len,omitempty"`
	ProxyTimeoutMs int    `json:"proxy_timeout_ms"`
	Steps          []Step `json:"steps"`
	// TwoProxies: the calls alternate between two proxy objects created for the same object
	// string (they share the endpoint manager, the connection and the pending-reply table)
	TwoProxies bool `json:"two_proxies,omitempty"`
	// FilterMode: a client filter is registered for the duration of the case - "pre", "post",
	// "legacy" (RegisterClientFilter) or "middleware"; it passes every call through except
	// those marked Reject
	FilterMode string `json:"filter_mode,omitempty"`
	// KeepAlive: after every step the framework's keep-alive ping (one-way tars_ping, what
	// push clients and keep-alive-interval send) goes out on the proxy's adapters - also while
	// the server refuses connections
	KeepAlive bool `json:"keep_alive,omitempty"`
}

func draw(rt *rapid.T) Case {
	c := Case{ProxyTimeoutMs: rapid.SampledFrom([]int{80, 150, 250}).Draw(rt, "proxyTimeout")}
	if rapid.IntRange(0, 2).Draw(rt, "smallLimits") == 0 {
		c.ObjQueueMax = rapid.IntRange(1, 6).Draw(rt, "objQueueMax")
		c.ClientQueueLen = rapid.IntRange(1, 4).Draw(rt, "clientQueueLen")
	}
	c.TwoProxies = rapid.IntRange(0, 2).Draw(rt, "twoProxies") == 0
	c.KeepAlive = rapid.IntRange(0, 2).Draw(rt, "keepAlive") == 0
	c.FilterMode = rapid.SampledFrom([]string{"", "", "", "pre", "pre", "post", "legacy", "middleware"}).Draw(rt, "filterMode")
	ns := rapid.IntRange(1, 8).Draw(rt, "nsteps")
	listening := true
	for s := 0; s < ns; s++ {
		stp := Step{}
		if listening && rapid.IntRange(0, 5).Draw(rt, "refuse") == 0 {
			stp.Refuse, listening = true, false
		} else if !listening && rapid.IntRange(0, 1).Draw(rt, "restore") == 0 {
			stp.Restore, listening = true, true
		}
		n := rapid.SampledFrom([]int{1, 1, 1, 2, 4, 12}).Draw(rt, "ncalls")
		for i := 0; i < n; i++ {
			cl := Call{Source: rapid.SampledFrom([]string{"proxy", "percall", "ctx"}).Draw(rt, "source")}
			cl.TimeoutMs = rapid.SampledFrom([]int{0, 1, 60, 60, 100, 100, 200, 200, 300, 300, 600, 600}).Draw(rt, "timeout")
			if cl.Source == "proxy" {
				cl.TimeoutMs = c.ProxyTimeoutMs
			}
			cl.OneWay = rapid.IntRange(0, 7).Draw(rt, "oneway") == 0
			cl.Reject = c.FilterMode != "" && rapid.IntRange(0, 4).Draw(rt, "reject") == 0
			cl.Peer = rapid.SampledFrom([]string{"answer", "answer", "answer", "late", "silent", "close", "close-mid", "garbage", "illegal-len", "split-fast", "split-late", "split-late", "dup", "edge", "edge"}).Draw(rt, "peer")
			stp.Calls = append(stp.Calls, cl)
		}
		c.Steps = append(c.Steps, stp)
	}
	// always end with a healthy exchange so that recovery is part of every case
	last := Step{Restore: !listening, Calls: []Call{{Source: "ctx", TimeoutMs: 300, Peer: "answer"}}}
	c.Steps = append(c.Steps, last)
	return c
}

var (
	comm   *tars.Communicator
	once   sync.Once
	objSeq int64
)

type callResult struct {
	tok     int
	start   time.Time
	err     error
	took    time.Duration
	serial  int64
	has     bool
	overrun bool
}

type verdict struct {
	f        *stat.Failure
	overrun  bool // only timing complaints
	connLeft int32
}

func runOnce(c Case) verdict {
	once.Do(func() { comm = tars.NewCommunicator() })
	srv, err := peer.Listen("127.0.0.1")
	if err != nil {
		return verdict{f: stat.Failf("harness-failure", "listen: %v", err)}
	}
	defer srv.Shutdown()
	var plan sync.Map     // token -> Call
	var answered sync.Map // token -> time the complete reply had been written
	srv.Handler = func(s *peer.Server, r *peer.Req) {
		if len(r.Buffer) < 4 {
			return
		}
		v, ok := plan.Load(int(binary.BigEndian.Uint32(r.Buffer)))
		if !ok {
			return
		}
		cl := v.(Call)
		switch cl.Peer {
		case "answer":
			// replies are written by a goroutine per request (a slow reply on the connection
			// must not stop the server from reading the next request)
			tok := int(binary.BigEndian.Uint32(r.Buffer))
			go func() {
				s.Reply(r.Conn, r.Version, r.ID, 0, "", "own", 0)
				answered.Store(tok, time.Now())
			}()
		case "late":
			go func() {
				time.Sleep(time.Duration(cl.TimeoutMs+60) * time.Millisecond)
				s.Reply(r.Conn, r.Version, r.ID, 0, "", "late", 0)
			}()
		case "dup":
			// the reply and, right behind it, a second copy nobody waits for any more
			go func() {
				s.Reply(r.Conn, r.Version, r.ID, 0, "", "own", 0)
				s.Reply(r.Conn, r.Version, r.ID, 0, "", "late", 0)
			}()
		case "edge":
			// a reply that arrives in the instant the call runs into its deadline (it may make
			// it or not; either way it must not reach anybody else)
			go func() {
				time.Sleep(time.Duration(cl.TimeoutMs)*time.Millisecond - 600*time.Microsecond)
				s.Reply(r.Conn, r.Version, r.ID, 0, "", "late", 0)
			}()
		case "split-fast", "split-late":
			// the reply arrives in two pieces: 10 bytes now, the rest after 5 ms (must be
			// delivered) or after the call's deadline and after the client's read timeout
			// (a late reply: must be discarded without disturbing anybody else)
			serial := s.NextSerial()
			pkt := peer.EncodeReply(r.Version, 0, r.ID, 0, "", serial, nil)
			gap := 5 * time.Millisecond
			kind := "own"
			if cl.Peer == "split-late" {
				gap, kind = time.Duration(cl.TimeoutMs+130)*time.Millisecond, "late"
			}
			tok := int(binary.BigEndian.Uint32(r.Buffer))
			go func() {
				if s.WriteSplit(r.Conn, pkt, 10, gap, r.ID, serial, kind) == nil {
					answered.Store(tok, time.Now())
				}
			}()
		case "silent":
		case "close":
			s.CloseConn(r.Conn)
		case "close-mid":
			pkt := peer.EncodeReply(r.Version, 0, r.ID, 0, "", s.NextSerial(), make([]byte, 64))
			s.WriteRaw(r.Conn, pkt[:len(pkt)/2], r.ID, 0, "half")
			s.CloseConn(r.Conn)
		case "garbage":
			s.WriteRaw(r.Conn, []byte{0, 0, 0, 12, 0xde, 0xad, 0xbe, 0xef, 0x0b, 0x0b, 0xff, 0x1c}, 0, 0, "garbage")
		case "illegal-len":
			s.WriteRaw(r.Conn, []byte{0xff, 0xff, 0xff, 0xff, 1, 2, 3}, 0, 0, "illegal-len")
		}
	}
	// the client configuration is one shared object per application
	defQ, defL := comm.Client.ObjQueueMax, comm.Client.ClientQueueLen
	defer func() { comm.Client.ObjQueueMax, comm.Client.ClientQueueLen = defQ, defL }()
	if c.ObjQueueMax > 0 {
		comm.Client.ObjQueueMax = int32(c.ObjQueueMax)
	}
	if c.ClientQueueLen > 0 {
		comm.Client.ClientQueueLen = c.ClientQueueLen
	}
	obj := fmt.Sprintf("Verif.C09.Obj%d@tcp -h 127.0.0.1 -p %d -t 60000", atomic.AddInt64(&objSeq, 1), srv.Port)
	sp := tars.NewServantProxy(comm, obj)
	sp.TarsSetTimeout(c.ProxyTimeoutMs)
	proxies := []*tars.ServantProxy{sp}
	if c.TwoProxies {
		sp2 := tars.NewServantProxy(comm, obj)
		sp2.TarsSetTimeout(c.ProxyTimeoutMs)
		proxies = append(proxies, sp2)
	}
	// client filters (process-wide registry; cases of one process run one after the other)
	var rejectTok sync.Map
	rejected := func(msg *tars.Message) bool {
		b := msg.Req.SBuffer
		if len(b) < 4 {
			return false
		}
		_, ok := rejectTok.Load(int(binary.BigEndian.Uint32([]byte{byte(b[0]), byte(b[1]), byte(b[2]), byte(b[3])})))
		return ok
	}
	tars.VerifResetFilters()
	defer tars.VerifResetFilters()
	errRejected := fmt.Errorf("rejected by the client filter")
	switch c.FilterMode {
	case "pre":
		tars.RegisterPreClientFilter(func(ctx context.Context, msg *tars.Message, invoke tars.Invoke, timeout time.Duration) error {
			if rejected(msg) {
				return errRejected
			}
			return nil
		})
	case "post":
		tars.RegisterPostClientFilter(func(ctx context.Context, msg *tars.Message, invoke tars.Invoke, timeout time.Duration) error {
			if rejected(msg) {
				return errRejected
			}
			return nil
		})
	case "legacy":
		tars.RegisterClientFilter(func(ctx context.Context, msg *tars.Message, invoke tars.Invoke, timeout time.Duration) error {
			if rejected(msg) {
				return errRejected
			}
			return invoke(ctx, msg, timeout)
		})
	case "middleware":
		tars.UseClientFilterMiddleware(func(next tars.ClientFilter) tars.ClientFilter {
			return func(ctx context.Context, msg *tars.Message, invoke tars.Invoke, timeout time.Duration) error {
				if rejected(msg) {
					return errRejected
				}
				return next(ctx, msg, invoke, timeout)
			}
		})
	}
	token := 0
	maxLate := 0
	listening := true
	var v verdict
	var lastFault time.Time
	for si, stp := range c.Steps {
		if stp.Refuse {
			listening = false
			srv.StopListening()
			srv.CloseAllConns()
			time.Sleep(5 * time.Millisecond)
		}
		if stp.Restore {
			if err := srv.Relisten(); err != nil {
				return verdict{f: stat.Failf("harness-failure", "relisten: %v", err)}
			}
			listening = true
		}
		// clean: neither this nor the previous step scripts a connection fault, the server is
		// listening, and the previous step ended at least 20 ms ago
		breaks := func(st Step) bool {
			for _, cl := range st.Calls {
				switch cl.Peer {
				case "close", "close-mid", "garbage", "illegal-len":
					return true
				}
			}
			return st.Refuse
		}
		// ... and the last step that scripted a fault ended at least 300 ms ago (and neither of the two previous steps scripts one): a fault
		// answered to a one-way call lands after the call (and the step) has returned, so a
		// request of a later step can still go out on the connection that is about to die
		clean := listening && !breaks(stp) && (si == 0 || !breaks(c.Steps[si-1])) && (si < 2 || !breaks(c.Steps[si-2])) && !stp.Restore && time.Since(lastFault) >= 300*time.Millisecond
		results := make([]callResult, len(stp.Calls))
		var wg sync.WaitGroup
		for i, cl := range stp.Calls {
			tok := token
			token++
			plan.Store(tok, cl)
			if cl.Reject {
				rejectTok.Store(tok, true)
			}
			if cl.Peer == "late" && cl.TimeoutMs+60 > maxLate {
				maxLate = cl.TimeoutMs + 60
			}
			if cl.Peer == "edge" && cl.TimeoutMs+10 > maxLate {
				maxLate = cl.TimeoutMs + 10
			}
			if cl.Peer == "split-late" && cl.TimeoutMs+130 > maxLate {
				maxLate = cl.TimeoutMs + 130
			}
			wg.Add(1)
			go func(i int, cl Call, tok int) {
				defer wg.Done()
				buf := make([]byte, 4)
				binary.BigEndian.PutUint32(buf, uint32(tok))
				ctx := context.Background()
				var cancel context.CancelFunc
				switch cl.Source {
				case "percall":
					ctx = current.ContextWithClientCurrent(ctx)
					current.SetClientTimeout(ctx, cl.TimeoutMs)
				case "ctx":
					ctx, cancel = context.WithTimeout(ctx, time.Duration(cl.TimeoutMs)*time.Millisecond)
				}
				resp := &requestf.ResponsePacket{}
				ct := byte(0)
				if cl.OneWay {
					ct = 1
				}
				t0 := time.Now()
				err := proxies[tok%len(proxies)].TarsInvoke(ctx, ct, "echo", buf, nil, nil, resp)
				r := callResult{err: err, took: time.Since(t0), tok: tok, start: t0}
				if cancel != nil {
					cancel()
				}
				if err == nil && !cl.OneWay {
					r.serial, r.has = peer.SerialOf(resp.SBuffer)
				}
				results[i] = r
			}(i, cl, tok)
		}
		done := make(chan struct{})
		go func() { wg.Wait(); close(done) }()
		select {
		case <-done:
		case <-time.After(20 * time.Second):
			return verdict{f: stat.Failf("call-never-returned", "step %d: a call did not return within 20 s (deadlines <= 300 ms)", si)}
		}
		if breaks(stp) || stp.Restore {
			lastFault = time.Now()
		}
		if c.KeepAlive {
			kd := make(chan struct{})
			go func() {
				defer close(kd)
				for _, px := range proxies {
					px.VerifKeepAlive()
				}
			}()
			select {
			case <-kd:
			case <-time.After(20 * time.Second):
				return verdict{f: stat.Failf("call-never-returned", "step %d: the keep-alive ping did not return within 20 s", si)}
			}
		}
		reqsNow, sent, _ := srv.Snapshot()
		idsOfTok := map[int]map[int32]bool{}
		for _, rq := range reqsNow {
			if len(rq.Buffer) >= 4 {
				t := int(binary.BigEndian.Uint32(rq.Buffer))
				if idsOfTok[t] == nil {
					idsOfTok[t] = map[int32]bool{}
				}
				idsOfTok[t][rq.ID] = true
			}
		}
		bySerial := map[int64]peer.Sent{}
		for _, s := range sent {
			if s.Serial != 0 {
				bySerial[s.Serial] = s
			}
		}
		for i, r := range results {
			cl := stp.Calls[i]
			limit := time.Duration(cl.TimeoutMs)*time.Millisecond*11/10 + 150*time.Millisecond
			if r.took > limit {
				v.overrun = true
				if v.f == nil {
					v.f = stat.Failf("deadline-overrun", "step %d call %d (%s timeout %d ms, peer %s): returned after %v (limit %v) with err=%v", si, i, cl.Source, cl.TimeoutMs, cl.Peer, r.took.Round(time.Millisecond), limit, r.err)
				}
			}
			if r.err != nil && !cl.OneWay && (cl.Peer == "answer" || cl.Peer == "split-fast" || cl.Peer == "dup") && clean {
				if at, ok := answered.Load(r.tok); ok {
					if left := r.start.Add(time.Duration(cl.TimeoutMs) * time.Millisecond).Sub(at.(time.Time)); left >= 150*time.Millisecond {
						return verdict{f: stat.Failf("healthy-call-failed", "step %d call %d (peer %s, timeout %d ms): the complete reply had been written %v before the deadline and no connection fault was scripted in this or the previous step, yet the call failed: %v", si, i, cl.Peer, cl.TimeoutMs, left.Round(time.Millisecond), r.err)}
					}
				}
			}
			if r.err == nil && !cl.OneWay {
				if cl.Peer != "answer" && cl.Peer != "late" && cl.Peer != "split-fast" && cl.Peer != "split-late" && cl.Peer != "dup" && cl.Peer != "edge" {
					return verdict{f: stat.Failf("phantom-success", "step %d call %d: peer behaviour %q never sends a valid reply, yet the call succeeded", si, i, cl.Peer)}
				}
				s, ok := bySerial[r.serial]
				if !r.has || !ok || (s.Kind != "own" && s.Kind != "late") {
					return verdict{f: stat.Failf("foreign-reply", "step %d call %d: succeeded with a reply (serial %d) that is not its own", si, i, r.serial)}
				}
				// ... and it must be the reply the server addressed to this call's request
				if ids, known := idsOfTok[r.tok]; known && !ids[s.ID] {
					return verdict{f: stat.Failf("foreign-reply", "step %d call %d (token %d, request id(s) %v): succeeded with the reply with serial %d, which the server addressed to request id %d - the reply of another call", si, i, r.tok, keys(ids), r.serial, s.ID)}
				}
			}
		}
	}
	// quiescence
	time.Sleep(time.Duration(maxLate+80) * time.Millisecond)
	dl := time.Now().Add(500 * time.Millisecond)
	var q, p int
	var inv int32
	for {
		q, p, inv = 0, sp.VerifPending(), sp.VerifInvokeNum()
		if p < 0 {
			// the pending-reply table has a representation the accessor cannot count
			p = 0
			st.Class("pending-reply-table-not-observable", 1)
		}
		for _, px := range proxies {
			q += int(px.VerifQueueLen())
		}
		if (q == 0 && p == 0 && inv == 0) || time.Now().After(dl) {
			break
		}
		time.Sleep(5 * time.Millisecond)
	}
	if q != 0 || p != 0 || inv != 0 {
		return verdict{f: stat.Failf("resource-leak", "after all calls returned and late replies were delivered: in-flight counter %d, pending-reply table size %d, manager invocation counter %d (all must be 0)", q, p, inv)}
	}
	for _, a := range sp.VerifAdapters() {
		v.connLeft += a.VerifConnInvokeNum()
	}
	// the final healthy call must have succeeded (recovery after faults)
	return v
}

func keys(m map[int32]bool) []int32 {
	var out []int32
	for k := range m {
		out = append(out, k)
	}
	return out
}

func run(c Case) *stat.Failure {
	v := runOnce(c)
	if v.f == nil {
		if v.connLeft != 0 {
			st.Class("transport-conn-inflight-counter-nonzero-after-quiescence", 1)
		}
		return nil
	}
	if v.f.Sig == "healthy-call-failed" {
		// schedule-dependent: on a busy machine the client may still be digesting a fault of
		// an earlier step (garbage processed late closes the connection the healthy call
		// went out on). A defect in the receive path reproduces; confirm twice, alone.
		for i := 0; i < 2; i++ {
			time.Sleep(300 * time.Millisecond)
			w := runOnce(c)
			if w.f == nil || w.f.Sig != "healthy-call-failed" {
				if w.f != nil && w.f.Sig != "deadline-overrun" {
					return w.f
				}
				st.Inconclusive()
				return nil
			}
		}
		return v.f
	}
	if !v.overrun || v.f.Sig != "deadline-overrun" {
		return v.f
	}
	// timing complaint: confirm twice, alone
	for i := 0; i < 2; i++ {
		time.Sleep(200 * time.Millisecond)
		w := runOnce(c)
		if w.f == nil {
			st.Inconclusive()
			return nil
		}
		if w.f.Sig != "deadline-overrun" {
			return w.f
		}
	}
	return v.f
}

func TestC09(t *testing.T) {
	defer st.Emit()
	defer establishment(t)
	defer stalledPeer(t)
	stat.Check(t, st, "lifecycle", stat.N(40, 1400), draw, func(c Case) *stat.Failure {
		kinds := map[string]bool{}
		timedOut, fault, calls := false, false, 0
		for _, s := range c.Steps {
			if s.Refuse {
				kinds["refuse"] = true
				fault = true
			}
			for _, cl := range s.Calls {
				calls++
				kinds["peer-"+cl.Peer] = true
				kinds["source-"+cl.Source] = true
				if cl.Peer == "silent" || cl.Peer == "late" {
					timedOut = true
				}
				if cl.Peer != "answer" && cl.Peer != "late" && cl.Peer != "silent" {
					fault = true
				}
				if cl.OneWay {
					kinds["one-way"] = true
				}
				if cl.TimeoutMs <= 1 {
					kinds["deadline-used-up-at-start"] = true
				}
				if cl.Reject {
					kinds["rejected-by-client-filter"] = true
				}
			}
			if len(s.Calls) >= 4 {
				kinds["burst"] = true
			}
		}
		var cls []string
		if c.KeepAlive {
			cls = append(cls, "keep-alive-pings-between-steps")
		}
		if c.FilterMode != "" {
			cls = append(cls, "client-filter-"+c.FilterMode)
		}
		if c.ObjQueueMax > 0 {
			cls = append(cls, "small-queue-limits")
		}
		for k := range kinds {
			cls = append(cls, k)
		}
		st.CaseJSON(c, timedOut && fault, cls...)
		st.Class("calls", int64(calls))
		return run(c)
	})
}
