package c09

// Connection establishment (C09: "... plus the connection-establishment bound"): the peer
// accepts the TCP connection and then stays silent, closes, or sends garbage - on plain tcp
// and on ssl endpoints, where establishing the connection includes a TLS handshake that such
// a peer never completes. Calls are issued one after the other (concurrent callers queue up
// behind one dial, which the property's bound does not speak about).

import (
	"context"
	"fmt"
	"net"
	"sync"
	"sync/atomic"
	"testing"
	"time"

	"github.com/TarsCloud/TarsGo/tars"
	"github.com/TarsCloud/TarsGo/tars/protocol/res/requestf"
	"github.com/TarsCloud/TarsGo/tars/util/current"
	"pgregory.net/rapid"

	"verif/harness/stat"
)

const dialTimeoutMs = 400

type EstCall struct {
	Source    string `json:"source"` // percall | ctx
	TimeoutMs int    `json:"timeout_ms"`
}

type EstCase struct {
	Transport string    `json:"transport"` // tcp | ssl
	Peer      string    `json:"peer"`      // silent | close-after | garbage
	CloseMs   int       `json:"close_ms,omitempty"`
	Calls     []EstCall `json:"calls"`
}

func drawEst(rt *rapid.T) EstCase {
	c := EstCase{Transport: rapid.SampledFrom([]string{"ssl", "ssl", "tcp"}).Draw(rt, "transport"),
		Peer: rapid.SampledFrom([]string{"silent", "silent", "close-after", "garbage"}).Draw(rt, "peer")}
	if c.Peer == "close-after" {
		c.CloseMs = rapid.SampledFrom([]int{0, 5, 50, 200}).Draw(rt, "closeMs")
	}
	n := rapid.IntRange(1, 3).Draw(rt, "ncalls")
	for i := 0; i < n; i++ {
		c.Calls = append(c.Calls, EstCall{Source: rapid.SampledFrom([]string{"percall", "ctx"}).Draw(rt, "source"),
			TimeoutMs: rapid.SampledFrom([]int{100, 300, 600}).Draw(rt, "timeout")})
	}
	return c
}

var (
	commEst  *tars.Communicator
	onceEst  sync.Once
	estObjNo int64
)

func runEst(c EstCase) *stat.Failure {
	onceEst.Do(func() {
		commEst = tars.NewCommunicator()
		commEst.Client.ClientDialTimeout = dialTimeoutMs * time.Millisecond
	})
	ln, err := net.Listen("tcp", "127.0.0.1:0")
	if err != nil {
		return stat.Failf("harness-failure", "listen: %v", err)
	}
	var mu sync.Mutex
	var conns []net.Conn
	stop := make(chan struct{})
	go func() {
		for {
			cn, err := ln.Accept()
			if err != nil {
				return
			}
			mu.Lock()
			conns = append(conns, cn)
			mu.Unlock()
			switch c.Peer {
			case "close-after":
				go func() { time.Sleep(time.Duration(c.CloseMs) * time.Millisecond); cn.Close() }()
			case "garbage":
				go func() {
					_, _ = cn.Write([]byte("\x15\x03\x01\x00\x02\x02\x28 this is neither TLS nor a tars packet \xff\xff\xff\xff"))
				}()
			}
		}
	}()
	defer func() {
		close(stop)
		ln.Close()
		mu.Lock()
		for _, cn := range conns {
			cn.Close()
		}
		mu.Unlock()
	}()
	port := ln.Addr().(*net.TCPAddr).Port
	sp := tars.NewServantProxy(commEst, fmt.Sprintf("Verif.C09.Est%d@%s -h 127.0.0.1 -p %d -t 60000", atomic.AddInt64(&estObjNo, 1), c.Transport, port))
	sp.TarsSetTimeout(5000)
	for i, cl := range c.Calls {
		ctx := context.Background()
		var cancel context.CancelFunc = func() {}
		if cl.Source == "ctx" {
			ctx, cancel = context.WithTimeout(ctx, time.Duration(cl.TimeoutMs)*time.Millisecond)
		} else {
			ctx = current.ContextWithClientCurrent(ctx)
			current.SetClientTimeout(ctx, cl.TimeoutMs)
		}
		done := make(chan error, 1)
		t0 := time.Now()
		go func() {
			resp := &requestf.ResponsePacket{}
			done <- sp.TarsInvoke(ctx, 0, "echo", []byte{1, 2, 3, 4}, nil, nil, resp)
		}()
		var took time.Duration
		select {
		case err := <-done:
			took = time.Since(t0)
			if err == nil {
				cancel()
				return stat.Failf("phantom-reply", "call %d succeeded although the peer (%s) never sent a response", i, c.Peer)
			}
		case <-time.After(20 * time.Second):
			cancel()
			return stat.Failf("call-never-returned", "call %d over %s to a peer that accepts the connection and then is %s (timeout %d ms from %s, dial timeout %d ms) had not returned after 20 s", i, c.Transport, c.Peer, cl.TimeoutMs, cl.Source, dialTimeoutMs)
		}
		cancel()
		limit := time.Duration(cl.TimeoutMs+dialTimeoutMs)*time.Millisecond + 150*time.Millisecond + time.Duration(cl.TimeoutMs+dialTimeoutMs)*time.Millisecond/10
		if took > limit {
			// re-measure once on a quiet moment before it counts
			return stat.Failf("deadline-overrun", "call %d over %s (peer %s): returned after %v, limit %v = timeout %d ms + connection-establishment bound %d ms + slack", i, c.Transport, c.Peer, took.Round(time.Millisecond), limit, cl.TimeoutMs, dialTimeoutMs)
		}
	}
	time.Sleep(60 * time.Millisecond)
	if q, p, inv := int(sp.VerifQueueLen()), sp.VerifPending(), sp.VerifInvokeNum(); q != 0 || p > 0 || inv != 0 {
		return stat.Failf("resource-leak", "after all calls returned (transport %s, peer %s): in-flight counter %d, pending-reply table size %d, manager invocation counter %d (all must be 0)", c.Transport, c.Peer, q, p, inv)
	}
	return nil
}

func establishment(t *testing.T) {
	stat.Check(t, st, "establishment", stat.N(12, 400), drawEst, func(c EstCase) *stat.Failure {
		st.CaseJSON(c, c.Transport == "ssl" || len(c.Calls) >= 2, "establish-"+c.Transport, "establish-peer-"+c.Peer)
		f := runEst(c)
		if f != nil && f.Sig == "deadline-overrun" {
			// timing: must be confirmed twice more
			for k := 0; k < 2; k++ {
				time.Sleep(200 * time.Millisecond)
				if g := runEst(c); g == nil {
					st.Inconclusive()
					return nil
				}
			}
		}
		return f
	})
}
