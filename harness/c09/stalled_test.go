package c09

// Peer that stops reading: the server accepts the connection and never reads from it. The
// client's sender goroutine then blocks in Write once the socket buffers are full, the send
// queue (generated length 1..3) fills behind it, and later callers have to wait for room in
// the queue. Whatever the peer does a call returns by its deadline - waiting for room in
// the send queue included.

import (
	"context"
	"fmt"
	"net"
	"sync"
	"sync/atomic"
	"testing"
	"time"

	"github.com/TarsCloud/TarsGo/tars"
	"github.com/TarsCloud/TarsGo/tars/protocol/res/requestf"
	"pgregory.net/rapid"

	"verif/harness/stat"
)

type StallCase struct {
	QueueLen  int   `json:"client_queue_len"`
	PayloadMB int   `json:"payload_mb"`
	Calls     []int `json:"call_timeouts_ms"` // issued one after the other
	// Concurrent: all calls are issued at once instead
	Concurrent bool `json:"concurrent,omitempty"`
	OneWay     bool `json:"one_way,omitempty"`
}

func drawStall(rt *rapid.T) StallCase {
	c := StallCase{QueueLen: rapid.IntRange(1, 3).Draw(rt, "queueLen"), PayloadMB: rapid.SampledFrom([]int{8, 16}).Draw(rt, "payloadMB")}
	n := rapid.IntRange(c.QueueLen+3, c.QueueLen+6).Draw(rt, "ncalls")
	for i := 0; i < n; i++ {
		c.Calls = append(c.Calls, rapid.SampledFrom([]int{100, 200, 300}).Draw(rt, "timeout"))
	}
	c.Concurrent = rapid.Bool().Draw(rt, "concurrent")
	c.OneWay = rapid.IntRange(0, 3).Draw(rt, "oneWay") == 0
	return c
}

var stallComm *tars.Communicator
var stallOnce sync.Once

func runStall(c StallCase) *stat.Failure {
	stallOnce.Do(func() { stallComm = tars.NewCommunicator() })
	l, err := net.Listen("tcp", "127.0.0.1:0")
	if err != nil {
		return stat.Failf("harness-failure", "listen: %v", err)
	}
	defer l.Close()
	var held []net.Conn
	var mu sync.Mutex
	go func() {
		for {
			cn, err := l.Accept()
			if err != nil {
				return
			}
			mu.Lock()
			held = append(held, cn) // accepted, never read
			mu.Unlock()
		}
	}()
	defer func() {
		mu.Lock()
		for _, cn := range held {
			cn.Close()
		}
		mu.Unlock()
	}()
	stallComm.Client.ClientQueueLen = c.QueueLen
	obj := fmt.Sprintf("Verif.C09.Stall%d@tcp -h 127.0.0.1 -p %d -t 60000", atomic.AddInt64(&objSeq, 1), l.Addr().(*net.TCPAddr).Port)
	sp := tars.NewServantProxy(stallComm, obj)
	defer func() {
		for _, a := range sp.VerifAdapters() {
			a.Close()
		}
	}()
	payload := make([]byte, c.PayloadMB<<20)
	type res struct {
		took time.Duration
		err  error
	}
	results := make([]res, len(c.Calls))
	call := func(i int) {
		ctx, cancel := context.WithTimeout(context.Background(), time.Duration(c.Calls[i])*time.Millisecond)
		defer cancel()
		ct := byte(0)
		if c.OneWay {
			ct = 1
		}
		t0 := time.Now()
		err := sp.TarsInvoke(ctx, ct, "echo", payload, nil, nil, &requestf.ResponsePacket{})
		results[i] = res{time.Since(t0), err}
	}
	done := make(chan struct{})
	go func() {
		defer close(done)
		if c.Concurrent {
			var wg sync.WaitGroup
			for i := range c.Calls {
				wg.Add(1)
				go func(i int) { defer wg.Done(); call(i) }(i)
			}
			wg.Wait()
			return
		}
		for i := range c.Calls {
			call(i)
		}
	}()
	select {
	case <-done:
	case <-time.After(60 * time.Second):
		return stat.Failf("call-never-returned", "peer that stops reading, send queue of %d: the calls did not return within 60 s (deadlines <= 300 ms)", c.QueueLen)
	}
	for i, r := range results {
		// packing a payload of several megabytes takes time of its own: 25 ms per megabyte
		limit := time.Duration(c.Calls[i])*time.Millisecond*11/10 + 150*time.Millisecond + time.Duration(c.PayloadMB)*25*time.Millisecond
		if r.took > limit {
			return stat.Failf("deadline-overrun", "peer that stops reading, send queue of %d requests, %d MiB requests: call %d (context deadline %d ms, one-way=%v) returned after %v (limit %v) with err=%v", c.QueueLen, c.PayloadMB, i, c.Calls[i], c.OneWay, r.took.Round(time.Millisecond), limit, r.err)
		}
		if r.err == nil && !c.OneWay {
			return stat.Failf("phantom-success", "peer that stops reading: two-way call %d succeeded although the peer never sent a byte", i)
		}
	}
	time.Sleep(60 * time.Millisecond)
	if q, p, inv := int(sp.VerifQueueLen()), sp.VerifPending(), sp.VerifInvokeNum(); q != 0 || p > 0 || inv != 0 {
		return stat.Failf("resource-leak", "peer that stops reading: after all calls returned: in-flight counter %d, pending-reply table size %d, manager invocation counter %d (all must be 0)", q, p, inv)
	}
	return nil
}

func stalledPeer(t *testing.T) {
	stat.Check(t, st, "peer-stops-reading", stat.N(3, 40), drawStall, func(c StallCase) *stat.Failure {
		cls := []string{"peer-stops-reading", fmt.Sprintf("stall-queue-%d", c.QueueLen)}
		if c.Concurrent {
			cls = append(cls, "stall-concurrent")
		}
		if c.OneWay {
			cls = append(cls, "stall-one-way")
		}
		st.CaseJSON(c, true, cls...)
		f := runStall(c)
		if f != nil && f.Sig == "deadline-overrun" {
			for k := 0; k < 2; k++ {
				time.Sleep(200 * time.Millisecond)
				if g := runStall(c); g == nil {
					st.Inconclusive()
					return nil
				}
			}
		}
		return f
	})
}
