package rpcprops

import (
	"encoding/binary"
	"net"
	"sync"
	"sync/atomic"
	"time"
)

// Relay is a byte-exact TCP relay between a client and a server that only chooses where the
// TCP segments end: it understands the 4-byte length framing and ends segments a chosen
// number of bytes (Plan.Cut) after a packet boundary - inside the next packet's length prefix
// or shortly behind it - when packets follow each other back to back, and splits a lone
// packet that many bytes after its start. Every byte is forwarded unchanged and in order;
// a correct peer cannot tell the difference (C07 is the property that says so, C01 is
// checked through it).
type Relay struct {
	ln     net.Listener
	target string
	plan   atomic.Value // RelayPlan
	Segs   int64        // segments written that ended inside a packet (statistics)
	ToSrv  int64        // packets seen in the client -> server direction
	ToCli  int64        // packets seen in the server -> client direction
	mu     sync.Mutex
	conns  []net.Conn
}

type RelayPlan struct {
	Cut    int `json:"cut"`     // 0: forward as received; k>0: end segments k bytes after a packet boundary
	HoldUs int `json:"hold_us"` // how long bytes are held back so that packets batch up
}

func StartRelay(target string) (*Relay, error) {
	ln, err := net.Listen("tcp", "127.0.0.1:0")
	if err != nil {
		return nil, err
	}
	r := &Relay{ln: ln, target: target}
	r.plan.Store(RelayPlan{})
	go func() {
		for {
			c, err := ln.Accept()
			if err != nil {
				return
			}
			s, err := net.DialTimeout("tcp", target, 3*time.Second)
			if err != nil {
				c.Close()
				continue
			}
			r.mu.Lock()
			r.conns = append(r.conns, c, s)
			r.mu.Unlock()
			go r.pump(c, s, &r.ToSrv)
			go r.pump(s, c, &r.ToCli)
		}
	}()
	return r, nil
}

func (r *Relay) Port() int           { return r.ln.Addr().(*net.TCPAddr).Port }
func (r *Relay) SetPlan(p RelayPlan) { r.plan.Store(p) }

func (r *Relay) Close() {
	r.ln.Close()
	r.mu.Lock()
	for _, c := range r.conns {
		c.Close()
	}
	r.mu.Unlock()
}

// pump forwards src -> dst.
func (r *Relay) pump(src, dst net.Conn, frames *int64) {
	defer src.Close()
	defer dst.Close()
	var pending []byte // received, not yet forwarded
	toBoundary := 0    // bytes until the next packet boundary in the stream position of pending[0]
	buf := make([]byte, 256*1024)
	for {
		p := r.plan.Load().(RelayPlan)
		if len(pending) == 0 {
			_ = src.SetReadDeadline(time.Time{})
		} else {
			_ = src.SetReadDeadline(time.Now().Add(time.Duration(p.HoldUs) * time.Microsecond))
		}
		n, err := src.Read(buf)
		pending = append(pending, buf[:n]...)
		if err != nil {
			if ne, ok := err.(net.Error); !ok || !ne.Timeout() {
				if len(pending) > 0 {
					_, _ = dst.Write(pending)
				}
				return
			}
		} else if p.Cut > 0 && len(pending) < 1<<20 {
			// keep collecting while more arrives within the hold window
			if n > 0 {
				continue
			}
		}
		if len(pending) == 0 {
			continue
		}
		// segment ends: k bytes after every packet boundary inside pending (toBoundary = bytes
		// of a packet whose head was forwarded earlier and whose tail is still to come)
		var ends []int
		off := toBoundary
		flushEnd := len(pending)
		framed := true
		for off < len(pending) {
			if off+4 > len(pending) {
				flushEnd = off // an incomplete length prefix stays behind for the next round
				break
			}
			l := int(binary.BigEndian.Uint32(pending[off:]))
			if l < 4 || l > 64<<20 {
				framed = false // not framed traffic (or hostile): forward as is from here on
				break
			}
			atomic.AddInt64(frames, 1)
			if e := off + p.Cut; p.Cut > 0 && e < flushEnd && (len(ends) == 0 || e > ends[len(ends)-1]) {
				ends = append(ends, e)
			}
			off += l
		}
		if !framed {
			ends, flushEnd, toBoundary = nil, len(pending), 1<<62
		} else if off >= flushEnd {
			toBoundary = off - flushEnd
		} else {
			toBoundary = 0
		}
		last := 0
		for _, e := range ends {
			if e >= flushEnd {
				break
			}
			if _, err := dst.Write(pending[last:e]); err != nil {
				return
			}
			atomic.AddInt64(&r.Segs, 1)
			last = e
			time.Sleep(400 * time.Microsecond)
		}
		if flushEnd > last {
			if _, err := dst.Write(pending[last:flushEnd]); err != nil {
				return
			}
		}
		pending = append(pending[:0], pending[flushEnd:]...)
		if len(pending) > 0 {
			// wait for the rest of the length prefix without spinning
			_ = src.SetReadDeadline(time.Time{})
			n, err := src.Read(buf)
			pending = append(pending, buf[:n]...)
			if err != nil {
				_, _ = dst.Write(pending)
				return
			}
		}
	}
}
