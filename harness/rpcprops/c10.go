package rpcprops

import (
	"fmt"
	"github.com/TarsCloud/TarsGo/tars"
	"net"
	"strconv"
	"strings"
	"testing"
	"time"

	"pgregory.net/rapid"

	rc "verif/harness/refcodec"
	"verif/harness/stat"
)

const C10Rule = "Raw client (reference codec) against in-process servers in generated configurations {tcp|udp, worker pool 0/1/3, handle timeout 0/300 ms, servant with/without context, in a third of the cases pass-through server filters registered (legacy single / pre+post / middleware chain)}; case = 1..24 requests pipelined over 1..3 connections through a generated chunking of the byte stream (in a quarter of the tcp cases the client then shuts down its sending side and keeps reading): version TARS(1)/TUP(3)/JSON(5) with arguments encoded for that version, two-way or one-way, arbitrary non-zero ids (negatives included, duplicates across connections), function = generated function | tars_ping | unknown name, iTimeout 0/large (tiny only in the queue-timeout scenario), scripted servant outcome (values, *tars.Error, plain error, sleep). Scenarios: mixed; queue-timeout (pool 1, first request sleeps 150 ms, later ones carry iTimeout <= 50 ms); handle-timeout (handle timeout 300 ms, slow handlers sleep 1200 ms). Oracle per connection: exactly one reply per two-way request and none per one-way (awaited until all handlers finished + grace), carrying the request's id, version and packet type; replies decode strictly (ResponsePacket, or RequestPacket form for TUP); ping => ret 0 and no invocation; error => code (1 for plain errors) and message (TUP: STATUS_RESULT_CODE/DESC in the status map); queue timeout => -6 and no invocation; slow handler => non-zero timeout reply; success => scripted values decoded per version; servant invoked exactly once per executed call. Non-trivial = >=2 versions and >=1 one-way and >=1 error/timeout outcome on a pipelined connection. Distinct = distinct case JSON."

type C10Req struct {
	Conn     int      `json:"conn"`
	Version  int16    `json:"version"`
	OneWay   bool     `json:"one_way,omitempty"`
	ReqID    int32    `json:"req_id"`
	Kind     string   `json:"kind"` // call | ping | unknown
	Fn       string   `json:"fn,omitempty"`
	Ins      [][]byte `json:"ins,omitempty"`
	ITimeout int32    `json:"itimeout"`
	Outcome  Outcome  `json:"outcome"`
}

type C10Case struct {
	Scenario      string   `json:"scenario"` // mixed | queue-timeout | handle-timeout
	Iface         string   `json:"iface"`
	WithContext   bool     `json:"with_context"`
	Proto         string   `json:"proto"`
	MaxInvoke     int32    `json:"max_invoke"`
	HandleTimeout int      `json:"handle_timeout_ms"`
	NConns        int      `json:"n_conns"`
	Chunks        []int    `json:"chunks"`
	Reqs          []C10Req `json:"reqs"`
	// ServerFilters: pass-through server filters registered while the case runs (they must
	// not change what the server answers)
	ServerFilters SideFilters `json:"server_filters"`
	// HalfClose (tcp): each client shuts down the sending side of its connection as soon as
	// its requests are written and keeps reading (every request already sent must still be
	// answered before the server closes the connection)
	HalfClose bool `json:"half_close,omitempty"`
	// CutAfter k > 0 (tcp): every write of the client ends k bytes after a packet boundary
	// (1..3: inside the next length prefix), with a pause so that the server reads them apart
	CutAfter int `json:"cut_after,omitempty"`
	// ReadTimeoutMs > 0 (tcp): the server adapter has that <readtimeout>, and the client
	// pauses 250 ms - longer than it - after its first write, which ends inside a request
	ReadTimeoutMs int `json:"read_timeout_ms,omitempty"`
}

const (
	queueSleepMs  = 150
	handleTimeout = 300
	slowHandlerMs = 1200
)

func (e *Env) funcsOf(iface string) []*rc.Func {
	for _, it := range e.Schema.Ifaces {
		if it.Module+"."+it.Name == iface {
			return it.Funcs
		}
	}
	return nil
}

func (e *Env) DrawC10(rt *rapid.T) C10Case {
	c := C10Case{Iface: e.Ifaces[rapid.IntRange(0, len(e.Ifaces)-1).Draw(rt, "iface")], WithContext: rapid.Bool().Draw(rt, "withContext")}
	c.Scenario = rapid.SampledFrom([]string{"mixed", "mixed", "mixed", "queue-timeout", "handle-timeout"}).Draw(rt, "scenario")
	c.Proto = rapid.SampledFrom([]string{"tcp", "tcp", "tcp", "udp"}).Draw(rt, "proto")
	c.MaxInvoke = rapid.SampledFrom([]int32{0, 1, 3}).Draw(rt, "pool")
	c.NConns = rapid.IntRange(1, 3).Draw(rt, "nconns")
	c.ServerFilters = SideFilters{Kind: "none"}
	if rapid.IntRange(0, 2).Draw(rt, "filters") == 0 {
		c.ServerFilters = drawSide(rt, "server")
	}
	c.HalfClose = rapid.IntRange(0, 3).Draw(rt, "halfClose") == 0
	if rapid.IntRange(0, 3).Draw(rt, "cutAfter") == 0 {
		c.CutAfter = rapid.SampledFrom([]int{1, 2, 3, 4, 5}).Draw(rt, "cutAfterK")
	}
	if rapid.IntRange(0, 5).Draw(rt, "readTimeout") == 0 {
		c.ReadTimeoutMs = 80
		if c.CutAfter == 0 {
			c.CutAfter = rapid.SampledFrom([]int{1, 3, 4, 9, 20}).Draw(rt, "cutAfterRT")
		}
	}
	maxReq := 24
	switch c.Scenario {
	case "queue-timeout":
		// one worker, one client socket (tcp or udp: the time a request waits in the pool's
		// queue counts against its own timeout on both transports)
		c.MaxInvoke, c.NConns, maxReq = 1, 1, 10
	case "handle-timeout":
		c.HandleTimeout, maxReq = handleTimeout, 8
		if c.MaxInvoke == 1 {
			c.MaxInvoke = 3 // with one worker slow handlers would also be queue effects
		}
	default:
		if rapid.IntRange(0, 3).Draw(rt, "ht") == 0 {
			c.HandleTimeout = 20000 // configured but never reached
		}
	}
	if c.Proto == "udp" {
		maxReq = 8
	}
	c.Chunks = rapid.SliceOfN(rapid.SampledFrom([]int{1, 2, 3, 4, 5, 7, 16, 64, 100, 1000, 4095, 4096, 4097, 100000}), 0, 12).Draw(rt, "chunks")
	funcs := e.funcsOf(c.Iface)
	n := rapid.IntRange(1, maxReq).Draw(rt, "nreqs")
	seen := map[string]Outcome{}
	usedID := map[string]bool{}
	proxy := e.NewProxy[c.Iface]()
	for i := 0; i < n; i++ {
		r := C10Req{Conn: rapid.IntRange(0, c.NConns-1).Draw(rt, "conn")}
		r.Version = rapid.SampledFrom([]int16{VerTars, VerTars, VerTup, VerJSON}).Draw(rt, "version")
		r.OneWay = rapid.IntRange(0, 4).Draw(rt, "oneway") == 0
		for {
			r.ReqID = rapid.OneOf(rapid.Int32Range(1, 50), rapid.Int32(), rapid.SampledFrom([]int32{-1, 1, 2147483647, -2147483648})).Filter(func(v int32) bool { return v != 0 }).Draw(rt, "id")
			k := fmt.Sprintf("%d/%d", r.Conn, r.ReqID)
			if !usedID[k] {
				usedID[k] = true
				break
			}
		}
		r.Kind = rapid.SampledFrom([]string{"call", "call", "call", "call", "call", "ping", "unknown"}).Draw(rt, "kind")
		if rapid.Bool().Draw(rt, "largeTimeout") {
			r.ITimeout = 60000
		}
		if r.Kind == "call" {
			f := funcs[rapid.IntRange(0, len(funcs)-1).Draw(rt, "fn")]
			if r.Version == VerJSON && !JSONCapable(f) {
				r.Version = VerTars
			}
			if r.Version == VerJSON {
				if _, _, err := methodTypes(proxy, f); err != nil {
					r.Version = VerTars
				}
			}
			r.Fn = f.Name
			lim := rc.Limits{MaxStr: 24, MaxElems: 3, BigStr: c.Proto == "tcp" && rapid.IntRange(0, 7).Draw(rt, "big") == 0, ASCII: r.Version == VerJSON, Finite: r.Version == VerJSON}
			var key strings.Builder
			for _, a := range f.Args {
				if a.Out {
					continue
				}
				b := rc.CanonBytes(a.Type, rc.DrawValue(rt, a.Type, lim, 0, "in."+a.Name))
				if c.Proto == "udp" && len(b) > 8000 {
					// the request has to fit into one datagram as well
					b = rc.CanonBytes(a.Type, rc.Zero(a.Type))
				}
				r.Ins = append(r.Ins, b)
				key.Write(b)
				key.WriteByte('|')
			}
			k := f.Name + "|" + key.String()
			if o, ok := seen[k]; ok {
				r.Outcome = o
			} else {
				// outcomes must be representable in every version that may carry them
				olim := rc.Limits{MaxStr: 24, MaxElems: 3, ASCII: true, Finite: true, BigStr: c.Proto == "tcp" && rapid.IntRange(0, 3).Draw(rt, "bigout") == 0}
				r.Outcome = e.DrawOutcome(rt, f, olim, true)
				if c.Proto == "udp" {
					// a reply has to fit into one datagram (65507 bytes; the TUP form carries the
					// values twice): outcomes of more than 20000 bytes are replaced by an error
					// outcome, whose reply is small
					size := len(r.Outcome.Ret)
					for _, o := range r.Outcome.Outs {
						size += len(o)
					}
					if size > 20000 {
						r.Outcome = Outcome{ErrKind: 2, ErrCode: 1, ErrMsg: "value too large for a datagram"}
					}
				}
				switch c.Scenario {
				case "queue-timeout":
					if i == 0 {
						r.Outcome.SleepMs = queueSleepMs
					}
				case "handle-timeout":
					if rapid.IntRange(0, 2).Draw(rt, "slow") == 0 {
						r.Outcome.SleepMs = slowHandlerMs
					}
				}
				seen[k] = r.Outcome
			}
		}
		if c.Scenario == "queue-timeout" {
			if i == 0 {
				// the sleeper: first on the connection, never one-way-only so that it is observable
				r.Kind, r.ITimeout = "call", 0
				if r.Fn == "" {
					f := funcs[0]
					r.Fn = f.Name
					r.Version = VerTars
					r.Ins = nil
					for _, a := range f.Args {
						if !a.Out {
							r.Ins = append(r.Ins, rc.CanonBytes(a.Type, rc.Zero(a.Type)))
						}
					}
					o := e.DrawOutcome(rt, f, rc.Limits{MaxStr: 4, MaxElems: 1, ASCII: true, Finite: true}, false)
					o.SleepMs = queueSleepMs
					r.Outcome = o
					var key strings.Builder
					for _, b := range r.Ins {
						key.Write(b)
						key.WriteByte('|')
					}
					seen[f.Name+"|"+key.String()] = o
				}
			} else if r.Kind == "call" && rapid.Bool().Draw(rt, "tiny") {
				// (only ordinary calls: whether an expired ping is a ping or a queue timeout
				// is not decided by the property)
				r.ITimeout = int32(rapid.IntRange(1, 50).Draw(rt, "tinyTimeout"))
			}
		}
		c.Reqs = append(c.Reqs, r)
	}
	// "queued behind another connection": one worker, the first call (alone on connection 0)
	// keeps it busy for 800 ms, everything else waits in the pool's queue on other
	// connections whose clients half-close after writing
	if c.Scenario == "mixed" && c.Proto == "tcp" && len(c.Reqs) >= 2 && c.Reqs[0].Kind == "call" && !c.Reqs[0].OneWay &&
		rapid.IntRange(0, 3).Draw(rt, "queuedBehind") == 0 {
		ok := true
		taken := map[string]bool{}
		for i := 1; i < len(c.Reqs); i++ {
			conn := c.Reqs[i].Conn
			if conn == 0 {
				conn = 1
			}
			k := fmt.Sprintf("%d/%d", conn, c.Reqs[i].ReqID)
			if taken[k] || string(keyOf(c.Reqs[i])) == string(keyOf(c.Reqs[0])) {
				ok = false
			}
			taken[k] = true
		}
		if ok {
			c.MaxInvoke, c.HalfClose = 1, true
			if c.NConns < 2 {
				c.NConns = 2
			}
			c.Reqs[0].Conn, c.Reqs[0].ITimeout = 0, 0
			c.Reqs[0].Outcome.SleepMs = 800
			for i := 1; i < len(c.Reqs); i++ {
				if c.Reqs[i].Conn == 0 {
					c.Reqs[i].Conn = 1
				}
			}
		}
	}
	// the pause of the read-timeout dimension would defeat the timing the other scenarios
	// are built on
	if c.Scenario != "mixed" || c.Proto != "tcp" || (len(c.Reqs) > 0 && c.Reqs[0].Outcome.SleepMs == 800) {
		c.ReadTimeoutMs = 0
	}
	return c
}

// keyOf identifies the scripted outcome a request shares with equal requests.
func keyOf(r C10Req) []byte {
	var b []byte
	b = append(b, r.Fn...)
	for _, in := range r.Ins {
		b = append(b, '|')
		b = append(b, in...)
	}
	return b
}

// expected classifies what the model expects for request i.
type c10Expect struct {
	reply   bool
	invoked bool
	kind    string // success | error | ping | unknown | queue-timeout | handle-timeout
	errCode int32
	errMsg  string
}

func (e *Env) c10Model(c C10Case) []c10Expect {
	out := make([]c10Expect, len(c.Reqs))
	for i, r := range c.Reqs {
		x := c10Expect{reply: !r.OneWay}
		switch r.Kind {
		case "ping":
			x.kind = "ping"
		case "unknown":
			x.kind = "unknown"
		default:
			x.invoked = true
			switch {
			case c.Scenario == "queue-timeout" && i > 0 && r.ITimeout > 0 && r.ITimeout <= 50:
				x.kind, x.invoked = "queue-timeout", false
			case c.Scenario == "handle-timeout" && r.Outcome.SleepMs >= slowHandlerMs:
				x.kind = "handle-timeout"
			case r.Outcome.ErrKind != 0:
				x.kind, x.errMsg = "error", r.Outcome.ErrMsg
				x.errCode = r.Outcome.ErrCode
				if r.Outcome.ErrKind == 2 {
					x.errCode = 1
				}
			default:
				x.kind = "success"
			}
		}
		out[i] = x
	}
	return out
}

func (e *Env) runC10Once(c C10Case) *stat.Failure {
	opts := ServerOpts{Proto: c.Proto, MaxInvoke: c.MaxInvoke, HandleTimeout: time.Duration(c.HandleTimeout) * time.Millisecond}
	if c.Proto != "udp" {
		opts.ReadTimeout = time.Duration(c.ReadTimeoutMs) * time.Millisecond
	}
	srv, proxy, err := e.Endpoint(c.Iface, c.WithContext, opts)
	if err != nil {
		return stat.Failf("harness-failure", "server setup: %v", err)
	}
	e.Hub.Reset()
	if c.ServerFilters.Kind != "" && c.ServerFilters.Kind != "none" {
		installFilters(SideFilters{Kind: "none"}, c.ServerFilters)
		defer tars.VerifResetFilters()
	}
	model := e.c10Model(c)
	totalSleep := 0
	for i, r := range c.Reqs {
		if r.Kind != "call" {
			continue
		}
		var key strings.Builder
		for _, in := range r.Ins {
			key.Write(in)
			key.WriteByte('|')
		}
		o := r.Outcome
		if c.Scenario == "queue-timeout" && i > 0 {
			o.SleepMs = 0
		}
		if _, ok := e.Hub.script[ScriptKey(c.Iface, r.Fn, key.String())]; !ok || i == 0 {
			e.Hub.Script(c.Iface, r.Fn, key.String(), &o)
		}
		if model[i].invoked {
			totalSleep += o.SleepMs
		}
	}
	// connections and per-connection streams
	conns := make([]*RawConn, c.NConns)
	for i := range conns {
		rcn, err := DialRaw(c.Proto, srv.Addr)
		if err != nil {
			return stat.Failf("harness-failure", "dial: %v", err)
		}
		conns[i] = rcn
		defer rcn.Close()
	}
	streams := make([][]byte, c.NConns)
	pktLens := make([][]int, c.NConns)
	nExpected := make([]int, c.NConns)
	for i, r := range c.Reqs {
		req := RawReq{Version: r.Version, ReqID: r.ReqID, Servant: "Verif.Obj", Timeout: r.ITimeout, Context: map[string]string{}, Status: map[string]string{}}
		if r.OneWay {
			req.PacketType = 1
		}
		switch r.Kind {
		case "ping":
			req.Func = "tars_ping"
		case "unknown":
			req.Func = "noSuchFunction_" + strconv.Itoa(i)
		default:
			_, f := e.Hub.FindFunc(c.Iface, r.Fn)
			if f == nil {
				return stat.Failf("harness-failure", "unknown function %s", r.Fn)
			}
			var ins []any
			ii := 0
			for _, a := range f.Args {
				if a.Out {
					continue
				}
				v, err := rc.DecodeOne(a.Type, r.Ins[ii])
				if err != nil {
					return stat.Failf("harness-failure", "bad in-arg: %v", err)
				}
				ins = append(ins, v)
				ii++
			}
			req.Func = f.Name
			buf, err := EncodeArgs(r.Version, proxy, f, ins)
			if err != nil {
				return stat.Failf("harness-failure", "encode args v%d: %v", r.Version, err)
			}
			req.Buffer = buf
		}
		pkt := req.Encode()
		if c.Proto == "udp" {
			if err := conns[r.Conn].Write(pkt, nil); err != nil {
				return stat.Failf("harness-failure", "udp write: %v", err)
			}
			time.Sleep(200 * time.Microsecond)
		} else {
			streams[r.Conn] = append(streams[r.Conn], pkt...)
			pktLens[r.Conn] = append(pktLens[r.Conn], len(pkt))
		}
		if model[i].reply {
			nExpected[r.Conn]++
		}
	}
	if c.Proto != "udp" {
		for i, s := range streams {
			var err error
			if c.CutAfter > 0 && len(pktLens[i]) >= 2 {
				// first write: packet 0 plus k bytes of packet 1; every following write ends k
				// bytes into the packet after the next boundary
				chunks := []int{pktLens[i][0] + c.CutAfter}
				for _, l := range pktLens[i][1 : len(pktLens[i])-1] {
					chunks = append(chunks, l)
				}
				if c.ReadTimeoutMs > 0 {
					// one long pause inside a request, then the rest at once
					err = conns[i].WritePaced(s, chunks[:1], 250*time.Millisecond)
				} else {
					err = conns[i].WritePaced(s, chunks, 400*time.Microsecond)
				}
			} else {
				err = conns[i].Write(s, c.Chunks)
			}
			if err != nil {
				return stat.Failf("connection-lost", "server closed connection %d while well-formed requests were being written: %v", i, err)
			}
			if tc, ok := conns[i].C.(*net.TCPConn); ok && c.HalfClose {
				_ = tc.CloseWrite()
			}
		}
	}
	// wait for the replies, then for all handlers, then a grace period for stray packets
	budget := 3*time.Second + time.Duration(totalSleep)*time.Millisecond
	if c.Scenario == "handle-timeout" {
		budget += time.Duration(len(c.Reqs)*slowHandlerMs) * time.Millisecond
	}
	for i, rcn := range conns {
		rcn.WaitPackets(nExpected[i], budget)
	}
	nInv := 0
	for _, x := range model {
		if x.invoked {
			nInv++
		}
	}
	dl := time.Now().Add(budget)
	for time.Now().Before(dl) {
		log, _ := e.Hub.Log()
		done := 0
		for _, inv := range log {
			if !inv.Done.IsZero() {
				done++
			}
		}
		if done >= nInv {
			break
		}
		time.Sleep(2 * time.Millisecond)
	}
	time.Sleep(120 * time.Millisecond)

	// ---- oracle
	for ci, rcn := range conns {
		pkts, errs, closed := rcn.Packets()
		if len(errs) > 0 {
			return stat.Failf("malformed-reply-stream", "connection %d: %s", ci, errs[0])
		}
		if closed && !(c.HalfClose && c.Proto != "udp") { // after a half close the server closes its side once everything is answered
			return stat.Failf("connection-lost", "connection %d was closed by the server although every request was well-formed", ci)
		}
		byID := map[int32][]*RawResp{}
		for _, p := range pkts {
			resp, err := DecodeResp(p)
			if err != nil {
				return stat.Failf("reply-not-wellformed", "connection %d: %v; bytes % x", ci, err, clipB(p))
			}
			byID[resp.ReqID] = append(byID[resp.ReqID], resp)
		}
		// a request answered more than once cannot be explained by a lost datagram or a slow
		// machine: report it first (ids are unique per connection in a case)
		for i, r := range c.Reqs {
			if r.Conn == ci && model[i].reply && len(byID[r.ReqID]) > 1 {
				return stat.Failf("duplicate-reply", "request #%d (conn %d, id %d, version %d, %s %s) received %d replies, exactly one expected", i, ci, r.ReqID, r.Version, r.Kind, r.Fn, len(byID[r.ReqID]))
			}
		}
		for i, r := range c.Reqs {
			if r.Conn != ci {
				continue
			}
			x := model[i]
			rs := byID[r.ReqID]
			delete(byID, r.ReqID)
			what := fmt.Sprintf("request #%d (conn %d, id %d, version %d, %s %s, expected %s)", i, ci, r.ReqID, r.Version, r.Kind, r.Fn, x.kind)
			if !x.reply {
				if len(rs) != 0 {
					return stat.Failf("oneway-answered", "%s is one-way but received %d reply packet(s) (ret %d %q)", what, len(rs), rs[0].Ret, rs[0].ResultDesc)
				}
				continue
			}
			if len(rs) != 1 {
				return stat.Failf("reply-count", "%s received %d replies, exactly one expected", what, len(rs))
			}
			resp := rs[0]
			if resp.Version != r.Version {
				return stat.Failf("reply-identity", "%s: reply carries version %d", what, resp.Version)
			}
			if resp.PacketType != 0 {
				return stat.Failf("reply-identity", "%s: reply carries packet type %d", what, resp.PacketType)
			}
			wantShape := "response"
			if r.Version == VerTup {
				wantShape = "request"
			}
			if resp.Shape != wantShape {
				return stat.Failf("reply-identity", "%s: reply has the %s packet layout", what, resp.Shape)
			}
			ret, desc := resp.Ret, resp.ResultDesc
			if r.Version == VerTup {
				// Tars status convention for TUP replies
				ret = 0
				if v, ok := resp.Status["STATUS_RESULT_CODE"]; ok {
					n, err := strconv.ParseInt(v, 10, 32)
					if err != nil {
						return stat.Failf("reply-content", "%s: STATUS_RESULT_CODE %q is not a number", what, v)
					}
					ret = int32(n)
				}
				desc = resp.Status["STATUS_RESULT_DESC"]
			}
			switch x.kind {
			case "ping":
				if ret != 0 {
					return stat.Failf("reply-content", "%s: ping answered with code %d %q", what, ret, desc)
				}
			case "unknown":
				if ret == 0 {
					return stat.Failf("reply-content", "%s: unknown function answered with success", what)
				}
			case "error":
				if ret != x.errCode || desc != x.errMsg {
					return stat.Failf("error-reply", "%s: implementation failed with (%d,%q), reply carries (%d,%q)", what, x.errCode, x.errMsg, ret, desc)
				}
			case "queue-timeout":
				if ret != -6 {
					return stat.Failf("queue-timeout-reply", "%s: iTimeout %d ms elapsed in the queue behind a %d ms handler, reply carries code %d %q instead of -6", what, r.ITimeout, queueSleepMs, ret, desc)
				}
			case "handle-timeout":
				if ret == 0 {
					return stat.Failf("handle-timeout-reply", "%s: handler slept %d ms with a %d ms handle timeout, reply reports success", what, slowHandlerMs, c.HandleTimeout)
				}
			case "success":
				if ret != 0 {
					return stat.Failf("reply-content", "%s: successful call answered with code %d %q", what, ret, desc)
				}
				_, f := e.Hub.FindFunc(c.Iface, r.Fn)
				gret, gouts, err := DecodeResult(r.Version, proxy, f, resp.Buffer)
				if err != nil {
					return stat.Failf("reply-content", "%s: result payload: %v; % x", what, err, clipB(resp.Buffer))
				}
				if f.Ret != nil {
					want, _ := rc.DecodeOne(f.Ret, r.Outcome.Ret)
					if d := rc.Diff(f.Ret, want, gret, "ret"); d != "" {
						return stat.Failf("reply-content", "%s: return value %s", what, d)
					}
				}
				oi := 0
				for _, a := range f.Args {
					if !a.Out {
						continue
					}
					want, _ := rc.DecodeOne(a.Type, r.Outcome.Outs[oi])
					if d := rc.Diff(a.Type, want, gouts[oi], a.Name); d != "" {
						return stat.Failf("reply-content", "%s: out parameter %s", what, d)
					}
					oi++
				}
			}
		}
		for id, rs := range byID {
			return stat.Failf("stray-reply", "connection %d received %d reply packet(s) with id %d that no request on it carries", ci, len(rs), id)
		}
	}
	// servant invocations: exactly once per executed call
	log, misses := e.Hub.Log()
	if len(misses) > 0 {
		return stat.Failf("servant-args", "the implementation received a call nobody made: %s", misses[0])
	}
	want := map[string]int{}
	for i, r := range c.Reqs {
		if model[i].invoked {
			var key strings.Builder
			for _, in := range r.Ins {
				key.Write(in)
				key.WriteByte('|')
			}
			want[r.Fn+"|"+key.String()]++
		}
	}
	got := map[string]int{}
	for _, inv := range log {
		got[inv.Fn+"|"+inv.InsKey]++
	}
	for k, n := range want {
		if got[k] != n {
			return stat.Failf("servant-invocations", "the implementation was invoked %d time(s) for [%.120q], expected %d (scenario %s)", got[k], k, n, c.Scenario)
		}
	}
	for k, n := range got {
		if want[k] != n {
			return stat.Failf("servant-invocations", "the implementation was invoked %d time(s) for [%.120q], expected %d (scenario %s)", n, k, want[k], c.Scenario)
		}
	}
	return nil
}

func clipB(b []byte) []byte {
	if len(b) > 64 {
		return b[:64]
	}
	return b
}

// RunC10Case runs the case; timing-dependent scenarios and UDP are confirmed by two re-runs
// before a failure counts (otherwise: inconclusive).
func (e *Env) RunC10Case(c C10Case, st *stat.Stats) *stat.Failure {
	f := e.runC10Once(c)
	if f == nil {
		return nil
	}
	if f.Sig == "duplicate-reply" || f.Sig == "oneway-answered" {
		return f // a reply too many is never an artefact of timing or datagram loss
	}
	// every other complaint must reproduce twice more (a reply that merely arrived after the
	// grace period on a busy machine does not; a server that answers wrongly does)
	for i := 0; i < 2; i++ {
		time.Sleep(300 * time.Millisecond)
		if g := e.runC10Once(c); g == nil {
			if st != nil {
				st.Inconclusive()
			}
			return nil
		}
	}
	return f
}

func (e *Env) RunC10(t *testing.T, st *stat.Stats, name string, quick, thorough int) {
	stat.Check(t, st, name, stat.N(quick, thorough), e.DrawC10, func(c C10Case) *stat.Failure {
		vers := map[int16]bool{}
		ow, bad := 0, 0
		model := e.c10Model(c)
		for i, r := range c.Reqs {
			vers[r.Version] = true
			if r.OneWay {
				ow++
			}
			if k := model[i].kind; k == "error" || k == "queue-timeout" || k == "handle-timeout" {
				bad++
			}
		}
		cls := []string{"scenario-" + c.Scenario, "proto-" + c.Proto, fmt.Sprintf("pool-%d", c.MaxInvoke)}
		if k := c.ServerFilters.Kind; k != "" && k != "none" {
			cls = append(cls, "server-filters-"+k)
		}
		if c.WithContext {
			cls = append(cls, "with-context")
		}
		for v := range vers {
			cls = append(cls, fmt.Sprintf("version-%d", v))
		}
		st.CaseJSON(c, len(vers) >= 2 && ow >= 1 && bad >= 1 && len(c.Reqs) >= 3, cls...)
		st.Class("requests", int64(len(c.Reqs)))
		return e.RunC10Case(c, st)
	})
}
