// Package rpcprops holds the end-to-end RPC machinery shared by C01, C05 (network part),
// C10, C12 and C16: the servant hub behind the generated glue, in-process servers on the
// transport path, a reflection-driven caller for generated proxies, and a raw client.
package rpcprops

import (
	"context"
	"errors"
	"fmt"
	"reflect"
	"sort"
	"strings"
	"sync"
	"time"

	"github.com/TarsCloud/TarsGo/tars"
	"github.com/TarsCloud/TarsGo/tars/util/current"

	rc "verif/harness/refcodec"
)

// Outcome is what the scripted implementation produces for one (function, in-args).
type Outcome struct {
	Ret        []byte            `json:"ret,omitempty"`  // canonical bytes of the return value (void: nil)
	Outs       [][]byte          `json:"outs,omitempty"` // canonical bytes of every out parameter, in order
	ErrKind    int               `json:"err_kind"`       // 0 none, 1 *tars.Error{Code,Msg}, 2 plain error
	ErrCode    int32             `json:"err_code,omitempty"`
	ErrMsg     string            `json:"err_msg,omitempty"`
	RespCtx    map[string]string `json:"resp_ctx,omitempty"`    // nil: not set by the implementation
	RespStatus map[string]string `json:"resp_status,omitempty"` // nil: not set
	SleepMs    int               `json:"sleep_ms,omitempty"`
}

// Invocation is one observed servant call.
type Invocation struct {
	Iface, Fn string
	InsKey    string // concatenated canonical bytes of the in-args
	HasCtx    bool
	ReqCtx    map[string]string
	ReqStatus map[string]string
	At        time.Time
	Done      time.Time
}

type Hub struct {
	Schema *rc.Schema
	mu     sync.Mutex
	script map[string]*Outcome
	log    []*Invocation
	misses []string
	// Default is used when no scripted outcome matches (nil: unscripted calls are errors).
	Default func(fn *rc.Func) *Outcome
	running int32
}

func NewHub(s *rc.Schema) *Hub { return &Hub{Schema: s, script: map[string]*Outcome{}} }

func ScriptKey(iface, fn, insKey string) string { return iface + "|" + fn + "|" + insKey }

func (h *Hub) Reset() {
	h.mu.Lock()
	h.script = map[string]*Outcome{}
	h.log = nil
	h.misses = nil
	h.mu.Unlock()
}

func (h *Hub) Script(iface, fn, insKey string, o *Outcome) {
	h.mu.Lock()
	h.script[ScriptKey(iface, fn, insKey)] = o
	h.mu.Unlock()
}

func (h *Hub) Log() ([]*Invocation, []string) {
	h.mu.Lock()
	defer h.mu.Unlock()
	return append([]*Invocation{}, h.log...), append([]string{}, h.misses...)
}

func (h *Hub) FindFunc(iface, fn string) (*rc.Iface, *rc.Func) {
	for _, it := range h.Schema.Ifaces {
		if it.Module+"."+it.Name == iface {
			for _, f := range it.Funcs {
				if f.Name == fn {
					return it, f
				}
			}
		}
	}
	return nil, nil
}

func copyMap(m map[string]string) map[string]string {
	if m == nil {
		return nil
	}
	out := make(map[string]string, len(m))
	for k, v := range m {
		out[k] = v
	}
	return out
}

// InsKey builds the canonical key of a list of in-arg values.
func InsKey(fn *rc.Func, ins []any) string {
	var b strings.Builder
	i := 0
	for _, a := range fn.Args {
		if a.Out {
			continue
		}
		b.Write(rc.CanonBytes(a.Type, ins[i]))
		b.WriteByte('|')
		i++
	}
	return b.String()
}

// Call implements the glue's Caller.
func (h *Hub) Call(ctx context.Context, iface, fn string, ins []any, outs []any, ret any) error {
	_, f := h.FindFunc(iface, fn)
	if f == nil {
		h.mu.Lock()
		h.misses = append(h.misses, "unknown function "+iface+"."+fn)
		h.mu.Unlock()
		return errors.New("verif hub: unknown function")
	}
	// in-args -> generic values
	gins := make([]any, 0, len(ins))
	i := 0
	for _, a := range f.Args {
		if a.Out {
			continue
		}
		v := reflect.ValueOf(ins[i])
		if v.Kind() == reflect.Ptr {
			v = v.Elem()
		}
		g, err := rc.FromGo(a.Type, v)
		if err != nil {
			h.mu.Lock()
			h.misses = append(h.misses, fmt.Sprintf("%s.%s arg %s: %v", iface, fn, a.Name, err))
			h.mu.Unlock()
			return errors.New("verif hub: bridge error")
		}
		gins = append(gins, g)
		i++
	}
	inv := &Invocation{Iface: iface, Fn: fn, InsKey: InsKey(f, gins), At: time.Now()}
	if ctx != nil {
		inv.HasCtx = true
		if m, ok := current.GetRequestContext(ctx); ok {
			inv.ReqCtx = copyMap(m)
		}
		if m, ok := current.GetRequestStatus(ctx); ok {
			inv.ReqStatus = copyMap(m)
		}
	}
	h.mu.Lock()
	o := h.script[ScriptKey(iface, fn, inv.InsKey)]
	if o == nil && h.Default != nil {
		o = h.Default(f)
	}
	if o == nil {
		h.misses = append(h.misses, fmt.Sprintf("unscripted invocation %s.%s(%x)", iface, fn, inv.InsKey))
	}
	h.log = append(h.log, inv)
	h.mu.Unlock()
	if o == nil {
		return errors.New("verif hub: unscripted invocation")
	}
	if o.SleepMs > 0 {
		time.Sleep(time.Duration(o.SleepMs) * time.Millisecond)
	}
	defer func() {
		h.mu.Lock()
		inv.Done = time.Now()
		h.mu.Unlock()
	}()
	if ctx != nil {
		if o.RespCtx != nil {
			current.SetResponseContext(ctx, copyMap(o.RespCtx))
		}
		if o.RespStatus != nil {
			current.SetResponseStatus(ctx, copyMap(o.RespStatus))
		}
	}
	switch o.ErrKind {
	case 1:
		return &tars.Error{Code: o.ErrCode, Message: o.ErrMsg}
	case 2:
		return errors.New(o.ErrMsg)
	}
	// outs and ret
	oi := 0
	for _, a := range f.Args {
		if !a.Out {
			continue
		}
		g, err := rc.DecodeOne(a.Type, o.Outs[oi])
		if err != nil {
			return fmt.Errorf("verif hub: bad scripted out: %v", err)
		}
		if err := rc.ToGo(a.Type, g, reflect.ValueOf(outs[oi]).Elem(), false); err != nil {
			return fmt.Errorf("verif hub: bridge: %v", err)
		}
		oi++
	}
	if f.Ret != nil {
		g, err := rc.DecodeOne(f.Ret, o.Ret)
		if err != nil {
			return fmt.Errorf("verif hub: bad scripted ret: %v", err)
		}
		if err := rc.ToGo(f.Ret, g, reflect.ValueOf(ret).Elem(), false); err != nil {
			return fmt.Errorf("verif hub: bridge: %v", err)
		}
	}
	return nil
}

// SortedKeys is a small helper for deterministic iteration.
func SortedKeys[V any](m map[string]V) []string {
	out := make([]string, 0, len(m))
	for k := range m {
		out = append(out, k)
	}
	sort.Strings(out)
	return out
}
