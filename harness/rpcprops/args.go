package rpcprops

import (
	"encoding/json"
	"fmt"
	"reflect"

	rc "verif/harness/refcodec"
)

// Argument / result encodings of the three request versions, written from the protocol
// description (TARS: positional tags; TUP: attribute map name -> value encoded under tag 0;
// JSON: object keyed by parameter name).

var tupSchema = &rc.Struct{Module: "tup", Name: "UniAttribute", Fields: []*rc.Field{
	{Name: "data", Tag: 0, Require: true, Type: &rc.Type{Kind: rc.KMap, Key: tStr, Elem: tBytes}},
}}

// methodTypes returns the Go parameter types (without ctx) and return type of the generated
// proxy method for f - needed to produce / parse JSON exactly like a generated peer would.
func methodTypes(proxy any, f *rc.Func) ([]reflect.Type, reflect.Type, error) {
	m := reflect.ValueOf(proxy).MethodByName(rc.UpperFirst(f.Name) + "WithContext")
	if !m.IsValid() {
		return nil, nil, fmt.Errorf("no method %sWithContext on %T", rc.UpperFirst(f.Name), proxy)
	}
	mt := m.Type()
	var ins []reflect.Type
	for i := range f.Args {
		t := mt.In(i + 1)
		if t.Kind() == reflect.Ptr {
			t = t.Elem()
		}
		ins = append(ins, t)
	}
	var ret reflect.Type
	if f.Ret != nil {
		ret = mt.Out(0)
	}
	return ins, ret, nil
}

// JSONCapable: encoding/json cannot carry bool-keyed maps; structs generated with
// -json-omitempty drop zero-valued members from the JSON form (lossy by the option's own
// definition), so JSON transparency is not asserted for functions that carry them.
func JSONCapable(f *rc.Func) bool {
	var ok func(t *rc.Type) bool
	ok = func(t *rc.Type) bool {
		switch t.Kind {
		case rc.KMap:
			if t.Key.Kind == rc.KBool || t.Key.Kind == rc.KF32 || t.Key.Kind == rc.KF64 {
				return false
			}
			return ok(t.Elem)
		case rc.KVector, rc.KArray:
			return ok(t.Elem)
		case rc.KStruct:
			if t.Struct.JSONOmitEmpty {
				return false
			}
			for _, fl := range t.Struct.Fields {
				if !ok(fl.Type) {
					return false
				}
			}
		}
		return true
	}
	for _, a := range f.Args {
		if !ok(a.Type) {
			return false
		}
	}
	return f.Ret == nil || ok(f.Ret)
}

// EncodeArgs builds the request payload. ins are the generic in-arg values in order.
func EncodeArgs(ver int16, proxy any, f *rc.Func, ins []any) ([]byte, error) {
	switch ver {
	case VerTars:
		var e rc.Enc
		i := 0
		for k, a := range f.Args {
			if a.Out {
				continue
			}
			e.Value(a.Type, ins[i], k+1)
			i++
		}
		return e.Buf, nil
	case VerTup:
		var m []rc.KV
		i := 0
		for _, a := range f.Args {
			if a.Out {
				continue
			}
			var e rc.Enc
			e.Value(a.Type, ins[i], 0)
			m = append(m, rc.KV{K: a.Name, V: bytesVal(e.Buf)})
			i++
		}
		if m == nil {
			m = []rc.KV{}
		}
		var e rc.Enc
		e.StructBody(&rc.SV{St: tupSchema, Fields: []any{m}})
		return e.Buf, nil
	case VerJSON:
		types, _, err := methodTypes(proxy, f)
		if err != nil {
			return nil, err
		}
		obj := map[string]any{}
		i := 0
		for k, a := range f.Args {
			if a.Out {
				continue
			}
			v := reflect.New(types[k]).Elem()
			if err := rc.ToGo(a.Type, ins[i], v, false); err != nil {
				return nil, err
			}
			obj[a.Name] = v.Interface()
			i++
		}
		return json.Marshal(obj)
	}
	return nil, fmt.Errorf("unknown version %d", ver)
}

// DecodeResult decodes the reply payload into (ret, outs).
func DecodeResult(ver int16, proxy any, f *rc.Func, buf []byte) (ret any, outs []any, err error) {
	switch ver {
	case VerTars:
		d := &rc.Dec{B: buf}
		// layout: ret under tag 0 (if any), out params under their positional tags
		st := &rc.Struct{Name: "reply(" + f.Name + ")"}
		if f.Ret != nil {
			st.Fields = append(st.Fields, &rc.Field{Name: "ret", Tag: 0, Require: true, Type: f.Ret})
		}
		for k, a := range f.Args {
			if a.Out {
				st.Fields = append(st.Fields, &rc.Field{Name: a.Name, Tag: k + 1, Require: true, Type: a.Type})
			}
		}
		d.RejectUnknown = true
		sv, err := d.StructBody(st, 0, false)
		if err != nil {
			return nil, nil, err
		}
		i := 0
		if f.Ret != nil {
			ret = sv.Fields[0]
			i = 1
		}
		outs = append(outs, sv.Fields[i:]...)
		return ret, outs, nil
	case VerTup:
		sv, _, err := rc.DecodeStruct(tupSchema, buf)
		if err != nil {
			return nil, nil, fmt.Errorf("attribute map: %v", err)
		}
		attrs := map[string][]byte{}
		for _, kv := range sv.Fields[0].([]rc.KV) {
			attrs[kv.K.(string)] = valBytes(kv.V)
		}
		if f.Ret != nil {
			b, ok := attrs[""]
			b2, ok2 := attrs["tars_ret"]
			if !ok || !ok2 {
				return nil, nil, fmt.Errorf("return value attribute missing (have %d attributes)", len(attrs))
			}
			if ret, err = rc.DecodeOne(f.Ret, b); err != nil {
				return nil, nil, fmt.Errorf("attribute \"\": %v", err)
			}
			r2, err := rc.DecodeOne(f.Ret, b2)
			if err != nil || !rc.Equal(f.Ret, ret, r2) {
				return nil, nil, fmt.Errorf("attribute tars_ret differs from attribute \"\"")
			}
		}
		for _, a := range f.Args {
			if !a.Out {
				continue
			}
			b, ok := attrs[a.Name]
			if !ok {
				return nil, nil, fmt.Errorf("out parameter attribute %q missing", a.Name)
			}
			v, err := rc.DecodeOne(a.Type, b)
			if err != nil {
				return nil, nil, fmt.Errorf("attribute %q: %v", a.Name, err)
			}
			outs = append(outs, v)
		}
		return ret, outs, nil
	case VerJSON:
		types, rt, err := methodTypes(proxy, f)
		if err != nil {
			return nil, nil, err
		}
		var obj map[string]json.RawMessage
		if err := json.Unmarshal(buf, &obj); err != nil {
			return nil, nil, fmt.Errorf("json reply: %v", err)
		}
		if f.Ret != nil {
			raw, ok := obj["tars_ret"]
			if !ok {
				return nil, nil, fmt.Errorf("json reply lacks tars_ret")
			}
			v := reflect.New(rt)
			if err := json.Unmarshal(raw, v.Interface()); err != nil {
				return nil, nil, fmt.Errorf("tars_ret: %v", err)
			}
			if ret, err = rc.FromGo(f.Ret, v.Elem()); err != nil {
				return nil, nil, err
			}
		}
		for k, a := range f.Args {
			if !a.Out {
				continue
			}
			raw, ok := obj[a.Name]
			if !ok {
				return nil, nil, fmt.Errorf("json reply lacks %q", a.Name)
			}
			v := reflect.New(types[k])
			if err := json.Unmarshal(raw, v.Interface()); err != nil {
				return nil, nil, fmt.Errorf("%s: %v", a.Name, err)
			}
			g, err := rc.FromGo(a.Type, v.Elem())
			if err != nil {
				return nil, nil, err
			}
			outs = append(outs, g)
		}
		return ret, outs, nil
	}
	return nil, nil, fmt.Errorf("unknown version %d", ver)
}
