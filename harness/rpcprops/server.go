package rpcprops

import (
	"context"
	"fmt"
	"net"
	"reflect"
	"strconv"
	"sync/atomic"
	"time"

	"github.com/TarsCloud/TarsGo/tars"
	"github.com/TarsCloud/TarsGo/tars/protocol/res/requestf"
	"github.com/TarsCloud/TarsGo/tars/transport"
	"github.com/TarsCloud/TarsGo/tars/util/rogger"

	rc "verif/harness/refcodec"
)

func init() {
	// the framework logs at DEBUG to stdout by default
	rogger.SetLevel(rogger.OFF)
}

type dispatcher interface {
	Dispatch(context.Context, interface{}, *requestf.RequestPacket, *requestf.ResponsePacket, bool) error
}

type ServerOpts struct {
	Proto         string // "tcp" (default) or "udp"
	MaxInvoke     int32
	QueueCap      int
	HandleTimeout time.Duration
	WithContext   bool
	Host          string // default 127.0.0.1
	Relay         bool   // the client connects through a segment-choosing relay (Env only)
	// WriteTimeout: the adapter's <writetimeout> setting (0 = default: none)
	WriteTimeout time.Duration
	// ReadTimeout: the adapter's <readtimeout> setting (0 = default: none)
	ReadTimeout time.Duration
}

type Server struct {
	Srv   *transport.TarsServer
	Proto *tars.Protocol
	Addr  string
	Host  string
	Port  int
	Opts  ServerOpts
	done  chan struct{}
}

// StartServer runs a generated dispatcher + implementation on the transport path (what
// application.AddServant builds, without the application's config file).
func StartServer(disp any, imp any, o ServerOpts) (*Server, error) {
	d, ok := disp.(dispatcher)
	if !ok {
		return nil, fmt.Errorf("%T has no Dispatch method", disp)
	}
	if o.Proto == "" {
		o.Proto = "tcp"
	}
	if o.Host == "" {
		o.Host = "127.0.0.1"
	}
	if o.QueueCap == 0 {
		o.QueueCap = 10000
	}
	p := tars.VerifBindDefaultApp(tars.NewTarsProtocol(d, imp, o.WithContext))
	conf := &transport.TarsServerConf{
		Proto: o.Proto, Address: o.Host + ":0", MaxInvoke: o.MaxInvoke, QueueCap: o.QueueCap,
		AcceptTimeout: 500 * time.Millisecond, HandleTimeout: o.HandleTimeout, IdleTimeout: 600 * time.Second, WriteTimeout: o.WriteTimeout, ReadTimeout: o.ReadTimeout,
		TCPNoDelay: true, TCPReadBuffer: 128 << 10, TCPWriteBuffer: 128 << 10,
	}
	srv := transport.NewTarsServer(p, conf)
	if err := srv.Listen(); err != nil {
		return nil, err
	}
	addr := srv.VerifAddr()
	_, ps, _ := net.SplitHostPort(addr)
	port, _ := strconv.Atoi(ps)
	conf.Address = addr // CloseIdles dials config.Address to wake the accept loop
	s := &Server{Srv: srv, Proto: p, Addr: addr, Host: o.Host, Port: port, Opts: o, done: make(chan struct{})}
	go func() {
		_ = srv.Serve()
		close(s.done)
	}()
	return s, nil
}

// Stop shuts the server down in the background.
func (s *Server) Stop() {
	go func() {
		ctx, cancel := context.WithTimeout(context.Background(), 3*time.Second)
		defer cancel()
		_ = s.Srv.Shutdown(ctx)
	}()
}

var objSeq int64

// NewProxy binds a generated proxy object to the server through a direct address.
func (s *Server) NewProxy(comm *tars.Communicator, proxy any, timeoutMs int) (string, error) {
	return s.NewProxyVia(comm, proxy, s.Port, timeoutMs)
}

// NewProxyVia is NewProxy with the port the client connects to chosen by the caller (a relay
// in front of the server).
func (s *Server) NewProxyVia(comm *tars.Communicator, proxy any, port int, timeoutMs int) (string, error) {
	p, ok := proxy.(tars.ProxyPrx)
	if !ok {
		return "", fmt.Errorf("%T is not a proxy (no SetServant)", proxy)
	}
	obj := fmt.Sprintf("Verif.Srv%d.Obj%d", s.Port, atomic.AddInt64(&objSeq, 1))
	proto := "tcp"
	if s.Opts.Proto == "udp" {
		proto = "udp"
	}
	comm.StringToProxy(fmt.Sprintf("%s@%s -h %s -p %d -t 60000", obj, proto, s.Host, port), p)
	if timeoutMs > 0 {
		if t, ok := proxy.(interface{ TarsSetTimeout(int) }); ok {
			t.TarsSetTimeout(timeoutMs)
		}
	}
	return obj, nil
}

// CallSpec describes one client call through a generated proxy.
type CallSpec struct {
	Iface  string            `json:"iface"`
	Fn     string            `json:"fn"`
	Ins    [][]byte          `json:"ins"` // canonical bytes of each in-arg
	OneWay bool              `json:"one_way,omitempty"`
	NOpts  int               `json:"n_opts"` // 0: no option maps, 1: context, 2: context+status
	Ctx    map[string]string `json:"ctx,omitempty"`
	Status map[string]string `json:"status,omitempty"`
}

type CallResult struct {
	Err    error
	Ret    any   // generic value (nil for void / one-way)
	Outs   []any // generic values of the out params
	Ctx    map[string]string
	Status map[string]string
	Took   time.Duration
}

// Invoke performs the call by reflection on the generated proxy methods.
func Invoke(ctx context.Context, proxy any, f *rc.Func, spec CallSpec) (res CallResult, herr error) {
	name := rc.UpperFirst(f.Name) + "WithContext"
	if spec.OneWay {
		name = rc.UpperFirst(f.Name) + "OneWayWithContext"
	}
	m := reflect.ValueOf(proxy).MethodByName(name)
	if !m.IsValid() {
		return res, fmt.Errorf("generated proxy %T has no method %s", proxy, name)
	}
	mt := m.Type()
	args := []reflect.Value{reflect.ValueOf(ctx)}
	var outPtrs []reflect.Value
	ii := 0
	for i, a := range f.Args {
		pt := mt.In(i + 1)
		if a.Out {
			if pt.Kind() != reflect.Ptr {
				return res, fmt.Errorf("%s: out parameter %s is not a pointer", name, a.Name)
			}
			p := reflect.New(pt.Elem())
			outPtrs = append(outPtrs, p)
			args = append(args, p)
			continue
		}
		g, err := rc.DecodeOne(a.Type, spec.Ins[ii])
		ii++
		if err != nil {
			return res, fmt.Errorf("bad in-arg bytes: %v", err)
		}
		if pt.Kind() == reflect.Ptr {
			p := reflect.New(pt.Elem())
			if err := rc.ToGo(a.Type, g, p.Elem(), false); err != nil {
				return res, err
			}
			args = append(args, p)
		} else {
			v := reflect.New(pt).Elem()
			if err := rc.ToGo(a.Type, g, v, false); err != nil {
				return res, err
			}
			args = append(args, v)
		}
	}
	var cm, sm map[string]string
	if spec.NOpts >= 1 {
		cm = copyMap(spec.Ctx)
		if cm == nil {
			cm = map[string]string{}
		}
		args = append(args, reflect.ValueOf(cm))
	}
	if spec.NOpts >= 2 {
		sm = copyMap(spec.Status)
		if sm == nil {
			sm = map[string]string{}
		}
		args = append(args, reflect.ValueOf(sm))
	}
	t0 := time.Now()
	rets := m.Call(args)
	res.Took = time.Since(t0)
	errV := rets[len(rets)-1]
	if !errV.IsNil() {
		res.Err = errV.Interface().(error)
	}
	res.Ctx, res.Status = cm, sm
	if res.Err == nil && !spec.OneWay {
		if f.Ret != nil {
			g, err := rc.FromGo(f.Ret, rets[0])
			if err != nil {
				return res, err
			}
			res.Ret = g
		}
		oi := 0
		for _, a := range f.Args {
			if !a.Out {
				continue
			}
			g, err := rc.FromGo(a.Type, outPtrs[oi].Elem())
			if err != nil {
				return res, err
			}
			res.Outs = append(res.Outs, g)
			oi++
		}
	}
	return res, nil
}
