package rpcprops

import (
	"encoding/binary"
	"fmt"
	"io"
	"net"
	"os"
	"sync"
	"time"

	rc "verif/harness/refcodec"
)

// Raw request/response packets, encoded and strictly decoded with the reference codec
// (independent of the framework's requestf bindings).

var (
	tStr    = &rc.Type{Kind: rc.KString}
	tI8     = &rc.Type{Kind: rc.KI8}
	tI16    = &rc.Type{Kind: rc.KI16}
	tI32    = &rc.Type{Kind: rc.KI32}
	tBytes  = &rc.Type{Kind: rc.KVector, Elem: tI8}
	tStrMap = &rc.Type{Kind: rc.KMap, Key: tStr, Elem: tStr}

	ReqSchema = &rc.Struct{Module: "requestf", Name: "RequestPacket", Fields: []*rc.Field{
		{Name: "iVersion", Tag: 1, Require: true, Type: tI16},
		{Name: "cPacketType", Tag: 2, Require: true, Type: tI8},
		{Name: "iMessageType", Tag: 3, Require: true, Type: tI32},
		{Name: "iRequestId", Tag: 4, Require: true, Type: tI32},
		{Name: "sServantName", Tag: 5, Require: true, Type: tStr},
		{Name: "sFuncName", Tag: 6, Require: true, Type: tStr},
		{Name: "sBuffer", Tag: 7, Require: true, Type: tBytes},
		{Name: "iTimeout", Tag: 8, Require: true, Type: tI32},
		{Name: "context", Tag: 9, Require: true, Type: tStrMap},
		{Name: "status", Tag: 10, Require: true, Type: tStrMap},
	}}
	RespSchema = &rc.Struct{Module: "requestf", Name: "ResponsePacket", Fields: []*rc.Field{
		{Name: "iVersion", Tag: 1, Require: true, Type: tI16},
		{Name: "cPacketType", Tag: 2, Require: true, Type: tI8},
		{Name: "iRequestId", Tag: 3, Require: true, Type: tI32},
		{Name: "iMessageType", Tag: 4, Require: true, Type: tI32},
		{Name: "iRet", Tag: 5, Require: true, Type: tI32},
		{Name: "sBuffer", Tag: 6, Require: true, Type: tBytes},
		{Name: "status", Tag: 7, Require: true, Type: tStrMap},
		{Name: "sResultDesc", Tag: 8, Require: false, Type: tStr},
		{Name: "context", Tag: 9, Require: false, Type: tStrMap},
	}}
)

const (
	VerTars int16 = 1
	VerTup  int16 = 3
	VerJSON int16 = 5
)

type RawReq struct {
	Version    int16             `json:"version"`
	PacketType int8              `json:"packet_type"` // 0 two-way, 1 one-way
	MsgType    int32             `json:"msg_type,omitempty"`
	ReqID      int32             `json:"req_id"`
	Servant    string            `json:"servant"`
	Func       string            `json:"func"`
	Buffer     []byte            `json:"buffer"`
	Timeout    int32             `json:"timeout"`
	Context    map[string]string `json:"context,omitempty"`
	Status     map[string]string `json:"status,omitempty"`
}

func bytesVal(b []byte) []any {
	out := make([]any, len(b))
	for i, x := range b {
		out[i] = int64(int8(x))
	}
	return out
}

func valBytes(v any) []byte {
	l := v.([]any)
	out := make([]byte, len(l))
	for i, x := range l {
		out[i] = byte(x.(int64))
	}
	return out
}

func mapVal(m map[string]string) []rc.KV {
	out := []rc.KV{}
	for _, k := range SortedKeys(m) {
		out = append(out, rc.KV{K: k, V: m[k]})
	}
	return out
}

func valMap(v any) map[string]string {
	out := map[string]string{}
	for _, kv := range v.([]rc.KV) {
		out[kv.K.(string)] = kv.V.(string)
	}
	return out
}

// Encode renders the length-prefixed request packet.
func (r RawReq) Encode() []byte {
	sv := &rc.SV{St: ReqSchema, Fields: []any{int64(r.Version), int64(r.PacketType), int64(r.MsgType), int64(r.ReqID), r.Servant, r.Func,
		bytesVal(r.Buffer), int64(r.Timeout), mapVal(r.Context), mapVal(r.Status)}}
	e := rc.Enc{KeepDefaults: true}
	e.StructBody(sv)
	out := make([]byte, 4, 4+len(e.Buf))
	binary.BigEndian.PutUint32(out, uint32(4+len(e.Buf)))
	return append(out, e.Buf...)
}

type RawResp struct {
	Shape      string // "response" (ResponsePacket) or "request" (TUP reply in RequestPacket form)
	Version    int16
	PacketType int8
	ReqID      int32
	Ret        int32
	Buffer     []byte
	Status     map[string]string
	Context    map[string]string
	ResultDesc string
	Func       string
	Raw        []byte
}

// DecodeResp strictly decodes one reply body (without the 4-byte length). TUP replies use
// the RequestPacket layout, all others the ResponsePacket layout; the version field (tag 1)
// decides.
func DecodeResp(body []byte) (*RawResp, error) {
	d := &rc.Dec{B: body}
	ty, tag, err := d.Head()
	if err != nil || tag != 1 {
		return nil, fmt.Errorf("reply does not start with the version field (tag %d, err %v)", tag, err)
	}
	v, err := d.Value(tI16, ty, 0)
	if err != nil {
		return nil, fmt.Errorf("version field: %v", err)
	}
	ver := int16(v.(int64))
	if ver == VerTup {
		sv, _, err := rc.DecodeStruct(ReqSchema, body)
		if err != nil {
			return nil, fmt.Errorf("TUP reply is not a well-formed RequestPacket: %v", err)
		}
		f := sv.Fields
		return &RawResp{Shape: "request", Version: ver, PacketType: int8(f[1].(int64)), ReqID: int32(f[3].(int64)), Func: f[5].(string),
			Buffer: valBytes(f[6]), Context: valMap(f[8]), Status: valMap(f[9]), Raw: body}, nil
	}
	sv, _, err := rc.DecodeStruct(RespSchema, body)
	if err != nil {
		return nil, fmt.Errorf("reply is not a well-formed ResponsePacket: %v", err)
	}
	f := sv.Fields
	return &RawResp{Shape: "response", Version: ver, PacketType: int8(f[1].(int64)), ReqID: int32(f[2].(int64)), Ret: int32(f[4].(int64)),
		Buffer: valBytes(f[5]), Status: valMap(f[6]), ResultDesc: f[7].(string), Context: valMap(f[8]), Raw: body}, nil
}

// RawConn is a raw TCP (or UDP) client connection that collects every packet the server
// sends, in arrival order.
type RawConn struct {
	C      net.Conn
	UDP    bool
	mu     sync.Mutex
	pkts   [][]byte
	errs   []string
	closed bool // peer closed
	done   chan struct{}
}

func DialRaw(proto, addr string) (*RawConn, error) {
	return DialRawGated(proto, addr, nil)
}

// DialRawGated is DialRaw with a reader that does not read anything from the socket until
// gate is closed (a client that is slow to drain its receive buffer).
func DialRawGated(proto, addr string, gate chan struct{}) (*RawConn, error) {
	c, err := net.DialTimeout(proto, addr, 3*time.Second)
	if err != nil {
		return nil, err
	}
	rcn := &RawConn{C: c, UDP: proto == "udp", done: make(chan struct{})}
	go func() {
		if gate != nil {
			<-gate
		}
		rcn.readLoop()
	}()
	return rcn, nil
}

func (r *RawConn) readLoop() {
	defer close(r.done)
	if r.UDP {
		buf := make([]byte, 65536)
		for {
			n, err := r.C.Read(buf)
			if err != nil {
				return
			}
			p := append([]byte{}, buf[:n]...)
			if os.Getenv("VERIF_RAW_DEBUG") != "" {
				fmt.Printf("DEBUG udp datagram %d bytes\n", n)
			}
			r.mu.Lock()
			if n < 4 || int(binary.BigEndian.Uint32(p)) != n {
				r.errs = append(r.errs, fmt.Sprintf("datagram of %d bytes with length prefix % x", n, p[:min(4, n)]))
			} else {
				r.pkts = append(r.pkts, p[4:])
			}
			r.mu.Unlock()
		}
	}
	var hdr [4]byte
	for {
		if _, err := io.ReadFull(r.C, hdr[:]); err != nil {
			r.mu.Lock()
			r.closed = true
			r.mu.Unlock()
			return
		}
		n := int(binary.BigEndian.Uint32(hdr[:]))
		if n < 4 || n > 64<<20 {
			r.mu.Lock()
			r.errs = append(r.errs, fmt.Sprintf("illegal length prefix %d from server", n))
			r.mu.Unlock()
			return
		}
		if os.Getenv("VERIF_RAW_DEBUG") != "" {
			fmt.Printf("DEBUG tcp packet %d bytes\n", n)
		}
		body := make([]byte, n-4)
		if _, err := io.ReadFull(r.C, body); err != nil {
			r.mu.Lock()
			r.errs = append(r.errs, "connection closed in the middle of a packet")
			r.closed = true
			r.mu.Unlock()
			return
		}
		r.mu.Lock()
		r.pkts = append(r.pkts, body)
		r.mu.Unlock()
	}
}

// Write sends the bytes in the given chunk sizes (the remainder in one piece).
func (r *RawConn) Write(b []byte, chunks []int) error {
	if r.UDP {
		_, err := r.C.Write(b)
		return err
	}
	for _, n := range chunks {
		if len(b) == 0 {
			break
		}
		if n > len(b) {
			n = len(b)
		}
		if n <= 0 {
			n = 1
		}
		if _, err := r.C.Write(b[:n]); err != nil {
			return err
		}
		b = b[n:]
	}
	if len(b) > 0 {
		_, err := r.C.Write(b)
		return err
	}
	return nil
}

// WritePaced is Write with a pause after every chunk, so that the chunks reach the peer as
// separate reads.
func (r *RawConn) WritePaced(b []byte, chunks []int, gap time.Duration) error {
	for _, n := range chunks {
		if len(b) == 0 {
			break
		}
		if n > len(b) {
			n = len(b)
		}
		if n <= 0 {
			n = 1
		}
		if _, err := r.C.Write(b[:n]); err != nil {
			return err
		}
		b = b[n:]
		time.Sleep(gap)
	}
	if len(b) > 0 {
		_, err := r.C.Write(b)
		return err
	}
	return nil
}

func (r *RawConn) Packets() ([][]byte, []string, bool) {
	r.mu.Lock()
	defer r.mu.Unlock()
	return append([][]byte{}, r.pkts...), append([]string{}, r.errs...), r.closed
}

// WaitPackets waits until n packets arrived or the timeout expired.
func (r *RawConn) WaitPackets(n int, d time.Duration) {
	dl := time.Now().Add(d)
	for time.Now().Before(dl) {
		r.mu.Lock()
		k, cl := len(r.pkts), r.closed
		r.mu.Unlock()
		if k >= n || cl {
			return
		}
		time.Sleep(time.Millisecond)
	}
}

func (r *RawConn) Close() { _ = r.C.Close() }
