#!/bin/sh
# usage: seedcheck.sh <patch-file> <prop> [tier]   -- applies the patch in a scratch worktree of /repo HEAD,
# runs ./check <prop> against it (VERIF_REPO), removes the worktree. Exit code = the check's.
P=$1; PROP=$2; TIER=${3:-quick}
WT=/tmp/wt_seed_$$
git -C /repo worktree add -q $WT HEAD || exit 3
if ! git -C $WT apply "$P"; then echo "PATCH DOES NOT APPLY"; git -C /repo worktree remove --force $WT; exit 3; fi
cd /verif && VERIF_REPO=$WT ./check $PROP --tier $TIER 2>&1 | grep -E "failure\[|^OK|INFRA|VIOLATION|KNOWN" | cut -c1-400 | head -8
rc=$?
git -C /repo worktree remove --force $WT
