#!/bin/sh
# Runs every filed seeded change against the check of its property (scratch worktree of /repo HEAD).
# usage: seedsweep.sh [names...]   output: one line per seed  "<name> <prop> exit=<code> <first failure signature>"
cd /verif
names="$@"
[ -z "$names" ] && names=$(ls seeded)
for n in $names; do
  prop=$(python3 -c "import json;print(json.load(open('/verif/seeded/$n/meta.json'))['property'])")
  WT=/tmp/wt_sweep_$$
  git -C /repo worktree add -q $WT HEAD || continue
  if ! git -C $WT apply /verif/seeded/$n/patch.diff 2>/dev/null; then
    echo "$n $prop PATCH-DOES-NOT-APPLY"
  else
    out=$(VERIF_REPO=$WT ./check $prop 2>&1)
    code=$?
    sig=$(echo "$out" | grep -m1 -o "failure\[[^]]*\] [a-z0-9:_-]*" )
    echo "$n $prop exit=$code $sig"
  fi
  git -C /repo worktree remove --force $WT
done
rm -rf /tmp/verif_mut_replays /tmp/verif_mut_evidence
