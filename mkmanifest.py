#!/usr/bin/env python3
"""Regenerates MANIFEST.json from the table below (kept next to the driver so that the
manifest, the driver configuration and DESIGN.md stay in step)."""
import json, os

HERE = os.path.dirname(os.path.abspath(__file__))
ALL = ["C%02d" % i for i in range(1, 21)]

NOT_BUILT = "check not built yet in this round (planned with the same technique, see DESIGN.md section 3); not claimed until it exists"


def main():
    import glob
    checks = {}
    for f in sorted(glob.glob(os.path.join(HERE, "harness", "*", "manifest.json"))):
        c = json.load(open(f))
        checks[c["property"]] = c
    m = {
        "version": 1,
        "setup_cmd": "./setup.sh",
        "hooks": {
            "guard": "verif",
            "enable": "every check builds the harness against /repo with: go test -tags verif -vet=off -overlay <overlay.json generated from harness/overlay> (overlay files only add accessors to repo packages at compile time; committed hooks are guarded by //go:build verif)",
            "baseline_off_cmd": "for m in . contrib/log; do (cd /repo/$m && GOFLAGS=-mod=mod GOPROXY=off GOSUMDB=off go test -vet=off -count=1 -timeout 25m ./...); done",
            "source_commits": json.load(open(os.path.join(HERE, "hook_commits.json"))) if os.path.exists(os.path.join(HERE, "hook_commits.json")) else [],
            "add_only": True,
        },
        "engines": [
            {"name": "stat", "path": "harness/stat", "serves_properties": ALL, "kind_free_text": "evidence counting, rapid wrapper, replay files"},
            {"name": "refcodec", "path": "harness/refcodec", "serves_properties": ["C02", "C03", "C04", "C05", "C06", "C10", "C16"], "kind_free_text": "independent reference Tars encoder / strict decoder / well-formedness scanner"},
        ],
        "checks": [],
        "notes": "Driver: ./check <id> [--tier quick|thorough] [--replay file]. exit 0 held / 1 VIOLATION / 2 infrastructure (inconclusive). Known findings and fixed defects: KNOWN_FINDINGS.txt.",
        "not_applicable": [],
    }
    for pid in ALL:
        if pid in checks:
            c = checks[pid]
            m["checks"].append({
                "property_id": pid,
                "quick_cmd": "./check %s --tier quick" % pid,
                "thorough_cmd": "./check %s --tier thorough" % pid,
                "evidence_file": "/verif/evidence/%s.json" % pid,
                "replay_cmd_template": "./check %s --replay {path}" % pid,
                "engine": c["engine"],
                "level_claimed": {"category": c["cat"], "text": c["text"], "design_ref": c["ref"]},
                "level_note": c["note"],
                "technique": c["tech"],
            })
        else:
            m["not_applicable"].append({"property_id": pid, "reason": NOT_BUILT})
    with open(os.path.join(HERE, "MANIFEST.json"), "w") as f:
        json.dump(m, f, indent=1)
        f.write("\n")


if __name__ == "__main__":
    main()
